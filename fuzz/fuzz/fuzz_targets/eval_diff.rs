#![no_main]
use libfuzzer_sys::fuzz_target;

fuzz_target!(|data: &[u8]| {
    jmv::fuzzing::run_target("eval_diff", data);
});
