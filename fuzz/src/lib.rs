// parent stub for cargo-fuzz
