//! If the library builds with `sync` but this crate does not (E0277), the
//! types are not shareable across threads: that is the C16 violation.
#![allow(dead_code)]

fn need<T: Send + Sync>() {}

pub fn obligations() {
    need::<jmespath::Expression<'static>>();
    need::<jmespath::Runtime>();
    need::<jmespath::Variable>();
    need::<jmespath::Rcvar>();
    need::<jmespath::ast::Ast>();
    need::<jmespath::JmespathError>();
    need::<Box<dyn jmespath::functions::Function>>();
    need::<&'static jmespath::Runtime>();
}

/// An expression shared by reference and moved into another thread.
pub fn share(e: &'static jmespath::Expression<'static>, v: jmespath::Rcvar) -> std::thread::JoinHandle<bool> {
    std::thread::spawn(move || e.search(v).is_ok())
}
