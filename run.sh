#!/bin/bash
# Single entry point of the verification machinery.
#   run.sh setup                 build everything from /repo's working tree (offline)
#   run.sh <Cxx> quick|thorough  run one property check (exit 0 held / 1 VIOLATION / 2 infrastructure)
#   run.sh replay <file>         re-execute one saved case, bypassing the generators
#   run.sh selftest              compliance suite through the reference model
# Environment: VERIF_SEED (default 1), VERIF_REPO=<dir> to check a scratch copy instead of /repo.
set -u
cd "$(dirname "$0")"
V=$(pwd)
export CARGO_NET_OFFLINE=true
export VERIF_DIR="$V"
export RUST_BACKTRACE=0
REPO=${VERIF_REPO:-/repo}
CFG=()
TD="$V/target"
if [ "$REPO" != "/repo" ]; then
  CFG=(--config "paths=['$REPO/jmespath']")
  TD="$REPO/.jmv-target"
fi

build_variant() { # name, cargo toolchain arg, features
  local name=$1 tc=$2 feats=$3
  local log="$TD/build-$name.log"
  mkdir -p "$TD"
  ( cd "$V/harness" && cargo $tc build --release --offline --target-dir "$TD/$name" ${feats:+--features "$feats"} "${CFG[@]}" ) >"$log" 2>&1
  local rc=$?
  if [ $rc -ne 0 ]; then
    echo "BUILD-FAILED variant=$name (see $log)" >&2
    grep -E "^error" -A 8 "$log" | head -60 >&2
    return 2
  fi
  return 0
}

cmd=${1:-}
case "$cmd" in
  setup)
    build_variant default "" "" || exit 2
    "$TD/default/release/check" selftest || exit 2
    exit 0
    ;;
  selftest)
    build_variant default "" "" || exit 2
    exec "$TD/default/release/check" selftest
    ;;
  replay)
    build_variant default "" "" || exit 2
    exec "$TD/default/release/check" replay "$2"
    ;;
  C[0-9][0-9])
    tier=${2:-quick}
    build_variant default "" "" || exit 2
    export VERIF_TIER=$tier
    exec "$TD/default/release/check" "$cmd" --tier "$tier"
    ;;
  *)
    echo "usage: run.sh setup | <Cxx> quick|thorough | replay <file> | selftest" >&2
    exit 2
    ;;
esac
