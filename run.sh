#!/bin/bash
# Single entry point of the verification machinery.
#   run.sh setup                 build everything from /repo's working tree (offline)
#   run.sh <Cxx> quick|thorough  run one property check (exit 0 held / 1 VIOLATION / 2 infrastructure)
#   run.sh replay <file>         re-execute one saved case, bypassing the generators
#   run.sh selftest              compliance suite through the reference model
# Environment: VERIF_SEED (default 1), VERIF_REPO=<dir> to check a scratch copy instead of /repo.
set -u
cd "$(dirname "$0")"
V=$(pwd)
export CARGO_NET_OFFLINE=true
export VERIF_DIR="$V"
export RUST_BACKTRACE=0
REPO=${VERIF_REPO:-/repo}
CFG=()
TD="$V/target"
if [ "$REPO" != "/repo" ]; then
  CFG=(--config "paths=['$REPO/jmespath']")
  TD="$REPO/.jmv-target"
fi
mkdir -p "$TD"
export JMV_TMP="$TD/tmp"

build_variant() { # name, toolchain ("" or +nightly), features
  local name=$1 tc=$2 feats=$3
  local log="$TD/build-$name.log"
  ( cd "$V/harness" && cargo $tc build --release --offline --bin check --target-dir "$TD/$name" ${feats:+--features "$feats"} "${CFG[@]}" ) >"$log" 2>&1
  if [ $? -ne 0 ]; then
    echo "BUILD-FAILED variant=$name (see $log)" >&2
    grep -E "^error" -A 8 "$log" | head -60 >&2
    return 2
  fi
  return 0
}

build_jp() {
  local d="$TD/jpbuild-src"
  mkdir -p "$d"
  cat > "$d/Cargo.toml" <<TOML
# Wrapper manifest: compiles the working-tree source of the CLI unchanged.
# (The CLI's own Cargo.lock pins crate versions that are not in the offline cache.)
[package]
name = "jmespath-cli"
version = "0.3.0"
edition = "2018"

[[bin]]
name = "jp"
path = "$REPO/jmespath-cli/src/main.rs"

[dependencies]
serde = "1"
serde_json = "1"
clap = "2.33"
jmespath = { path = "$REPO/jmespath" }

[workspace]
TOML
  [ -f "$d/Cargo.lock" ] || cp "$V/jpbuild/Cargo.lock" "$d/Cargo.lock" 2>/dev/null
  local log="$TD/build-jp.log"
  ( cd "$d" && cargo build --release --offline --target-dir "$TD/cli" ) >"$log" 2>&1
  if [ $? -ne 0 ]; then
    echo "BUILD-FAILED variant=jp (see $log)" >&2
    grep -E "^error" -A 8 "$log" | head -40 >&2
    return 2
  fi
  export JMV_JP="$TD/cli/release/jp"
  return 0
}

build_sendsync() {
  local d="$TD/sendsync-src"
  mkdir -p "$d/src"
  cp "$V/sendsync/src/lib.rs" "$d/src/lib.rs"
  cp "$V/sendsync/Cargo.lock" "$d/Cargo.lock" 2>/dev/null
  sed "s#/repo/jmespath#$REPO/jmespath#" "$V/sendsync/Cargo.toml" > "$d/Cargo.toml"
  local log="$TD/build-sendsync.log"
  ( cd "$d" && cargo build --offline --target-dir "$TD/sendsync" ) >"$log" 2>&1
  if [ $? -eq 0 ]; then
    export JMV_SENDSYNC=ok
  else
    # the library itself built with `sync` (the harness variant did), so this is the obligation failing
    export JMV_SENDSYNC="$(grep -E '^error' -A 12 "$log" | head -60)"
    [ -n "$JMV_SENDSYNC" ] || export JMV_SENDSYNC="build failed, see $log"
  fi
  return 0
}

build_tsan() {
  local log="$TD/build-tsan.log"
  ( cd "$V/harness" && RUSTFLAGS="-Zsanitizer=thread" cargo +nightly build --release --offline --bin check --features sync \
      -Zbuild-std --target x86_64-unknown-linux-gnu --target-dir "$TD/tsan" "${CFG[@]}" ) >"$log" 2>&1
  if [ $? -eq 0 ]; then
    export JMV_BIN_TSAN="$TD/tsan/x86_64-unknown-linux-gnu/release/check"
  else
    echo "note: ThreadSanitizer build failed (see $log); the tsan sub-check will be inconclusive" >&2
  fi
  return 0
}

build_fuzz() {
  local d="$TD/fuzz-src"
  rm -rf "$d/fuzz/fuzz_targets" "$d/src"
  mkdir -p "$d/fuzz" "$d/src" "$d/fuzz/.cargo"
  cp "$V/fuzz/Cargo.toml" "$d/Cargo.toml"
  cp "$V/fuzz/src/lib.rs" "$d/src/lib.rs"
  cp -r "$V/fuzz/fuzz/fuzz_targets" "$d/fuzz/fuzz_targets"
  sed "s#path = \"../../harness\"#path = \"$V/harness\"#" "$V/fuzz/fuzz/Cargo.toml" > "$d/fuzz/Cargo.toml"
  [ -f "$d/fuzz/Cargo.lock" ] || cp "$V/harness/Cargo.lock" "$d/fuzz/Cargo.lock"
  if [ "$REPO" != "/repo" ]; then
    printf 'paths = ["%s/jmespath"]\n[net]\noffline = true\n' "$REPO" > "$d/fuzz/.cargo/config.toml"
  else
    printf '[net]\noffline = true\n' > "$d/fuzz/.cargo/config.toml"
  fi
  local log="$TD/build-fuzz.log"
  ( cd "$d" && cargo +nightly fuzz build --release ) >"$log" 2>&1
  if [ $? -eq 0 ]; then
    export JMV_FUZZ_DIR="$d"
  else
    echo "note: fuzz targets failed to build (see $log); the fuzz sub-checks will be inconclusive" >&2
  fi
  return 0
}

build_for() { # property id
  build_variant default "" "" || return 2
  case "$1" in
    C16) build_sendsync
         if ! build_variant sync "" "sync" 2>"$TD/build-sync.err"; then
           # The harness shares expressions between threads, so it cannot compile when the
           # types are not Send + Sync.  If the library itself builds with `sync` and only the
           # obligations fail, that is the type-level violation: report it through the
           # default build (which carries the type-level layer only).
           if ( cd "$REPO/jmespath" && cargo build --offline --features sync --target-dir "$TD/libsync" ) >"$TD/build-libsync.log" 2>&1 \
              && [ "$JMV_SENDSYNC" != "ok" ]; then
             export JMV_C16_TYPELEVEL_ONLY=1
           else
             cat "$TD/build-sync.err" >&2
             return 2
           fi
         fi
         [ "${2:-quick}" = "thorough" ] && [ -z "${JMV_C16_TYPELEVEL_ONLY:-}" ] && build_tsan ;;
    C17) build_variant sync "" "sync" || return 2
         build_variant spec "+nightly" "spec" || return 2
         build_variant specsync "+nightly" "spec,sync" || return 2 ;;
    C18) build_jp || return 2 ;;
    C01|C03|C04|C05) [ "${2:-quick}" = "thorough" ] && build_fuzz ;;
    all) build_variant sync "" "sync" || return 2
         build_sendsync
         build_variant spec "+nightly" "spec" || return 2
         build_variant specsync "+nightly" "spec,sync" || return 2
         build_jp || return 2 ;;
  esac
  export JMV_BIN_DEFAULT="$TD/default/release/check"
  export JMV_BIN_SYNC="$TD/sync/release/check"
  export JMV_BIN_SPEC="$TD/spec/release/check"
  export JMV_BIN_SPECSYNC="$TD/specsync/release/check"
  return 0
}

cmd=${1:-}
case "$cmd" in
  setup)
    build_for all || exit 2
    "$TD/default/release/check" selftest || exit 2
    exit 0
    ;;
  selftest)
    build_for none || exit 2
    exec "$TD/default/release/check" selftest
    ;;
  replay)
    prop=$(python3 -c "import json,sys; print(json.load(open(sys.argv[1]))['property'])" "$2" 2>/dev/null || echo none)
    build_for "$prop" || exit 2
    bin="$TD/default/release/check"
    [ "$prop" = "C16" ] && bin="$TD/sync/release/check"
    exec "$bin" replay "$2"
    ;;
  C[0-9][0-9])
    tier=${2:-quick}
    build_for "$cmd" "$tier" || exit 2
    export VERIF_TIER=$tier
    bin="$TD/default/release/check"
    [ "$cmd" = "C16" ] && [ -z "${JMV_C16_TYPELEVEL_ONLY:-}" ] && bin="$TD/sync/release/check"
    # (JMV_ONLY_SUB=<name> restricts the run to one sub-check: a development aid, never used by MANIFEST commands)
    if [ -n "${JMV_ONLY_SUB:-}" ]; then exec "$bin" "$cmd" --tier "$tier" --sub "$JMV_ONLY_SUB"; fi
    exec "$bin" "$cmd" --tier "$tier"
    ;;
  *)
    echo "usage: run.sh setup | <Cxx> quick|thorough | replay <file> | selftest" >&2
    exit 2
    ;;
esac
