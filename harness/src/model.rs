//! Own JSON value model, independent of `jmespath::Variable`.

use std::collections::BTreeMap;
use std::fmt::Write;
use std::sync::Arc as Rc;

use crate::refast::RefExpr;

#[derive(Clone, Debug)]
pub enum N {
    Int(i128),
    F(f64),
}

impl N {
    pub fn f(&self) -> f64 {
        match self {
            N::Int(i) => *i as f64,
            N::F(f) => *f,
        }
    }
    /// Exact comparison of numeric value (ints exactly, otherwise as doubles).
    pub fn same_value(&self, o: &N) -> bool {
        match (self, o) {
            (N::Int(a), N::Int(b)) => a == b,
            _ => self.f() == o.f(),
        }
    }
}

#[derive(Clone, Debug)]
pub enum J {
    Null,
    Bool(bool),
    Num(N),
    Str(String),
    Arr(Vec<J>),
    Obj(BTreeMap<String, J>),
    /// An expression reference (only as function argument / don't-care result).
    Expref(Option<Rc<RefExpr>>),
}

impl J {
    pub fn int(i: i64) -> J {
        J::Num(N::Int(i as i128))
    }
    pub fn f(x: f64) -> J {
        J::Num(N::F(x))
    }
    pub fn s(x: &str) -> J {
        J::Str(x.to_string())
    }
    pub fn type_name(&self) -> &'static str {
        match self {
            J::Null => "null",
            J::Bool(_) => "boolean",
            J::Num(_) => "number",
            J::Str(_) => "string",
            J::Arr(_) => "array",
            J::Obj(_) => "object",
            J::Expref(_) => "expref",
        }
    }
    pub fn is_null(&self) -> bool {
        matches!(self, J::Null)
    }
    pub fn truthy(&self) -> bool {
        match self {
            J::Null => false,
            J::Bool(b) => *b,
            J::Num(_) => true,
            J::Str(s) => !s.is_empty(),
            J::Arr(a) => !a.is_empty(),
            J::Obj(o) => !o.is_empty(),
            J::Expref(_) => false,
        }
    }
    pub fn as_arr(&self) -> Option<&Vec<J>> {
        if let J::Arr(a) = self {
            Some(a)
        } else {
            None
        }
    }
    pub fn as_str(&self) -> Option<&str> {
        if let J::Str(a) = self {
            Some(a)
        } else {
            None
        }
    }
    pub fn as_num(&self) -> Option<f64> {
        if let J::Num(a) = self {
            Some(a.f())
        } else {
            None
        }
    }
    pub fn contains_expref(&self) -> bool {
        match self {
            J::Expref(_) => true,
            J::Arr(a) => a.iter().any(|x| x.contains_expref()),
            J::Obj(o) => o.values().any(|x| x.contains_expref()),
            _ => false,
        }
    }
    pub fn node_count(&self) -> usize {
        match self {
            J::Arr(a) => 1 + a.iter().map(|x| x.node_count()).sum::<usize>(),
            J::Obj(o) => 1 + o.values().map(|x| x.node_count()).sum::<usize>(),
            _ => 1,
        }
    }
    pub fn depth(&self) -> usize {
        match self {
            J::Arr(a) => 1 + a.iter().map(|x| x.depth()).max().unwrap_or(0),
            J::Obj(o) => 1 + o.values().map(|x| x.depth()).max().unwrap_or(0),
            _ => 1,
        }
    }

    /// Deep equality, numbers by numeric value (1 == 1.0), exprefs never equal
    /// to anything but another expref (don't-care).
    pub fn deep_eq(&self, o: &J) -> bool {
        match (self, o) {
            (J::Null, J::Null) => true,
            (J::Bool(a), J::Bool(b)) => a == b,
            (J::Num(a), J::Num(b)) => a.same_value(b),
            (J::Str(a), J::Str(b)) => a == b,
            (J::Arr(a), J::Arr(b)) => a.len() == b.len() && a.iter().zip(b).all(|(x, y)| x.deep_eq(y)),
            (J::Obj(a), J::Obj(b)) => {
                a.len() == b.len()
                    && a.iter()
                        .zip(b.iter())
                        .all(|((k1, v1), (k2, v2))| k1 == k2 && v1.deep_eq(v2))
            }
            (J::Expref(_), J::Expref(_)) => true,
            _ => false,
        }
    }

    /// Equality with a relative tolerance on numbers (for sums and averages).
    pub fn approx_eq(&self, o: &J, rel: f64) -> bool {
        match (self, o) {
            // two integers are compared exactly (neighbouring integers beyond 2^53 are one double)
            (J::Num(N::Int(a)), J::Num(N::Int(b))) => a == b,
            (J::Num(a), J::Num(b)) => {
                let (x, y) = (a.f(), b.f());
                x == y || (x - y).abs() <= rel * x.abs().max(y.abs())
            }
            (J::Arr(a), J::Arr(b)) => a.len() == b.len() && a.iter().zip(b).all(|(x, y)| x.approx_eq(y, rel)),
            (J::Obj(a), J::Obj(b)) => {
                a.len() == b.len()
                    && a.iter()
                        .zip(b.iter())
                        .all(|((k1, v1), (k2, v2))| k1 == k2 && v1.approx_eq(v2, rel))
            }
            _ => self.deep_eq(o),
        }
    }

    /// Bit-exact equality: ints exactly and only equal to ints, doubles bit-wise.
    pub fn exact_eq(&self, o: &J) -> bool {
        match (self, o) {
            (J::Num(N::Int(a)), J::Num(N::Int(b))) => a == b,
            (J::Num(N::F(a)), J::Num(N::F(b))) => a.to_bits() == b.to_bits(),
            (J::Num(_), J::Num(_)) => false,
            (J::Arr(a), J::Arr(b)) => a.len() == b.len() && a.iter().zip(b).all(|(x, y)| x.exact_eq(y)),
            (J::Obj(a), J::Obj(b)) => {
                a.len() == b.len()
                    && a.iter()
                        .zip(b.iter())
                        .all(|((k1, v1), (k2, v2))| k1 == k2 && v1.exact_eq(v2))
            }
            _ => self.deep_eq(o),
        }
    }

    /// Canonical JSON text (compact).  Doubles use Rust's shortest round-trip
    /// formatting, which is valid JSON for finite values.
    pub fn to_json(&self) -> String {
        let mut s = String::new();
        self.write_json(&mut s);
        s
    }

    pub fn write_json(&self, out: &mut String) {
        match self {
            J::Null => out.push_str("null"),
            J::Bool(b) => out.push_str(if *b { "true" } else { "false" }),
            J::Num(N::Int(i)) => {
                let _ = write!(out, "{}", i);
            }
            J::Num(N::F(f)) => write_f64(*f, out),
            J::Str(s) => write_json_string(s, out),
            J::Arr(a) => {
                out.push('[');
                for (i, x) in a.iter().enumerate() {
                    if i > 0 {
                        out.push(',');
                    }
                    x.write_json(out);
                }
                out.push(']');
            }
            J::Obj(o) => {
                out.push('{');
                for (i, (k, v)) in o.iter().enumerate() {
                    if i > 0 {
                        out.push(',');
                    }
                    write_json_string(k, out);
                    out.push(':');
                    v.write_json(out);
                }
                out.push('}');
            }
            J::Expref(_) => out.push_str("\"<expref>\""),
        }
    }

    pub fn from_value(v: &serde_json::Value) -> J {
        use serde_json::Value as V;
        match v {
            V::Null => J::Null,
            V::Bool(b) => J::Bool(*b),
            V::Number(n) => J::Num(num_from_serde(n)),
            V::String(s) => J::Str(s.clone()),
            V::Array(a) => J::Arr(a.iter().map(J::from_value).collect()),
            V::Object(o) => J::Obj(o.iter().map(|(k, v)| (k.clone(), J::from_value(v))).collect()),
        }
    }

    pub fn parse(text: &str) -> Result<J, String> {
        serde_json::from_str::<serde_json::Value>(text)
            .map(|v| J::from_value(&v))
            .map_err(|e| e.to_string())
    }

    pub fn to_value(&self) -> serde_json::Value {
        serde_json::from_str(&self.to_json()).unwrap_or(serde_json::Value::Null)
    }
}

pub fn num_from_serde(n: &serde_json::Number) -> N {
    if let Some(i) = n.as_i64() {
        N::Int(i as i128)
    } else if let Some(u) = n.as_u64() {
        N::Int(u as i128)
    } else {
        N::F(n.as_f64().unwrap_or(f64::NAN))
    }
}

pub fn write_f64(f: f64, out: &mut String) {
    if !f.is_finite() {
        out.push_str("null");
        return;
    }
    let s = format!("{:?}", f);
    out.push_str(&s);
}

pub fn write_json_string(s: &str, out: &mut String) {
    out.push('"');
    for c in s.chars() {
        match c {
            '"' => out.push_str("\\\""),
            '\\' => out.push_str("\\\\"),
            '\n' => out.push_str("\\n"),
            '\r' => out.push_str("\\r"),
            '\t' => out.push_str("\\t"),
            '\u{08}' => out.push_str("\\b"),
            '\u{0c}' => out.push_str("\\f"),
            c if (c as u32) < 0x20 => {
                let _ = write!(out, "\\u{:04x}", c as u32);
            }
            c => out.push(c),
        }
    }
    out.push('"');
}

pub fn json_string(s: &str) -> String {
    let mut o = String::new();
    write_json_string(s, &mut o);
    o
}
