//! Driver: proptest runners over byte-vector choice sequences, statistics,
//! evidence / replay writers and the known-findings matcher.

use std::collections::{BTreeMap, HashSet};
use std::path::{Path, PathBuf};
use std::sync::atomic::{AtomicBool, Ordering};
use std::sync::{Arc, Mutex};
use std::time::Instant;

use proptest::collection::vec;
use proptest::prelude::any;
use proptest::test_runner::{Config, RngSeed, TestCaseError, TestError, TestRunner};
use serde_json::{json, Value};

use crate::src::{fnv, mix3, Src};

/// Wall-clock budget for proptest's shrinking of one failure (seconds).
pub const SHRINK_BUDGET_S: u64 = 90;

pub const STACK: usize = 1 << 30;
/// A generated case normally takes microseconds; one that runs this long stops the run as inconclusive (exit 2).
pub const CASE_TIME_LIMIT_S: u64 = 60;

#[derive(Clone, Debug)]
pub struct Failure {
    pub sub: String,
    /// Specific signature of what failed (used to match known findings).
    pub sig: String,
    pub message: String,
    /// Human-readable minimal case.
    pub case: Value,
    /// When set, the replay unit is this input of the named *case* sub-check
    /// instead of the byte vector that produced the failure.
    pub replay_override: Option<(String, Value)>,
}

impl Failure {
    pub fn new(sub: &str, sig: &str, message: String, case: Value) -> Failure {
        Failure { sub: sub.to_string(), sig: sig.to_string(), message, case, replay_override: None }
    }
}

pub type CaseResult = Result<(), Failure>;

#[derive(Clone, Copy, PartialEq, Eq, Debug)]
pub enum Tier {
    Quick,
    Thorough,
}

impl Tier {
    pub fn name(self) -> &'static str {
        match self {
            Tier::Quick => "quick",
            Tier::Thorough => "thorough",
        }
    }
}

#[derive(Default, Clone)]
pub struct Stats {
    pub evaluations: u64,
    pub nontrivial: HashSet<u64>,
    pub classes: BTreeMap<String, u64>,
    pub samples: Vec<Value>,
    pub sample_budget: usize,
    pub excluded_known: BTreeMap<String, u64>,
    pub discards: u64,
    pub frozen: bool,
}

impl Stats {
    pub fn new() -> Stats {
        Stats { sample_budget: 6, ..Default::default() }
    }
    #[inline]
    pub fn eval(&mut self) {
        if !self.frozen {
            self.evaluations += 1;
        }
    }
    #[inline]
    pub fn evals(&mut self, n: u64) {
        if !self.frozen {
            self.evaluations += n;
        }
    }
    /// Record a non-trivial case by a hash of its content.  Returns true when
    /// it was new.
    pub fn nontrivial(&mut self, key: &str) -> bool {
        if self.frozen {
            return false;
        }
        self.nontrivial.insert(fnv(key.as_bytes()))
    }
    pub fn nontrivial_hash(&mut self, h: u64) -> bool {
        if self.frozen {
            return false;
        }
        self.nontrivial.insert(h)
    }
    pub fn class(&mut self, name: &str) {
        if !self.frozen {
            *self.classes.entry(name.to_string()).or_insert(0) += 1;
        }
    }
    pub fn class_n(&mut self, name: &str, n: u64) {
        if !self.frozen {
            *self.classes.entry(name.to_string()).or_insert(0) += n;
        }
    }
    pub fn discard(&mut self) {
        if !self.frozen {
            self.discards += 1;
        }
    }
    /// Keep a sample: the first few, then every 2^k-th.
    pub fn sample(&mut self, mk: impl FnOnce() -> Value) {
        if self.frozen {
            return;
        }
        let n = self.nontrivial.len() as u64;
        if self.samples.len() < self.sample_budget || (n.is_power_of_two() && n >= 64 && self.samples.len() < self.sample_budget + 10) {
            self.samples.push(mk());
        }
    }
    pub fn merge(&mut self, o: Stats) {
        self.evaluations += o.evaluations;
        self.nontrivial.extend(o.nontrivial);
        for (k, v) in o.classes {
            *self.classes.entry(k).or_insert(0) += v;
        }
        for (k, v) in o.excluded_known {
            *self.excluded_known.entry(k).or_insert(0) += v;
        }
        self.discards += o.discards;
        for s in o.samples {
            if self.samples.len() < 24 {
                self.samples.push(s);
            }
        }
    }
}

#[derive(Clone, Debug)]
pub struct KnownFinding {
    pub property: String,
    pub key: String,
    pub status: String,
    pub what: String,
    pub example: Value,
    pub commit: Option<String>,
}

/// Where evidence files and new replay files are written: /verif, unless
/// JMV_OUT_DIR redirects them (runs against scratch copies with seeded
/// changes must not overwrite the evidence of the real tree).
pub fn out_dir() -> PathBuf {
    std::env::var("JMV_OUT_DIR").map(PathBuf::from).unwrap_or_else(|_| verif_dir())
}

pub fn verif_dir() -> PathBuf {
    std::env::var("VERIF_DIR").map(PathBuf::from).unwrap_or_else(|_| PathBuf::from("/verif"))
}

pub fn load_known() -> Vec<KnownFinding> {
    let p = verif_dir().join("known_findings.json");
    let txt = match std::fs::read_to_string(&p) {
        Ok(t) => t,
        Err(_) => return vec![],
    };
    let v: Value = serde_json::from_str(&txt).expect("known_findings.json must be valid JSON");
    let mut out = vec![];
    for e in v["findings"].as_array().cloned().unwrap_or_default() {
        out.push(KnownFinding {
            property: e["property"].as_str().unwrap_or("").to_string(),
            key: e["key"].as_str().unwrap_or("").to_string(),
            status: e["status"].as_str().unwrap_or("").to_string(),
            what: e["what"].as_str().unwrap_or("").to_string(),
            example: e["example"].clone(),
            commit: e["commit"].as_str().map(|s| s.to_string()),
        });
    }
    out
}

/// Shared, read-only environment of one check run.
pub struct Env {
    pub property: &'static str,
    pub tier: Tier,
    pub seed: u64,
    /// signatures of findings listed as `known` for this property
    pub known: HashSet<String>,
    /// strict = replay mode: known findings are reported as failures too
    pub strict: bool,
}

impl Env {
    pub fn is_known(&self, sig: &str) -> bool {
        !self.strict && self.known.contains(sig)
    }
}

pub type BytesFn = fn(&mut Src, &mut Stats, &Env) -> CaseResult;

#[derive(Clone, Copy)]
pub struct Budget {
    pub threads: usize,
    pub cases: u32,
}

pub struct BytesSub {
    pub name: &'static str,
    pub f: BytesFn,
    pub max_len: usize,
    pub quick: Budget,
    pub thorough: Budget,
    /// The outcome of a case may depend on a schedule or on state left by
    /// earlier cases (that dependence is what the property forbids): a failure
    /// that does not reproduce when its input is re-executed is then reported
    /// as observed instead of being treated as a harness problem.
    pub keep_unreproducible: bool,
}

/// Optional case-level minimiser of a property: given the failure found by a
/// byte-driven sub-check, return a smaller equivalent failure together with
/// the replay input of a *case* sub-check (explicit expression/document).
pub type MinimiseFn = fn(&Failure, &Env) -> Option<(Failure, Value)>;

pub type CustomFn = fn(&Env, &mut Stats) -> Vec<Failure>;
pub type CaseReplayFn = fn(&Value, &Env) -> CaseResult;

pub struct CustomSub {
    pub name: &'static str,
    pub run: CustomFn,
    pub replay: CaseReplayFn,
}

pub enum Sub {
    Bytes(BytesSub),
    Custom(CustomSub),
}

impl Sub {
    pub fn name(&self) -> &'static str {
        match self {
            Sub::Bytes(b) => b.name,
            Sub::Custom(c) => c.name,
        }
    }
}

pub struct Property {
    pub id: &'static str,
    pub rule: &'static str,
    pub assumptions: Vec<String>,
    pub subs: Vec<Sub>,
    pub minimise: Option<MinimiseFn>,
}

// ---------------------------------------------------------------------------
// Panic capture
// ---------------------------------------------------------------------------

thread_local! {
    static LAST_PANIC: std::cell::RefCell<Option<String>> = std::cell::RefCell::new(None);
}

pub fn install_panic_hook() {
    std::panic::set_hook(Box::new(|info| {
        let loc = info.location().map(|l| format!("{}:{}", l.file(), l.line())).unwrap_or_default();
        let msg = if let Some(s) = info.payload().downcast_ref::<&str>() {
            s.to_string()
        } else if let Some(s) = info.payload().downcast_ref::<String>() {
            s.clone()
        } else {
            "<non-string panic>".to_string()
        };
        // a panic raised inside std / core on behalf of the library (an index, a slice, an
        // unwrap, encode_utf8 ...) has a location in the standard library: look at the call
        // stack to see whose code asked for it
        let mut origin = String::new();
        if !loc.contains("/jmespath/src/") && !loc.contains("jmespath-cli/src/") {
            let bt = std::backtrace::Backtrace::force_capture().to_string();
            if std::env::var("JMV_SHOW_BT").is_ok() {
                eprintln!("--- panic backtrace ---\n{}", bt);
            }
            // (skip the frames of the panic machinery and of this hook)
            let bt = match bt.find("rust_begin_unwind") {
                Some(k) => bt[k..].to_string(),
                None => bt,
            };
            let lib = bt.find(" jmespath::").or_else(|| bt.find("<jmespath::"));
            let own = bt.find(" jmv::").or_else(|| bt.find("<jmv::")).or_else(|| bt.find(" check::"));
            if let Some(i) = lib {
                if own.map(|j| i < j).unwrap_or(true) {
                    let frame: String = bt[i..].lines().next().unwrap_or("").trim().chars().take(160).collect();
                    origin = format!(" [raised under the library frame {}]", frame);
                }
            }
        }
        LAST_PANIC.with(|p| *p.borrow_mut() = Some(format!("{} at {}{}", msg, loc, origin)));
    }));
}

/// Run implementation code, turning a panic into Err(description).
pub fn catch<F: FnOnce() -> T + std::panic::UnwindSafe, T>(f: F) -> Result<T, String> {
    match std::panic::catch_unwind(f) {
        Ok(v) => Ok(v),
        Err(_) => Err(LAST_PANIC.with(|p| p.borrow_mut().take()).unwrap_or_else(|| "panic".to_string())),
    }
}

// ---------------------------------------------------------------------------
// Running
// ---------------------------------------------------------------------------

/// Delta-debugging style minimisation of a failing choice sequence:
/// remove chunks (halving sizes), then zero and halve single bytes.
pub fn ddmin(mut bytes: Vec<u8>, fails: &dyn Fn(&[u8]) -> bool) -> Vec<u8> {
    let mut budget = 20_000usize;
    let deadline = Instant::now() + std::time::Duration::from_secs(SHRINK_BUDGET_S);
    // trailing bytes are equivalent to zeros
    loop {
        let mut progress = false;
        let mut chunk = (bytes.len() / 2).max(1);
        while chunk >= 1 && !bytes.is_empty() {
            let mut i = 0;
            while i < bytes.len() {
                if budget == 0 || Instant::now() > deadline {
                    return bytes;
                }
                budget -= 1;
                let end = (i + chunk).min(bytes.len());
                let mut cand = Vec::with_capacity(bytes.len() - (end - i));
                cand.extend_from_slice(&bytes[..i]);
                cand.extend_from_slice(&bytes[end..]);
                if fails(&cand) {
                    bytes = cand;
                    progress = true;
                } else {
                    i += chunk;
                }
            }
            if chunk == 1 {
                break;
            }
            chunk /= 2;
        }
        for i in 0..bytes.len() {
            if bytes[i] == 0 {
                continue;
            }
            for cand_v in [0u8, bytes[i] / 2, bytes[i] - 1] {
                if cand_v >= bytes[i] {
                    continue;
                }
                if budget == 0 || Instant::now() > deadline {
                    return bytes;
                }
                budget -= 1;
                let old = bytes[i];
                bytes[i] = cand_v;
                if fails(&bytes) {
                    progress = true;
                    break;
                }
                bytes[i] = old;
            }
        }
        while bytes.last() == Some(&0) {
            bytes.pop();
        }
        if !progress {
            return bytes;
        }
    }
}

/// How many preceding cases of a runner thread are kept for the history confirmation
/// (state that builds up slowly -- a counter that leaks, a table that fills -- needs a long run-up).
const HISTORY_DEPTH: usize = 4096;

/// Run `seq` (byte-vector cases) one after the other on a fresh thread; the outcome of the last one.
fn run_sequence_fresh(f: fn(&mut Src, &mut Stats, &Env) -> CaseResult, env: &Env, seq: &[Vec<u8>]) -> Result<CaseResult, String> {
    let env2 = Env { property: env.property, tier: env.tier, seed: env.seed, known: env.known.clone(), strict: env.strict };
    let seq: Vec<Vec<u8>> = seq.to_vec();
    let h = std::thread::Builder::new().stack_size(STACK).spawn(move || {
        let mut last: Result<CaseResult, String> = Ok(Ok(()));
        for b in &seq {
            let mut scratch = Stats::new();
            scratch.frozen = true;
            let mut src = Src::new(b);
            last = catch(std::panic::AssertUnwindSafe(|| f(&mut src, &mut scratch, &env2)));
        }
        last
    });
    match h {
        Ok(h) => h.join().unwrap_or_else(|_| Err("the sequence thread died".to_string())),
        Err(e) => Err(format!("spawn failed: {}", e)),
    }
}

/// The failing case `last` did not fail when run alone.  Try it after the cases that preceded
/// it (fresh thread each attempt), then drop as many predecessors as possible and shrink the
/// remaining ones.  Some((sequence, failure)) if the failure (same signature) shows again.
fn confirm_with_history(f: fn(&mut Src, &mut Stats, &Env) -> CaseResult, sub_name: &str, env: &Env, before: &[Vec<u8>], last: &[u8], sig: &str) -> Option<(Vec<Vec<u8>>, Failure)> {
    let fails = |seq: &[Vec<u8>]| -> Option<Failure> {
        match run_sequence_fresh(f, env, seq) {
            Ok(Err(fl)) if fl.sig == sig && !env.is_known(&fl.sig) => Some(fl),
            Err(p) if sig == "panic" && panic_is_in_library(&p) => Some(Failure::new(sub_name, "panic", format!("the library panicked: {}", p), json!({}))),
            _ => None,
        }
    };
    if before.is_empty() {
        return None;
    }
    // the shortest of a few suffix lengths of the history after which the case fails again
    let mut seq: Vec<Vec<u8>> = vec![];
    let mut found = false;
    for k in [6usize, 64, 512, HISTORY_DEPTH] {
        let k = k.min(before.len());
        seq = before[before.len() - k..].to_vec();
        seq.push(last.to_vec());
        if fails(&seq).is_some() {
            found = true;
            break;
        }
        if k == before.len() {
            break;
        }
    }
    if !found {
        return None;
    }
    // a long run-up: halve it from the front while the failure stays
    while seq.len() > 17 {
        let cut = (seq.len() - 1) / 2;
        let shorter: Vec<Vec<u8>> = seq[cut..].to_vec();
        if fails(&shorter).is_some() {
            seq = shorter;
        } else {
            break;
        }
    }
    if seq.len() > 17 {
        // too long to minimise member by member within the budget: the sequence is the replay
        let fl = fails(&seq)?;
        return Some((seq, fl));
    }
    // (must not fail alone on a fresh thread either: otherwise it is an ordinary failure)
    let deadline = Instant::now() + std::time::Duration::from_secs(SHRINK_BUDGET_S);
    // drop predecessors, oldest first
    let mut i = 0;
    while i + 1 < seq.len() && Instant::now() < deadline {
        let mut shorter = seq.clone();
        shorter.remove(i);
        if shorter.len() >= 2 && fails(&shorter).is_some() {
            seq = shorter;
        } else {
            i += 1;
        }
    }
    // shrink every remaining element with the others fixed
    for k in 0..seq.len() {
        if Instant::now() > deadline {
            break;
        }
        let fixed = seq.clone();
        let shrunk = ddmin(seq[k].clone(), &|b: &[u8]| {
            let mut cand = fixed.clone();
            cand[k] = b.to_vec();
            fails(&cand).is_some()
        });
        seq[k] = shrunk;
    }
    let fl = fails(&seq)?;
    Some((seq, fl))
}

pub struct SubOutcome {
    pub stats: Stats,
    pub failure: Option<(Failure, Value)>, // failure + replay input
}

fn run_bytes_sub(env: &Arc<Env>, sub: &BytesSub) -> SubOutcome {
    let budget = match env.tier {
        Tier::Quick => sub.quick,
        Tier::Thorough => sub.thorough,
    };
    let stop = Arc::new(AtomicBool::new(false));
    let results: Arc<Mutex<Vec<(usize, Stats, Option<(Failure, Vec<u8>)>)>>> = Arc::new(Mutex::new(vec![]));
    // watchdog: what each runner is executing right now and since when
    let slots: Arc<Vec<Mutex<Option<(Instant, Vec<u8>)>>>> = Arc::new((0..budget.threads).map(|_| Mutex::new(None)).collect());
    let done = Arc::new(AtomicBool::new(false));
    {
        let (slots, done, prop, subname) = (slots.clone(), done.clone(), env.property, sub.name);
        std::thread::spawn(move || {
            while !done.load(Ordering::Relaxed) {
                std::thread::sleep(std::time::Duration::from_millis(500));
                for s in slots.iter() {
                    let stuck = match &*s.lock().unwrap() {
                        Some((t, bytes)) if t.elapsed().as_secs() >= CASE_TIME_LIMIT_S => Some(bytes.clone()),
                        _ => None,
                    };
                    if let Some(bytes) = stuck {
                        let fl = Failure::new(subname, "time-limit", format!("one case ran longer than {} s", CASE_TIME_LIMIT_S), json!({}));
                        let path = save_replay(prop, &fl, &json!({"kind": "bytes", "bytes": bytes}), 0);
                        eprintln!("INCONCLUSIVE property={} sub={}: a single case exceeded {} s (saved as {}); exit 2, not a violation", prop, subname, CASE_TIME_LIMIT_S, path.display());
                        std::process::exit(2);
                    }
                }
            }
        });
    }
    let mut handles = vec![];
    let subhash = fnv(format!("{}/{}", env.property, sub.name).as_bytes());
    for t in 0..budget.threads {
        let env = env.clone();
        let stop = stop.clone();
        let results = results.clone();
        let slots = slots.clone();
        let f = sub.f;
        let keep_unreproducible = sub.keep_unreproducible;
        let max_len = sub.max_len;
        let cases = budget.cases;
        let name = sub.name;
        let h = std::thread::Builder::new()
            .stack_size(STACK)
            .spawn(move || {
                let seed = mix3(env.seed, subhash, t as u64);
                let cfg = Config {
                    cases,
                    failure_persistence: None,
                    rng_seed: RngSeed::Fixed(seed),
                    max_shrink_iters: 30_000,
                    max_global_rejects: u32::MAX,
                    max_local_rejects: u32::MAX,
                    ..Config::default()
                };
                let mut runner = TestRunner::new(cfg);
                let stats = std::cell::RefCell::new(Stats::new());
                let failed_here = std::cell::Cell::new(false);
                let shrink_started: std::cell::Cell<Option<Instant>> = std::cell::Cell::new(None);
                let first_seen: std::cell::RefCell<Option<(Failure, Vec<u8>)>> = std::cell::RefCell::new(None);
                // the cases that ran on this thread just before the first failing one
                let recent: std::cell::RefCell<std::collections::VecDeque<Vec<u8>>> = std::cell::RefCell::new(Default::default());
                let keep_unrepro = keep_unreproducible;
                let strat = vec(any::<u8>(), 0..=max_len);
                let res = runner.run(&strat, |bytes| {
                    // another runner already found something: stop generating, but
                    // never disturb a shrink that is in progress in this runner
                    if !failed_here.get() && stop.load(Ordering::Relaxed) {
                        return Ok(());
                    }
                    // shrinking has a time budget: a failure that shows only now and then
                    // (schedule, random iteration order) would otherwise be re-tried for hours
                    if let Some(t0) = shrink_started.get() {
                        if t0.elapsed().as_secs() > SHRINK_BUDGET_S {
                            return Ok(());
                        }
                    }
                    let mut st = stats.borrow_mut();
                    let mut src = Src::new(&bytes);
                    *slots[t].lock().unwrap() = Some((Instant::now(), bytes.clone()));
                    let r = catch(std::panic::AssertUnwindSafe(|| f(&mut src, &mut st, &env)));
                    *slots[t].lock().unwrap() = None;
                    if !failed_here.get() && matches!(r, Ok(Ok(()))) {
                        let mut q = recent.borrow_mut();
                        q.push_back(bytes.clone());
                        if q.len() > HISTORY_DEPTH {
                            q.pop_front();
                        }
                    }
                    match r {
                        Ok(Ok(())) => Ok(()),
                        Ok(Err(fail)) => {
                            if env.is_known(&fail.sig) {
                                *st.excluded_known.entry(fail.sig.clone()).or_insert(0) += 1;
                                Ok(())
                            } else {
                                st.frozen = true;
                                failed_here.set(true);
                                if shrink_started.get().is_none() {
                                    shrink_started.set(Some(Instant::now()));
                                }
                                if first_seen.borrow().is_none() {
                                    *first_seen.borrow_mut() = Some((fail.clone(), bytes.clone()));
                                }
                                Err(TestCaseError::fail(fail.sig))
                            }
                        }
                        Err(p) => {
                            st.frozen = true;
                            failed_here.set(true);
                            if shrink_started.get().is_none() {
                                shrink_started.set(Some(Instant::now()));
                            }
                            // a panic raised inside the library under test is a finding, not a harness problem
                            if panic_is_in_library(&p) {
                                if first_seen.borrow().is_none() {
                                    *first_seen.borrow_mut() = Some((Failure::new(name, "panic", p.clone(), json!({})), bytes.clone()));
                                }
                                Err(TestCaseError::fail("panic".to_string()))
                            } else {
                                Err(TestCaseError::fail(format!("harness-panic: {}", p)))
                            }
                        }
                    }
                });
                let mut st = stats.into_inner();
                st.frozen = false;
                let failure = match res {
                    Ok(()) => None,
                    Err(TestError::Fail(reason, bytes)) => {
                        stop.store(true, Ordering::Relaxed);
                        // second, structural pass: delete chunks / zero bytes while the
                        // same signature keeps failing
                        let sig = reason.message().to_string();
                        let bytes = ddmin(bytes, &|b: &[u8]| {
                            let mut scratch = Stats::new();
                            scratch.frozen = true;
                            let mut src = Src::new(b);
                            match catch(std::panic::AssertUnwindSafe(|| f(&mut src, &mut scratch, &env))) {
                                Ok(Err(fl)) => fl.sig == sig && !env.is_known(&fl.sig),
                                Err(p) => sig == "panic" && panic_is_in_library(&p),
                                _ => false,
                            }
                        });
                        // Re-run the minimal input to obtain the details.
                        let mut scratch = Stats::new();
                        let strict_env = Env { property: env.property, tier: env.tier, seed: env.seed, known: env.known.clone(), strict: false };
                        // (on a fresh thread: the runner thread may carry state that earlier cases left in
                        // the library, and a replay file must reproduce from a fresh process)
                        let _ = (&mut scratch, &strict_env);
                        let r = run_sequence_fresh(f, &strict_env, &[bytes.clone()]);
                        let fail = match r {
                            Ok(Err(fl)) => fl,
                            Ok(Ok(())) => {
                                // Not reproducible alone.  Does it fail again when the cases that
                                // preceded it on this thread run first (on a fresh thread)?  Then the
                                // library kept state from an earlier call: the sequence is the replay.
                                let (fl0, b0) = first_seen.borrow().clone().unwrap();
                                let before: Vec<Vec<u8>> = recent.borrow().iter().cloned().collect();
                                if let Some((seq, fl)) = confirm_with_history(f, name, &env, &before, &b0, &fl0.sig) {
                                    let mut fl = fl;
                                    fl.message = format!("{} [fails only after {} preceding case(s) ran on the same thread: state left behind by an earlier call; the replay runs the whole sequence on a fresh thread]", fl.message, seq.len() - 1);
                                    fl.case["preceded_by_cases"] = json!(seq.len() - 1);
                                    fl.replay_override = Some((name.to_string(), json!({"kind": "sequence", "sequence": seq})));
                                    results.lock().unwrap().push((t, st.clone(), Some((fl, b0))));
                                    return;
                                }
                                if keep_unrepro {
                                    // report what was observed, with the input that showed it
                                    let (mut fl, b0) = first_seen.borrow().clone().unwrap();
                                    fl.message = format!("{} [observed during the run; re-executing the shrunk input alone did not reproduce it, so the outcome depends on the schedule or on state left by earlier cases]", fl.message);
                                    let ov = fl.replay_override.clone();
                                    results.lock().unwrap().push((t, st.clone(), Some((Failure { replay_override: ov, ..fl }, b0))));
                                    return;
                                }
                                Failure::new(name, "flaky", "failure did not reproduce on the minimal input".into(), json!({}))
                            }
                            Err(p) => {
                                if panic_is_in_library(&p) {
                                    Failure::new(name, "panic", format!("the library panicked: {}", p), json!({}))
                                } else {
                                    Failure::new(name, "harness-panic", p, json!({}))
                                }
                            }
                        };
                        Some((fail, bytes))
                    }
                    Err(TestError::Abort(r)) => Some((Failure::new(name, "harness-abort", format!("{}", r), json!({})), vec![])),
                };
                results.lock().unwrap().push((t, st, failure));
            })
            .expect("spawn");
        handles.push(h);
    }
    for h in handles {
        let _ = h.join();
    }
    done.store(true, Ordering::Relaxed);
    let mut all = std::mem::take(&mut *results.lock().unwrap());
    all.sort_by_key(|x| x.0);
    let mut stats = Stats::new();
    let mut failure = None;
    for (_, st, f) in all {
        stats.merge(st);
        if failure.is_none() {
            if let Some((fl, bytes)) = f {
                let input = match &fl.replay_override {
                    Some((_, input)) => input.clone(),
                    None => json!({"kind": "bytes", "bytes": bytes}),
                };
                failure = Some((fl, input));
            }
        }
    }
    SubOutcome { stats, failure }
}

fn run_custom_sub(env: &Arc<Env>, sub: &CustomSub) -> SubOutcome {
    let env2 = env.clone();
    let run = sub.run;
    let name = sub.name;
    let h = std::thread::Builder::new()
        .stack_size(STACK)
        .spawn(move || {
            let mut st = Stats::new();
            let r = catch(std::panic::AssertUnwindSafe(|| run(&env2, &mut st)));
            match r {
                Ok(fails) => (st, fails),
                Err(p) if panic_is_in_library(&p) => (st, vec![Failure::new(name, "panic", format!("the library panicked: {}", p), json!({}))]),
                Err(p) => (st, vec![Failure::new(name, "harness-panic", p, json!({}))]),
            }
        })
        .expect("spawn");
    let (mut stats, fails) = h.join().expect("custom sub thread");
    let mut failure = None;
    for f in fails {
        if env.is_known(&f.sig) {
            *stats.excluded_known.entry(f.sig.clone()).or_insert(0) += 1;
        } else if failure.is_none() {
            let case = f.case.clone();
            failure = Some((f, json!({"kind": "case", "case": case})));
        }
    }
    SubOutcome { stats, failure }
}

pub fn replay_input(p: &Property, sub_name: &str, input: &Value, env: &Env) -> Result<CaseResult, String> {
    let sub = p.subs.iter().find(|s| s.name() == sub_name).ok_or_else(|| format!("no sub-check {} in {}", sub_name, p.id))?;
    match sub {
        Sub::Bytes(b) if input["kind"] == "sequence" => {
            let seq: Vec<Vec<u8>> = input["sequence"]
                .as_array()
                .ok_or("replay input lacks a sequence")?
                .iter()
                .map(|c| c.as_array().map(|a| a.iter().map(|x| x.as_u64().unwrap_or(0) as u8).collect()).unwrap_or_default())
                .collect();
            run_sequence_fresh(b.f, env, &seq)
        }
        Sub::Bytes(b) => {
            let bytes: Vec<u8> = input["bytes"]
                .as_array()
                .ok_or("replay input lacks bytes")?
                .iter()
                .map(|x| x.as_u64().unwrap_or(0) as u8)
                .collect();
            let mut st = Stats::new();
            let mut src = Src::new(&bytes);
            let f = b.f;
            catch(std::panic::AssertUnwindSafe(|| f(&mut src, &mut st, env)))
        }
        Sub::Custom(c) => {
            let f = c.replay;
            catch(std::panic::AssertUnwindSafe(|| f(&input["case"], env)))
        }
    }
}

pub struct CheckResult {
    pub exit: i32,
}

fn write_json(path: &Path, v: &Value) {
    if let Some(d) = path.parent() {
        let _ = std::fs::create_dir_all(d);
    }
    std::fs::write(path, serde_json::to_string_pretty(v).unwrap() + "\n").expect("write json");
}

pub fn make_env(p: &Property, tier: Tier, seed: u64, strict: bool) -> Env {
    let known: HashSet<String> =
        load_known().into_iter().filter(|k| k.property == p.id && k.status == "known").map(|k| k.key).collect();
    Env { property: p.id, tier, seed, known, strict }
}

/// Run one property check end to end: regress replays, known-finding
/// reproduction, all sub-checks; write evidence; print the verdict lines.
pub fn run_property(p: &Property, tier: Tier, seed: u64, only_sub: Option<&str>) -> i32 {
    install_panic_hook();
    let t0 = Instant::now();
    let env = Arc::new(make_env(p, tier, seed, false));
    let strict = make_env(p, tier, seed, true);
    let mut total = Stats::new();
    total.sample_budget = 24;
    let mut violations: Vec<(Failure, PathBuf)> = vec![];
    let mut known_lines: Vec<String> = vec![];
    let mut notes: Vec<String> = vec![];
    let mut per_sub = serde_json::Map::new();

    // 1. permanent regress replays
    let regress_dir = verif_dir().join("replays/regress");
    let mut regress_run = 0;
    if let Ok(rd) = std::fs::read_dir(&regress_dir) {
        let mut files: Vec<PathBuf> = rd.filter_map(|e| e.ok()).map(|e| e.path()).filter(|p| p.extension().map(|x| x == "json").unwrap_or(false)).collect();
        files.sort();
        for f in files {
            let v: Value = match std::fs::read_to_string(&f).ok().and_then(|t| serde_json::from_str(&t).ok()) {
                Some(v) => v,
                None => continue,
            };
            if v["property"].as_str() != Some(p.id) {
                continue;
            }
            let sub = v["sub"].as_str().unwrap_or("");
            if only_sub.map(|o| o != sub).unwrap_or(false) {
                continue;
            }
            regress_run += 1;
            match replay_input(p, sub, &v["input"], &env) {
                Ok(Ok(())) => {}
                Ok(Err(fl)) => {
                    if env.is_known(&fl.sig) {
                        continue;
                    }
                    violations.push((fl, f.clone()));
                }
                Err(msg) => {
                    eprintln!("harness problem replaying {}: {}", f.display(), msg);
                    return 2;
                }
            }
        }
    }
    total.class_n("regress_replays", regress_run);

    // 2. known findings: reproduce the stored example of each
    for k in load_known().into_iter().filter(|k| k.property == p.id && k.status == "known") {
        let sub = k.example["sub"].as_str().unwrap_or("").to_string();
        match replay_input(p, &sub, &k.example["input"], &strict) {
            Ok(Err(fl)) if fl.sig == k.key => {
                known_lines.push(format!("KNOWN-FINDING: property={} {} [{}]", p.id, k.what, k.key));
            }
            Ok(Err(fl)) => {
                notes.push(format!("known finding {} reproduced with a different signature {}", k.key, fl.sig));
                let path = save_replay(p.id, &fl, &k.example["input"], seed);
                violations.push((fl, path));
            }
            Ok(Ok(())) => notes.push(format!("known finding {} did not reproduce on this tree", k.key)),
            Err(msg) => {
                eprintln!("harness problem replaying known finding {}: {}", k.key, msg);
                return 2;
            }
        }
    }

    // 3. the sub-checks
    let mut inconclusive = false;
    for sub in &p.subs {
        if only_sub.map(|o| o != sub.name()).unwrap_or(false) {
            continue;
        }
        let ts = Instant::now();
        let out = match sub {
            Sub::Bytes(b) => run_bytes_sub(&env, b),
            Sub::Custom(c) => run_custom_sub(&env, c),
        };
        per_sub.insert(
            sub.name().to_string(),
            json!({
                "evaluations": out.stats.evaluations,
                "distinct_nontrivial": out.stats.nontrivial.len(),
                "discards": out.stats.discards,
                "wall_s": ts.elapsed().as_secs_f64(),
            }),
        );
        // namespace the non-trivial hashes by sub-check so they stay distinct
        let mut st = out.stats;
        let salt = fnv(sub.name().as_bytes());
        st.nontrivial = st.nontrivial.into_iter().map(|h| h ^ salt).collect();
        total.merge(st);
        if let Some((fl, input)) = out.failure {
            if fl.sig.starts_with("harness-") || fl.sig == "flaky" {
                // inconclusive for this sub-check; reproducible violations of the other
                // sub-checks are still reported
                eprintln!("harness problem in {}/{}: {} {}", p.id, sub.name(), fl.sig, fl.message);
                notes.push(format!("sub-check {} was inconclusive: {} {}", sub.name(), fl.sig, fl.message));
                inconclusive = true;
                continue;
            }
            let path = save_replay(p.id, &fl, &input, seed);
            // a second, case-level minimisation (token / document level) where the property offers one
            let mut reported = (fl, path);
            if let Some(m) = p.minimise.filter(|_| input["kind"] != "sequence") {
                let strict_env = make_env(p, tier, seed, false);
                if let Ok(Some((small, small_input))) = catch(std::panic::AssertUnwindSafe(|| m(&reported.0, &strict_env))) {
                    let path2 = save_replay(p.id, &small, &small_input, seed);
                    reported = (small, path2);
                }
            }
            violations.push(reported);
        }
    }

    for (k, n) in total.excluded_known.clone() {
        notes.push(format!("{} generated cases hit known finding {} and were excluded", n, k));
    }
    write_evidence(p, tier, seed, &total, &per_sub, &known_lines, &notes, violations.len(), t0);
    for l in &known_lines {
        println!("{}", l);
    }
    if violations.is_empty() && inconclusive {
        println!("INCONCLUSIVE property={} tier={} seed={} (a sub-check could not reach a verdict; see the notes in the evidence file)", p.id, tier.name(), seed);
        return 2;
    }
    if violations.is_empty() {
        println!(
            "OK property={} tier={} seed={} evaluations={} distinct_nontrivial={} wall_s={:.1}",
            p.id,
            tier.name(),
            seed,
            total.evaluations,
            total.nontrivial.len(),
            t0.elapsed().as_secs_f64()
        );
        0
    } else {
        for (fl, path) in &violations {
            println!("VIOLATION property={} replay={}", p.id, path.display());
            println!("  sub={} sig={} :: {}", fl.sub, fl.sig, clip(&fl.message, 700));
            println!("  case={}", clip(&serde_json::to_string(&fl.case).unwrap_or_default(), 1200));
        }
        1
    }
}

/// Does a captured panic description point into the library under test?
pub fn panic_is_in_library(p: &str) -> bool {
    p.contains("/jmespath/src/") || p.contains("jmespath-cli/src/") || p.contains("[raised under the library frame")
}

pub fn clip(s: &str, n: usize) -> String {
    if s.chars().count() <= n {
        s.to_string()
    } else {
        let head: String = s.chars().take(n).collect();
        format!("{}... [{} chars, full text in the replay file]", head, s.chars().count())
    }
}

pub fn save_replay(prop: &str, fl: &Failure, input: &Value, seed: u64) -> PathBuf {
    let sub_for_replay = fl.replay_override.as_ref().map(|(s, _)| s.clone()).unwrap_or_else(|| fl.sub.clone());
    let dir = out_dir().join("replays/new");
    let _ = std::fs::create_dir_all(&dir);
    let h = fnv(format!("{}{}{}", fl.sub, fl.sig, input).as_bytes());
    let path = dir.join(format!("{}-{}-{:016x}.json", prop, fl.sub, h));
    write_json(
        &path,
        &json!({
            "property": prop,
            "sub": sub_for_replay,
            "found_by": fl.sub,
            "sig": fl.sig,
            "message": fl.message,
            "case": fl.case,
            "input": input,
            "seed": seed,
        }),
    );
    path
}

#[allow(clippy::too_many_arguments)]
fn write_evidence(
    p: &Property,
    tier: Tier,
    seed: u64,
    total: &Stats,
    per_sub: &serde_json::Map<String, Value>,
    known_lines: &[String],
    notes: &[String],
    violations: usize,
    t0: Instant,
) {
    let path = out_dir().join("evidence").join(format!("{}.json", p.id));
    let ev = json!({
        "property_id": p.id,
        "tier": tier.name(),
        "seed": seed,
        "level": "exploration",
        "coverage": {
            "evaluations": total.evaluations,
            "distinct_nontrivial": total.nontrivial.len(),
            "rule": p.rule,
            "samples": total.samples,
            "classes": total.classes,
            "discards": total.discards,
            "excluded_known_findings": total.excluded_known,
            "subchecks": per_sub,
            "known_findings_reported": known_lines,
            "notes": notes,
            "exhaustive": false,
        },
        "assumptions": p.assumptions,
        "wall_s": t0.elapsed().as_secs_f64(),
        "violations": violations,
    });
    write_json(&path, &ev);
}
