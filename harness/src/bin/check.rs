use jmv::runner::{self, Tier};

fn usage() -> ! {
    eprintln!("usage: check <Cxx> [--tier quick|thorough] [--sub name] | check replay <file> | check selftest");
    std::process::exit(2);
}

fn main() {
    let args: Vec<String> = std::env::args().skip(1).collect();
    if args.is_empty() {
        usage();
    }
    let seed: u64 = std::env::var("VERIF_SEED").ok().and_then(|s| s.parse().ok()).unwrap_or(1);
    match args[0].as_str() {
        "list" => {
            for p in jmv::props::all() {
                for sub in &p.subs {
                    match sub {
                        runner::Sub::Bytes(b) => println!("{}\t{}\tgenerated (proptest bytes <= {})\tquick {} x {}\tthorough {} x {}", p.id, b.name, b.max_len, b.quick.threads, b.quick.cases, b.thorough.threads, b.thorough.cases),
                        runner::Sub::Custom(c) => println!("{}\t{}\tenumerated / process-level\t-\t-", p.id, c.name),
                    }
                }
            }
            std::process::exit(0);
        }
        "selftest" => {
            let r = std::thread::Builder::new().stack_size(runner::STACK).spawn(jmv::selftest::run).unwrap().join().unwrap();
            for f in &r.failures {
                println!("SELFTEST-FAIL {}", f);
            }
            println!("selftest: {} compliance cases through the reference model, {} failures", r.total, r.failures.len());
            std::process::exit(if r.failures.is_empty() { 0 } else { 2 });
        }
        "c05-child" => {
            let depth: usize = args.get(2).and_then(|s| s.parse().ok()).unwrap_or(16);
            let doc: usize = args.get(3).and_then(|s| s.parse().ok()).unwrap_or(0);
            jmv::props::c05::child_main(args.get(1).map(|s| s.as_str()).unwrap_or("not"), depth, doc);
            std::process::exit(0);
        }
        "c17-serve" => {
            runner::install_panic_hook();
            jmv::props::c17::serve();
            std::process::exit(0);
        }
        "c13-child" => {
            let h = std::thread::Builder::new().stack_size(runner::STACK).spawn(jmv::props::c13::child_main).unwrap();
            let _ = h.join();
            std::process::exit(0);
        }
        "c16-child" => {
            let n: usize = args.get(1).and_then(|s| s.parse().ok()).unwrap_or(4);
            jmv::props::c16::child_main(n);
            std::process::exit(0);
        }
        "replay" => {
            if args.len() < 2 {
                usage();
            }
            runner::install_panic_hook();
            let txt = std::fs::read_to_string(&args[1]).expect("read replay file");
            let v: serde_json::Value = serde_json::from_str(&txt).expect("replay json");
            let pid = v["property"].as_str().expect("property").to_string();
            let sub = v["sub"].as_str().expect("sub").to_string();
            let p = jmv::props::by_id(&pid).expect("unknown property");
            let env = runner::make_env(&p, Tier::Quick, seed, true);
            let input = v["input"].clone();
            let h = std::thread::Builder::new()
                .stack_size(runner::STACK)
                .spawn(move || runner::replay_input(&p, &sub, &input, &env))
                .unwrap();
            match h.join().unwrap() {
                Ok(Ok(())) => {
                    println!("replay passes: property={} file={}", pid, args[1]);
                    std::process::exit(0);
                }
                Ok(Err(f)) => {
                    println!("VIOLATION property={} replay={}", pid, args[1]);
                    println!("  sub={} sig={} :: {}", f.sub, f.sig, f.message);
                    println!("  case={}", serde_json::to_string(&f.case).unwrap_or_default());
                    std::process::exit(1);
                }
                Err(m) => {
                    eprintln!("harness problem: {}", m);
                    std::process::exit(2);
                }
            }
        }
        id => {
            let p = match jmv::props::by_id(id) {
                Some(p) => p,
                None => usage(),
            };
            let mut tier = match std::env::var("VERIF_TIER").ok().as_deref() {
                Some("thorough") => Tier::Thorough,
                _ => Tier::Quick,
            };
            let mut sub: Option<String> = None;
            let mut i = 1;
            while i < args.len() {
                match args[i].as_str() {
                    "--tier" => {
                        i += 1;
                        tier = if args.get(i).map(|s| s.as_str()) == Some("thorough") { Tier::Thorough } else { Tier::Quick };
                    }
                    "--sub" => {
                        i += 1;
                        sub = args.get(i).cloned();
                    }
                    _ => usage(),
                }
                i += 1;
            }
            let code = runner::run_property(&p, tier, seed, sub.as_deref());
            // scratch files of process-spawning checks
            if let Ok(t) = std::env::var("JMV_TMP") {
                let _ = std::fs::remove_dir_all(std::path::Path::new(&t).join(format!("c18-{}", std::process::id())));
            }
            std::process::exit(code);
        }
    }
}
