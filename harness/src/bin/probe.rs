use std::io::BufRead;
fn main() {
    // usage: probe  <<< 'expr ||| json'
    let stdin = std::io::stdin();
    for line in stdin.lock().lines() {
        let line = line.unwrap();
        let (e, d) = match line.split_once("|||") { Some((a,b)) => (a.trim().to_string(), b.trim().to_string()), None => (line.trim().to_string(), "null".to_string()) };
        match jmespath::compile(&e) {
            Err(err) => println!("{e}  => COMPILE ERR {:?} off={} col={}", err.reason, err.offset, err.column),
            Ok(x) => {
                if std::env::var("AST").is_ok() { println!("{:?}", x.as_ast()); }
                let v = jmespath::Variable::from_json(&d).unwrap();
                match x.search(v) { Ok(r) => println!("{e}  => {}", r), Err(err) => println!("{e}  => SEARCH ERR {:?} off={} expr={:?}", err.reason, err.offset, err.expression) }
            }
        }
    }
}
