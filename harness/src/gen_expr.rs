//! Tree-first expression generator over the core forms, steered by a hint
//! value (the document, or what a sub-expression evaluates to in the reference
//! evaluator) so that look-ups, indexes and projections hit real data often.

use std::collections::BTreeSet;

use crate::gen_doc::{gen_key, gen_number, gen_scalar, gen_string, KEYS};
use crate::model::J;
use crate::refast::*;
use crate::refeval;
use crate::src::Src;

#[derive(Clone, Copy)]
pub struct ExprOpts {
    pub max_depth: usize,
    /// allow slice step 0 (evaluation error)
    pub step_zero: bool,
    /// allow indexes and slice parts at the edge of the i32 range
    pub extremes: bool,
    /// allow odd keys that need quoting
    pub odd_keys: bool,
    /// typed function calls (delegates to a callback-free small set)
    pub funcs: bool,
}

impl Default for ExprOpts {
    fn default() -> Self {
        ExprOpts { max_depth: 5, step_zero: true, extremes: true, odd_keys: true, funcs: false }
    }
}

fn hint_eval(e: &RefExpr, hint: Option<&J>) -> Option<J> {
    let h = hint?;
    let mut cx = refeval::Ctx::default();
    refeval::eval(e, h, &mut cx).ok()
}

fn pick_key(src: &mut Src, hint: Option<&J>, o: &ExprOpts) -> String {
    if let Some(J::Obj(m)) = hint {
        if !m.is_empty() && src.chance(200) {
            let keys: Vec<&String> = m.keys().collect();
            return keys[src.below(keys.len())].clone();
        }
    }
    // an element of an array of objects is a frequent subject of a key
    if let Some(J::Arr(a)) = hint {
        if let Some(J::Obj(m)) = a.first() {
            if !m.is_empty() && src.chance(128) {
                let keys: Vec<&String> = m.keys().collect();
                return keys[src.below(keys.len())].clone();
            }
        }
    }
    gen_key(src, o.odd_keys)
}

pub fn gen_small_int(src: &mut Src, len: usize, o: &ExprOpts) -> i32 {
    let len = len as i64;
    match src.weighted(&[10, 6, if o.extremes { 1 } else { 0 }]) {
        0 => {
            if len > 0 {
                src.range(-len, len - 1) as i32
            } else {
                src.range(-2, 2) as i32
            }
        }
        1 => src.range(-(len + 2), len + 2) as i32,
        _ => *src.pick(&[i32::MAX, -i32::MAX, i32::MAX - 1, -(i32::MAX - 1), 65536, -65536]),
    }
}

pub fn gen_slice_kind(src: &mut Src, len: usize, o: &ExprOpts) -> ProjKind {
    let part = |src: &mut Src| -> Option<i32> {
        if src.chance(100) {
            None
        } else {
            Some(gen_small_int(src, len, o))
        }
    };
    let a = part(src);
    let b2 = part(src);
    let c = match src.weighted(&[8, 4, 3, 3, 2, if o.step_zero { 1 } else { 0 }, if o.extremes { 1 } else { 0 }]) {
        0 => None,
        1 => Some(1),
        2 => Some(-1),
        3 => Some(2),
        4 => Some(src.range(-4, 4) as i32).filter(|x| *x != 0).or(Some(3)),
        5 => Some(0),
        _ => Some(*src.pick(&[i32::MAX, -i32::MAX, i32::MAX - 1, 1 << 30, -(1 << 30)])),
    };
    ProjKind::Slice(a, b2, c)
}

fn gen_literal(src: &mut Src, hint: Option<&J>) -> J {
    // often a literal equal to (part of) the hint, so comparisons can be true
    if let Some(h) = hint {
        if src.chance(110) {
            return match h {
                J::Arr(a) if !a.is_empty() && src.flip() => a[src.below(a.len())].clone(),
                J::Expref(_) => J::Null,
                other => other.clone(),
            };
        }
    }
    match src.weighted(&[6, 2, 2]) {
        0 => gen_scalar(src),
        1 => J::Arr((0..src.below(3)).map(|_| gen_scalar(src)).collect()),
        _ => {
            let mut m = std::collections::BTreeMap::new();
            for _ in 0..src.below(3) {
                m.insert(src.pick(KEYS).to_string(), gen_scalar(src));
            }
            J::Obj(m)
        }
    }
}

pub fn gen_leaf(src: &mut Src, hint: Option<&J>, o: &ExprOpts) -> RefExpr {
    let w: [u32; 4] = match hint {
        Some(J::Obj(_)) => [14, 2, 2, 1],
        Some(J::Arr(_)) => [3, 3, 3, 9],
        Some(_) => [3, 8, 4, 1],
        None => [8, 3, 3, 2],
    };
    match src.weighted(&w) {
        0 => RefExpr::Field(pick_key(src, hint, o)),
        1 => RefExpr::Current,
        2 => RefExpr::Literal(gen_literal(src, hint)),
        _ => {
            let len = hint.and_then(|h| h.as_arr()).map(|a| a.len()).unwrap_or(0);
            RefExpr::Index(None, gen_small_int(src, len, o))
        }
    }
}

fn first_elem(v: Option<&J>, src: &mut Src) -> Option<J> {
    match v {
        Some(J::Arr(a)) if !a.is_empty() => Some(a[src.below(a.len())].clone()),
        Some(J::Obj(m)) if !m.is_empty() => {
            let vs: Vec<&J> = m.values().collect();
            Some(vs[src.below(vs.len())].clone())
        }
        _ => None,
    }
}

fn gen_multi(src: &mut Src, d: usize, hint: Option<&J>, o: &ExprOpts) -> RefExpr {
    if src.flip() {
        let n = 1 + src.below(3);
        let mut es: Vec<RefExpr> = vec![];
        for _ in 0..n {
            if !es.is_empty() && src.chance(24) {
                es.push(es[0].clone());
            } else {
                es.push(gen_expr(src, d + 1, hint, o));
            }
        }
        RefExpr::MultiList(es)
    } else {
        let n = 1 + src.below(3);
        let mut seen = BTreeSet::new();
        let mut kvs = vec![];
        for _ in 0..n {
            let k = gen_key(src, o.odd_keys);
            if seen.insert(k.clone()) {
                let v = gen_expr(src, d + 1, hint, o);
                kvs.push((k, v));
            }
        }
        RefExpr::MultiHash(kvs)
    }
}

pub const FN_NAMES: &[&str] = &[
    "length", "abs", "sort_by", "map", "not_null", "to_string", "max_by", "contains", "join", "merge", "keys", "type", "nope", "f",
];

/// An untyped call (syntax-level generators only).
fn gen_call(src: &mut Src, d: usize, hint: Option<&J>, o: &ExprOpts) -> RefExpr {
    let name = src.pick(FN_NAMES).to_string();
    let n = src.below(4);
    let mut args = vec![];
    for _ in 0..n {
        let a = gen_expr(src, d + 1, hint, o);
        if src.chance(70) {
            args.push(RefExpr::Expref(b(a)));
        } else {
            args.push(a);
        }
    }
    RefExpr::Call(name, args)
}

/// What may follow a dot.
fn gen_step(src: &mut Src, d: usize, hint: Option<&J>, o: &ExprOpts) -> RefExpr {
    match src.weighted(&[10, if d < o.max_depth { 3 } else { 0 }, if o.funcs && d < o.max_depth { 2 } else { 0 }]) {
        0 => RefExpr::Field(pick_key(src, hint, o)),
        1 => gen_multi(src, d, hint, o),
        _ => gen_call(src, d, hint, o),
    }
}

fn gen_predicate(src: &mut Src, d: usize, elem: Option<&J>, o: &ExprOpts) -> RefExpr {
    match src.weighted(&[6, 3, 2, 3]) {
        0 => {
            let l = gen_expr(src, d + 2, elem, o);
            let lv = hint_eval(&l, elem);
            let op = *src.pick(&CmpOp::ALL);
            let r = RefExpr::Literal(gen_literal(src, lv.as_ref()));
            RefExpr::Cmp(op, b(l), b(r))
        }
        1 => RefExpr::Field(pick_key(src, elem, o)),
        2 => RefExpr::Not(b(gen_expr(src, d + 2, elem, o))),
        _ => gen_expr(src, d + 1, elem, o),
    }
}

fn subject_kind_for(src: &mut Src, v: Option<&J>, o: &ExprOpts, allow_flatten: bool, allow_filter: bool, d: usize) -> ProjKind {
    let len = v.and_then(|h| h.as_arr()).map(|a| a.len()).unwrap_or(0);
    let is_obj = matches!(v, Some(J::Obj(_)));
    let w_list = if is_obj { 2 } else { 8 };
    let w_obj = if is_obj { 12 } else { 2 };
    let w_flat = if allow_flatten { if is_obj { 1 } else { 5 } } else { 0 };
    let w_slice = if is_obj { 1 } else { 5 };
    let w_filter = if allow_filter && d < o.max_depth { if is_obj { 1 } else { 6 } } else { 0 };
    match src.weighted(&[w_list, w_obj, w_flat, w_slice, w_filter]) {
        0 => ProjKind::ListWild,
        1 => ProjKind::ObjWild,
        2 => ProjKind::Flatten,
        3 => gen_slice_kind(src, len, o),
        _ => {
            let elem = first_elem(v, src);
            ProjKind::Filter(b(gen_predicate(src, d, elem.as_ref(), o)))
        }
    }
}

/// The values a projection of `kind` iterates over, for hinting the rhs.
fn proj_elem_hint(kind: &ProjKind, v: Option<&J>, src: &mut Src) -> Option<J> {
    let v = v?;
    let probe = RefExpr::Proj { kind: clone_kind(kind), subject: None, rhs: b(RefExpr::Current) };
    let mut cx = refeval::Ctx::default();
    match refeval::eval(&probe, v, &mut cx) {
        Ok(J::Arr(a)) if !a.is_empty() => Some(a[src.below(a.len())].clone()),
        _ => None,
    }
}

fn clone_kind(k: &ProjKind) -> ProjKind {
    k.clone()
}

fn rbp_of(kind: &ProjKind) -> u32 {
    match kind {
        ProjKind::Flatten => 9,
        ProjKind::Filter(_) => 21,
        _ => 20,
    }
}

/// What follows a dot: a step, then brackets that bind tighter than the dot.
/// Returns the expression and whether it ended in a projection (which takes
/// everything that follows).
fn gen_dot_rhs(src: &mut Src, d: usize, hint: Option<&J>, o: &ExprOpts, in_chain: bool) -> (RefExpr, bool) {
    let mut cur = gen_step(src, d, hint, o);
    let mut val = hint_eval(&cur, hint);
    for _ in 0..3 {
        match src.weighted(&[12, 4, if d < o.max_depth { 3 } else { 0 }]) {
            0 => break,
            1 => {
                let len = val.as_ref().and_then(|h| h.as_arr()).map(|a| a.len()).unwrap_or(0);
                let n = gen_small_int(src, len, o);
                val = match &val {
                    Some(J::Arr(a)) => refeval::index_of(a.len(), n).map(|i| a[i].clone()),
                    _ => None,
                };
                cur = RefExpr::Index(Some(b(cur)), n);
            }
            _ => {
                let len = val.as_ref().and_then(|h| h.as_arr()).map(|a| a.len()).unwrap_or(0);
                let kind = if src.chance(170) { ProjKind::ListWild } else { gen_slice_kind(src, len, o) };
                let eh = proj_elem_hint(&kind, val.as_ref(), src);
                let rhs = gen_chain(src, d + 1, eh.as_ref(), o, 20);
                let _ = in_chain;
                return (RefExpr::Proj { kind, subject: Some(b(cur)), rhs: b(rhs) }, true);
            }
        }
    }
    (cur, false)
}

/// Right-hand side of a projection: a postfix chain on the implicit current
/// element.  `rbp` is the binding power of the projection that owns the chain
/// (a filter may not *continue* a chain owned by a filter).
pub fn gen_chain(src: &mut Src, d: usize, elem: Option<&J>, o: &ExprOpts, rbp: u32) -> RefExpr {
    let deep = d >= o.max_depth + 1;
    // first element: nothing | .dotrhs | bracket start | projection start
    let mut cur: RefExpr;
    let mut cur_val: Option<J>;
    match src.weighted(&[6, 10, 3, if deep { 0 } else { 4 }]) {
        0 => return RefExpr::Current,
        1 => {
            let (e, ended) = gen_dot_rhs(src, d + 1, elem, o, true);
            if ended {
                return e;
            }
            cur_val = hint_eval(&e, elem);
            cur = e;
        }
        2 => {
            let len = elem.and_then(|h| h.as_arr()).map(|a| a.len()).unwrap_or(0);
            let n = gen_small_int(src, len, o);
            cur = RefExpr::Index(None, n);
            cur_val = hint_eval(&cur, elem);
            // further brackets attach to the whole bracket-started prefix
            while src.chance(60) {
                let len = cur_val.as_ref().and_then(|h| h.as_arr()).map(|a| a.len()).unwrap_or(0);
                if src.chance(170) {
                    let n = gen_small_int(src, len, o);
                    cur = RefExpr::Index(Some(b(cur)), n);
                    cur_val = hint_eval(&cur, elem);
                } else {
                    let kind = if src.flip() { ProjKind::ListWild } else { gen_slice_kind(src, len, o) };
                    let eh = proj_elem_hint(&kind, cur_val.as_ref(), src);
                    let rhs = gen_chain(src, d + 2, eh.as_ref(), o, 20);
                    return RefExpr::Proj { kind, subject: Some(b(cur)), rhs: b(rhs) };
                }
            }
        }
        _ => {
            let kind = subject_kind_for(src, elem, o, false, true, d + 1);
            let eh = proj_elem_hint(&kind, elem, src);
            let r = rbp_of(&kind);
            let rhs = gen_chain(src, d + 2, eh.as_ref(), o, r);
            return RefExpr::Proj { kind, subject: None, rhs: b(rhs) };
        }
    }
    // continuation: .dotrhs | [?p] (not after a filter-owned chain) | .*
    for step_no in 0..3 {
        let deep = d + step_no >= o.max_depth + 1;
        let w_filter = if rbp >= 21 || deep { 0 } else { 2 };
        let w_star = if deep { 0 } else { 1 };
        match src.weighted(&[8, 8, w_filter, w_star]) {
            0 => break,
            1 => {
                let (e, ended) = gen_dot_rhs(src, d + step_no + 2, cur_val.as_ref(), o, true);
                cur_val = hint_eval(&e, cur_val.as_ref());
                cur = RefExpr::Dot(b(cur), b(e));
                if ended {
                    return cur;
                }
            }
            2 => {
                let eh0 = first_elem(cur_val.as_ref(), src);
                let kind = ProjKind::Filter(b(gen_predicate(src, d + step_no + 2, eh0.as_ref(), o)));
                let eh = proj_elem_hint(&kind, cur_val.as_ref(), src);
                let rhs = gen_chain(src, d + step_no + 3, eh.as_ref(), o, 21);
                return RefExpr::Proj { kind, subject: Some(b(cur)), rhs: b(rhs) };
            }
            _ => {
                let kind = ProjKind::ObjWild;
                let eh = proj_elem_hint(&kind, cur_val.as_ref(), src);
                let rhs = gen_chain(src, d + step_no + 3, eh.as_ref(), o, 20);
                return RefExpr::Proj { kind, subject: Some(b(cur)), rhs: b(rhs) };
            }
        }
    }
    cur
}

fn literals_mut<'a>(e: &'a mut RefExpr, out: &mut Vec<&'a mut J>) {
    use RefExpr::*;
    match e {
        Current | Field(_) => {}
        Literal(v) => out.push(v),
        Index(s, _) => {
            if let Some(s) = s {
                literals_mut(s, out);
            }
        }
        Dot(a, b2) | Pipe(a, b2) | Or(a, b2) | And(a, b2) | Cmp(_, a, b2) => {
            literals_mut(a, out);
            literals_mut(b2, out);
        }
        Not(a) | Expref(a) => literals_mut(a, out),
        Proj { kind, subject, rhs } => {
            if let Some(s) = subject {
                literals_mut(s, out);
            }
            if let ProjKind::Filter(p) = kind {
                literals_mut(p, out);
            }
            literals_mut(rhs, out);
        }
        MultiList(es) => {
            for x in es {
                literals_mut(x, out);
            }
        }
        MultiHash(kvs) => {
            for (_, x) in kvs {
                literals_mut(x, out);
            }
        }
        Call(_, args) => {
            for x in args {
                literals_mut(x, out);
            }
        }
    }
}

/// Make some literals of one expression depend on earlier ones: the same
/// value again, a value one step away (loosely equal numbers, one character
/// changed), the same characters under the other delimiter (a raw string
/// holding the JSON text of an earlier literal, or the value an earlier raw
/// string spells).  Literals are independent of each other, however similar.
pub fn relate_literals(e: &mut RefExpr, src: &mut Src) -> bool {
    let mut lits: Vec<&mut J> = vec![];
    literals_mut(e, &mut lits);
    let mut changed = false;
    for i in 1..lits.len() {
        if !src.chance(40) {
            continue;
        }
        let prev: J = (*lits[src.below(i)]).clone();
        let new = match src.below(4) {
            0 => prev,
            1 => crate::gen_doc::near_value(&prev, src),
            2 => J::Str(prev.to_json()),
            _ => match &prev {
                J::Str(s) => match J::parse(s) {
                    Ok(p) if p.to_json() == *s => p,
                    _ => J::Str(format!("{} ", s)),
                },
                other => J::Str(other.to_json()),
            },
        };
        *lits[i] = new;
        changed = true;
    }
    changed
}

pub fn gen_expr(src: &mut Src, d: usize, hint: Option<&J>, o: &ExprOpts) -> RefExpr {
    if d == 0 {
        let mut e = gen_expr_at(src, 0, hint, o);
        relate_literals(&mut e, src);
        return e;
    }
    gen_expr_at(src, d, hint, o)
}

fn gen_expr_at(src: &mut Src, d: usize, hint: Option<&J>, o: &ExprOpts) -> RefExpr {
    if d >= o.max_depth {
        return gen_leaf(src, hint, o);
    }
    // weights: leaf, dot, index, projection, pipe, or, and, cmp, not, multi
    let w: [u32; 10] = match hint {
        Some(J::Obj(_)) => [8, 12, 1, 6, 3, 3, 3, 3, 2, 4],
        Some(J::Arr(_)) => [4, 3, 6, 14, 3, 2, 2, 3, 2, 3],
        Some(_) => [10, 2, 1, 2, 3, 4, 4, 5, 3, 5],
        None => [8, 9, 3, 9, 3, 3, 3, 3, 2, 4],
    };
    match src.weighted(&w) {
        0 => gen_leaf(src, hint, o),
        1 => {
            let s = gen_expr(src, d + 1, hint, o);
            let sv = hint_eval(&s, hint);
            let (st, _) = gen_dot_rhs(src, d + 1, sv.as_ref(), o, false);
            RefExpr::Dot(b(s), b(st))
        }
        2 => {
            let s = gen_expr(src, d + 1, hint, o);
            let sv = hint_eval(&s, hint);
            let len = sv.as_ref().and_then(|h| h.as_arr()).map(|a| a.len()).unwrap_or(0);
            RefExpr::Index(Some(b(s)), gen_small_int(src, len, o))
        }
        3 => {
            let (subject, sv) = if src.chance(40) {
                (None, hint.cloned())
            } else {
                let s = gen_expr(src, d + 1, hint, o);
                let sv = hint_eval(&s, hint);
                (Some(b(s)), sv)
            };
            let kind = subject_kind_for(src, sv.as_ref(), o, true, true, d + 1);
            let eh = proj_elem_hint(&kind, sv.as_ref(), src);
            let r = rbp_of(&kind);
            let rhs = gen_chain(src, d + 1, eh.as_ref(), o, r);
            RefExpr::Proj { kind, subject, rhs: b(rhs) }
        }
        4 => {
            let l = gen_expr(src, d + 1, hint, o);
            let lv = hint_eval(&l, hint);
            let r = gen_expr(src, d + 1, lv.as_ref(), o);
            RefExpr::Pipe(b(l), b(r))
        }
        5 | 6 => {
            // sometimes the very same sub-expression on both sides
            let l = gen_expr(src, d + 1, hint, o);
            let r = if src.chance(30) { l.clone() } else { gen_expr(src, d + 1, hint, o) };
            if src.flip() {
                RefExpr::Or(b(l), b(r))
            } else {
                RefExpr::And(b(l), b(r))
            }
        }
        7 => {
            let l = gen_expr(src, d + 1, hint, o);
            let lv = hint_eval(&l, hint);
            let op = *src.pick(&CmpOp::ALL);
            let r = if src.chance(24) {
                l.clone()
            } else if src.chance(150) {
                RefExpr::Literal(gen_literal(src, lv.as_ref()))
            } else {
                gen_expr(src, d + 1, hint, o)
            };
            RefExpr::Cmp(op, b(l), b(r))
        }
        8 => RefExpr::Not(b(gen_expr(src, d + 1, hint, o))),
        _ => {
            if o.funcs && src.chance(90) {
                gen_call(src, d, hint, o)
            } else {
                gen_multi(src, d, hint, o)
            }
        }
    }
}

/// Keep the number pool reachable for callers that need raw numbers.
pub fn gen_num_literal(src: &mut Src) -> RefExpr {
    RefExpr::Literal(gen_number(src))
}

pub fn gen_str_literal(src: &mut Src) -> RefExpr {
    RefExpr::Literal(J::Str(gen_string(src)))
}

/// An expression without any reference to the current node: literals combined
/// by multi-selects, comparisons and boolean operators.  Its value is the same
/// on every node except that a multi-select on a null node is null.
pub fn gen_constant_expr(src: &mut Src, d: usize) -> RefExpr {
    let leaf = d >= 2;
    match src.weighted(&[if leaf { 10 } else { 3 }, 4, 3, 1, 1, 1]) {
        0 => RefExpr::Literal(gen_scalar(src)),
        1 => RefExpr::MultiList((0..1 + src.below(3)).map(|_| gen_constant_expr(src, d + 1)).collect()),
        2 => {
            let mut seen = BTreeSet::new();
            let mut kvs = vec![];
            for _ in 0..1 + src.below(3) {
                let k = src.pick(KEYS).to_string();
                if seen.insert(k.clone()) {
                    kvs.push((k, gen_constant_expr(src, d + 1)));
                }
            }
            RefExpr::MultiHash(kvs)
        }
        3 => RefExpr::Cmp(*src.pick(&CmpOp::ALL), b(gen_constant_expr(src, d + 1)), b(gen_constant_expr(src, d + 1))),
        4 => RefExpr::Not(b(gen_constant_expr(src, d + 1))),
        _ => {
            let (l, r) = (gen_constant_expr(src, d + 1), gen_constant_expr(src, d + 1));
            if src.flip() {
                RefExpr::Or(b(l), b(r))
            } else {
                RefExpr::And(b(l), b(r))
            }
        }
    }
}

/// Replace one sub-expression X, at a position where any expression may stand,
/// by an equivalent spelling with a different tree: `X | @`, `@ | X`,
/// `not_null(X)`, `X || X`, `X && X`.  Under the value semantics of the
/// language the result of the whole expression is unchanged; an evaluator that
/// special-cases shapes of neighbouring nodes sees a different shape.
/// Returns the rewritten tree and a label, or None when no position was chosen.
pub fn rewrite_somewhere(e: &RefExpr, src: &mut Src) -> Option<(RefExpr, &'static str)> {
    fn count(e: &RefExpr) -> usize {
        let mut n = 0;
        visit(e, true, &mut |_, ok| {
            if ok {
                n += 1;
            }
        });
        n
    }
    // visit every node with the flag "any expression may stand here"
    fn visit(e: &RefExpr, here: bool, f: &mut dyn FnMut(&RefExpr, bool)) {
        use RefExpr::*;
        f(e, here && !matches!(e, Expref(_)));
        match e {
            Current | Field(_) | Literal(_) => {}
            Index(s, _) => {
                if let Some(s) = s {
                    visit(s, true, f);
                }
            }
            Dot(a, b2) => {
                visit(a, true, f);
                visit(b2, false, f);
            }
            Pipe(a, b2) | Or(a, b2) | And(a, b2) | Cmp(_, a, b2) => {
                visit(a, true, f);
                visit(b2, true, f);
            }
            Not(a) => visit(a, true, f),
            Expref(a) => visit(a, true, f),
            Proj { kind, subject, rhs } => {
                if let Some(s) = subject {
                    visit(s, true, f);
                }
                if let ProjKind::Filter(p) = kind {
                    visit(p, true, f);
                }
                visit(rhs, false, f);
            }
            MultiList(es) => {
                for x in es {
                    visit(x, true, f);
                }
            }
            MultiHash(kvs) => {
                for (_, x) in kvs {
                    visit(x, true, f);
                }
            }
            Call(_, args) => {
                for x in args {
                    visit(x, true, f);
                }
            }
        }
    }
    fn apply(e: &RefExpr, here: bool, target: &mut isize, how: usize) -> RefExpr {
        use RefExpr::*;
        let ok = here && !matches!(e, Expref(_));
        if ok {
            *target -= 1;
            if *target == -1 {
                let x = e.clone();
                return match how {
                    0 => Pipe(b(x), b(Current)),
                    1 => Pipe(b(Current), b(x)),
                    2 => Call("not_null".into(), vec![x]),
                    3 => Or(b(x.clone()), b(x)),
                    _ => And(b(x.clone()), b(x)),
                };
            }
        }
        match e {
            Current | Field(_) | Literal(_) => e.clone(),
            Index(s, n) => Index(s.as_ref().map(|s| b(apply(s, true, target, how))), *n),
            Dot(a, c) => Dot(b(apply(a, true, target, how)), b(apply(c, false, target, how))),
            Pipe(a, c) => Pipe(b(apply(a, true, target, how)), b(apply(c, true, target, how))),
            Or(a, c) => Or(b(apply(a, true, target, how)), b(apply(c, true, target, how))),
            And(a, c) => And(b(apply(a, true, target, how)), b(apply(c, true, target, how))),
            Cmp(o, a, c) => Cmp(*o, b(apply(a, true, target, how)), b(apply(c, true, target, how))),
            Not(a) => Not(b(apply(a, true, target, how))),
            Expref(a) => Expref(b(apply(a, true, target, how))),
            Proj { kind, subject, rhs } => {
                let subject = subject.as_ref().map(|s| b(apply(s, true, target, how)));
                let kind = match kind {
                    ProjKind::Filter(p) => ProjKind::Filter(b(apply(p, true, target, how))),
                    other => other.clone(),
                };
                let rhs = b(apply(rhs, false, target, how));
                Proj { kind, subject, rhs }
            }
            MultiList(es) => MultiList(es.iter().map(|x| apply(x, true, target, how)).collect()),
            MultiHash(kvs) => MultiHash(kvs.iter().map(|(k, x)| (k.clone(), apply(x, true, target, how))).collect()),
            Call(n, args) => Call(n.clone(), args.iter().map(|x| apply(x, true, target, how)).collect()),
        }
    }
    let n = count(e);
    if n == 0 {
        return None;
    }
    let mut target = src.below(n) as isize;
    let how = src.below(5);
    let label = ["X | @", "@ | X", "not_null(X)", "X || X", "X && X"][how];
    Some((apply(e, true, &mut target, how), label))
}
