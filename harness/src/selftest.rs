//! The published compliance suite applied to the *reference model* (not to
//! the implementation): keeps the oracle honest.

use crate::corpus::corpus;
use crate::refeval::{self, EvalErr};
use crate::refparse;

pub struct SelfTest {
    pub total: usize,
    pub failures: Vec<String>,
}

pub fn run() -> SelfTest {
    let c = corpus();
    let mut total = 0;
    let mut failures = vec![];
    for s in &c.suites {
        for case in &s.cases {
            total += 1;
            let parsed = refparse::parse_strict(&case.expression);
            let want_err = case.error.as_deref();
            match (parsed, want_err) {
                (Err(_), Some("syntax")) => {}
                (Err(e), _) => failures.push(format!("{}: {:?}: reference rejects a valid expression: {}", s.file, case.expression, e.msg)),
                (Ok(_), Some("syntax")) => failures.push(format!("{}: {:?}: reference accepts a syntax error", s.file, case.expression)),
                (Ok(t), want) => {
                    let mut cx = refeval::Ctx::default();
                    let got = refeval::eval(&t, &s.given, &mut cx);
                    match (got, want, &case.result) {
                        (Ok(v), None, Some(r)) => {
                            if !v.approx_eq(r, 1e-12) {
                                failures.push(format!(
                                    "{}: {:?}: reference gives {} expected {}",
                                    s.file,
                                    case.expression,
                                    v.to_json(),
                                    r.to_json()
                                ));
                            }
                        }
                        (Ok(v), Some(w), _) => failures.push(format!("{}: {:?}: reference gives {} expected error {}", s.file, case.expression, v.to_json(), w)),
                        (Err(e), Some(w), _) => {
                            let ok = match (&e, w) {
                                (EvalErr::InvalidSlice, "invalid-value") => true,
                                (EvalErr::InvalidType(_), "invalid-type") => true,
                                (EvalErr::InvalidReturnType, "invalid-type") => true,
                                (EvalErr::NotEnoughArguments, "invalid-arity") => true,
                                (EvalErr::TooManyArguments, "invalid-arity") => true,
                                (EvalErr::UnknownFunction(_), "unknown-function") => true,
                                _ => false,
                            };
                            if !ok {
                                failures.push(format!("{}: {:?}: reference error {:?} expected {}", s.file, case.expression, e, w));
                            }
                        }
                        (Err(e), None, _) => failures.push(format!("{}: {:?}: reference error {:?} expected a value", s.file, case.expression, e)),
                        (Ok(_), None, None) => {}
                    }
                }
            }
        }
    }
    SelfTest { total, failures }
}
