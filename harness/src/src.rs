//! Choice source: every generator in this harness is a *decoder* from a finite
//! sequence of bytes.  proptest produces (and shrinks) the byte vector; the same
//! decoders are driven by libFuzzer inputs.  An exhausted source yields zeros,
//! and every decoder maps 0 to its simplest alternative, so shorter / smaller
//! byte vectors mean simpler cases and shrinking is monotone.

#[derive(Clone)]
pub struct Src<'a> {
    data: &'a [u8],
    pos: usize,
}

impl<'a> Src<'a> {
    pub fn new(data: &'a [u8]) -> Src<'a> {
        Src { data, pos: 0 }
    }

    pub fn exhausted(&self) -> bool {
        self.pos >= self.data.len()
    }

    pub fn consumed(&self) -> usize {
        self.pos.min(self.data.len())
    }

    #[inline]
    pub fn byte(&mut self) -> u8 {
        let b = self.data.get(self.pos).copied().unwrap_or(0);
        self.pos += 1;
        b
    }

    /// Uniform-ish choice in `0..n`, monotone in the underlying bytes.
    pub fn below(&mut self, n: usize) -> usize {
        if n <= 1 {
            return 0;
        }
        if n <= 256 {
            (self.byte() as usize * n) >> 8
        } else {
            let hi = self.byte() as usize;
            let lo = self.byte() as usize;
            let v = (hi << 8) | lo;
            if n <= 65536 {
                (v * n) >> 16
            } else {
                let b3 = self.byte() as usize;
                let b4 = self.byte() as usize;
                let v = ((v << 16) | (b3 << 8) | b4) as u128;
                ((v * n as u128) >> 32) as usize
            }
        }
    }

    /// Inclusive range.
    pub fn range(&mut self, lo: i64, hi: i64) -> i64 {
        debug_assert!(lo <= hi);
        lo + self.below((hi - lo + 1) as usize) as i64
    }

    /// true with probability num/256 (false is the simple alternative).
    pub fn chance(&mut self, num: u32) -> bool {
        (self.byte() as u32) >= 256 - num.min(256)
    }

    pub fn flip(&mut self) -> bool {
        self.byte() >= 128
    }

    /// Weighted index; alternatives should be listed simplest first.
    pub fn weighted(&mut self, weights: &[u32]) -> usize {
        let total: u32 = weights.iter().sum();
        if total == 0 {
            return 0;
        }
        let mut x = self.below(total as usize) as u32;
        for (i, w) in weights.iter().enumerate() {
            if x < *w {
                return i;
            }
            x -= *w;
        }
        weights.len() - 1
    }

    /// A size with a long tail: mostly small, sometimes a few dozen, now and
    /// then up to `max` (thresholds such as 32 / 64 / 100 / 256 are crossed).
    pub fn size(&mut self, max: usize) -> usize {
        match self.weighted(&[70, 18, 8, 4]) {
            0 => self.below(9.min(max + 1)),
            1 => self.below(41.min(max + 1)),
            2 => self.below(130.min(max + 1)),
            _ => {
                // near a power of two or at the top of the range
                let anchors = [15usize, 16, 17, 31, 32, 33, 63, 64, 65, 100, 127, 128, 129, 255, 256, 257];
                let a = anchors[self.below(anchors.len())];
                if self.chance(60) {
                    self.below(max + 1)
                } else {
                    a.min(max)
                }
            }
        }
    }

    pub fn pick<'b, T>(&mut self, items: &'b [T]) -> &'b T {
        &items[self.below(items.len())]
    }

    pub fn u32(&mut self) -> u32 {
        let mut v = 0u32;
        for _ in 0..4 {
            v = (v << 8) | self.byte() as u32;
        }
        v
    }

    pub fn u64(&mut self) -> u64 {
        let mut v = 0u64;
        for _ in 0..8 {
            v = (v << 8) | self.byte() as u64;
        }
        v
    }
}

/// Deterministic 64-bit mixer (splitmix64) used to derive per-runner seeds.
pub fn mix(mut x: u64) -> u64 {
    x = x.wrapping_add(0x9E3779B97F4A7C15);
    let mut z = x;
    z = (z ^ (z >> 30)).wrapping_mul(0xBF58476D1CE4E5B9);
    z = (z ^ (z >> 27)).wrapping_mul(0x94D049BB133111EB);
    z ^ (z >> 31)
}

pub fn mix3(a: u64, b: u64, c: u64) -> u64 {
    mix(mix(mix(a) ^ b) ^ c)
}

/// FNV-1a, used for distinct-case hashing.
pub fn fnv(bytes: &[u8]) -> u64 {
    let mut h: u64 = 0xcbf29ce484222325;
    for b in bytes {
        h ^= *b as u64;
        h = h.wrapping_mul(0x100000001b3);
    }
    h
}
