//! Typed generator: schema-following documents and expressions of a requested
//! type, so that every built-in is called with arguments that satisfy its
//! signature, nested inside other calls, projections and literals.

use std::collections::BTreeMap;

use crate::gen_doc::{gen_string, STRINGS};
use crate::model::{J, N};
use crate::refast::*;
use crate::src::Src;

#[derive(Clone, Copy, Debug, PartialEq, Eq)]
pub enum Ty {
    Num,
    Str,
    Bool,
    ArrNum,
    ArrStr,
    ArrObj,
    Obj,
    Any,
}

#[derive(Clone, Copy, Debug, PartialEq, Eq)]
pub enum Scope {
    Root,
    /// `@` is one element of `objs`
    ObjElem,
    /// `@` is a number
    NumElem,
    /// `@` is a string
    StrElem,
}

fn f(name: &str) -> RefExpr {
    RefExpr::Field(name.to_string())
}
fn call(name: &str, args: Vec<RefExpr>) -> RefExpr {
    RefExpr::Call(name.to_string(), args)
}
fn expref(e: RefExpr) -> RefExpr {
    RefExpr::Expref(b(e))
}
fn lit(v: J) -> RefExpr {
    RefExpr::Literal(v)
}
fn dot(a: RefExpr, c: RefExpr) -> RefExpr {
    RefExpr::Dot(b(a), b(c))
}
fn proj(kind: ProjKind, subject: RefExpr, rhs: RefExpr) -> RefExpr {
    RefExpr::Proj { kind, subject: Some(b(subject)), rhs: b(rhs) }
}

/// Numbers for typed documents: small pool with many duplicates, both integer
/// and float spelling of the same value, negatives and fractions.
pub fn schema_number(src: &mut Src) -> J {
    if src.chance(9) {
        // huge well-separated integers (up to u64::MAX) and magnitudes next to zero
        return match src.below(9) {
            // (two of these in one array make a sum that no double holds)
            6 => J::f(1e308),
            7 => J::f(-1e308),
            8 => J::f(1.7976931348623157e308),
            0 => J::Num(N::Int(9223372036854775808)),
            1 => J::Num(N::Int(18446744073709551615)),
            2 => J::Num(N::Int(12000000000000000000)),
            3 => J::Num(N::Int(-9223372036854775808)),
            4 => J::f(1e-17),
            _ => J::f(-2e-300),
        };
    }
    match src.weighted(&[8, 4, 4, 1, 1]) {
        // one value, three spellings: 0, 0.0, -0.0 (equal keys, ties)
        4 => match src.below(3) {
            0 => J::int(0),
            1 => J::f(0.0),
            _ => J::f(-0.0),
        },
        0 => J::int(src.range(-3, 6)),
        1 => J::f(src.range(-3, 6) as f64),
        2 => J::f(src.range(-24, 24) as f64 / 8.0),
        _ => J::int(*src.pick(&[1 << 31, -(1 << 31), 1_000_000, (1 << 53) - 1])),
    }
}

pub fn schema_string(src: &mut Src) -> String {
    if src.chance(12) {
        // long strings (length thresholds, multi-byte content)
        let n = src.size(300);
        let unit = *src.pick(&["a", "ab", "é", "😀", "日本", "a b", "x'y"]);
        let mut s = String::new();
        while s.chars().count() < n {
            s.push_str(unit);
            if src.chance(20) {
                s.push(crate::gen_doc::gen_char(src));
            }
        }
        return s;
    }
    if src.chance(170) {
        src.pick(&["a", "b", "ab", "ba", "", "é", "z", "A", "😀", "日本", "a b", "1", "-2.5", "true", "[1]", "1e2", "e\u{301}", "\u{e9}", "ß", "SS", "ss", "ǆ", "İ", "i\u{307}", "\u{5d0}\u{5d1}", "\u{d7ff}", "\u{e000}", "\u{ffff}", "aab", "aba", "baa", "ﬁ", "fi"]).to_string()
    } else {
        gen_string(src)
    }
}

fn num_array(src: &mut Src, max: usize) -> J {
    let n = match src.weighted(&[2, 8, 3, 1]) {
        0 => 0,
        1 => src.below(8),
        2 => 21 + src.below(max.saturating_sub(20).max(1)),
        _ => src.size(max * 7),
    };
    J::Arr((0..n).map(|_| schema_number(src)).collect())
}

fn str_array(src: &mut Src, max: usize) -> J {
    let n = match src.weighted(&[2, 8, 3, 1]) {
        0 => 0,
        1 => src.below(8),
        2 => 21 + src.below(max.saturating_sub(20).max(1)),
        _ => src.size(max * 7),
    };
    J::Arr((0..n).map(|_| J::Str(schema_string(src))).collect())
}

pub fn schema_doc(src: &mut Src) -> J {
    let mut m = BTreeMap::new();
    m.insert("nums".to_string(), num_array(src, 40));
    m.insert("strs".to_string(), str_array(src, 40));
    // objs: unique id, key k with duplicates (numbers or strings, consistently)
    let n = match src.weighted(&[2, 8, 3, 1]) {
        0 => 0,
        1 => src.below(7),
        2 => 21 + src.below(20),
        _ => src.size(140),
    };
    let k_is_num = src.flip();
    let mut objs = vec![];
    for i in 0..n {
        let mut o = BTreeMap::new();
        o.insert("id".to_string(), J::int(i as i64));
        let k = if k_is_num {
            match src.below(3) {
                0 => J::int(src.range(0, 3)),
                1 => J::f(src.range(0, 3) as f64),
                _ => J::f(src.range(0, 6) as f64 / 2.0),
            }
        } else {
            J::Str(src.pick(&["a", "b", "é", "ab", ""]).to_string())
        };
        o.insert("k".to_string(), k);
        o.insert("n".to_string(), schema_number(src));
        o.insert("s".to_string(), J::Str(schema_string(src)));
        o.insert("t".to_string(), num_array(src, 8));
        // `m`: a key that is a number for most elements and a string for a few later ones
        o.insert("m".to_string(), if i >= 1 && src.chance(12) { J::Str("mixed".into()) } else { J::int(i as i64 % 5) });
        if src.chance(200) {
            let mut inner = BTreeMap::new();
            inner.insert("a".to_string(), schema_number(src));
            o.insert("o".to_string(), J::Obj(inner));
        }
        objs.push(J::Obj(o));
    }
    m.insert("objs".to_string(), J::Arr(objs));
    let small_obj = |src: &mut Src| -> J {
        let mut o = BTreeMap::new();
        for _ in 0..src.below(5) {
            let key = src.pick(&["a", "b", "c", "d", "é", "k k"]).to_string();
            let v = match src.below(4) {
                0 => schema_number(src),
                1 => J::Str(schema_string(src)),
                2 => J::Null,
                _ => J::Arr(vec![schema_number(src)]),
            };
            o.insert(key, v);
        }
        // now and then a wide object (16..48 more members, names shared between the objects
        // of one document): size thresholds of map operations
        if src.chance(36) {
            let n = 12 + src.below(37);
            let start = src.below(6);
            for i in start..start + n {
                let v = if src.chance(200) { J::int(src.range(-3, 40)) } else { J::Str(schema_string(src)) };
                o.insert(format!("k{:02}", i), v);
            }
        }
        J::Obj(o)
    };
    m.insert("o".to_string(), small_obj(src));
    m.insert("o2".to_string(), small_obj(src));
    let mut on = BTreeMap::new();
    for _ in 0..src.below(6) {
        on.insert(src.pick(&["a", "b", "c", "d", "e"]).to_string(), schema_number(src));
    }
    if src.chance(30) {
        for i in 0..(14 + src.below(30)) {
            on.insert(format!("k{:02}", i), schema_number(src));
        }
    }
    m.insert("on".to_string(), J::Obj(on));
    m.insert("s".to_string(), J::Str(schema_string(src)));
    m.insert("s2".to_string(), J::Str(schema_string(src)));
    m.insert("n".to_string(), schema_number(src));
    m.insert("b".to_string(), J::Bool(src.flip()));
    m.insert("z".to_string(), J::Null);
    m.insert(
        "nested".to_string(),
        J::Arr((0..src.below(4)).map(|_| J::Arr((0..src.below(4)).map(|_| schema_number(src)).collect())).collect()),
    );
    m.insert("mixed".to_string(), J::Arr(vec![J::int(1), J::s("a"), J::Null, J::Arr(vec![J::int(2)]), J::Bool(false)]));
    m.insert("empty".to_string(), J::Arr(vec![]));
    J::Obj(m)
}

pub struct Tg {
    pub max_depth: usize,
}

impl Tg {
    fn leaf(&self, src: &mut Src, ty: Ty, sc: Scope) -> RefExpr {
        match (ty, sc) {
            (Ty::Num, Scope::Root) => match src.below(3) {
                0 => f("n"),
                1 => lit(schema_number(src)),
                _ => RefExpr::Index(Some(b(f("nums"))), src.range(-2, 3) as i32),
            },
            (Ty::Num, Scope::ObjElem) => match src.below(4) {
                0 => f("n"),
                1 => f("id"),
                2 => lit(schema_number(src)),
                _ => dot(f("o"), f("a")),
            },
            (Ty::Num, Scope::NumElem) => {
                if src.chance(200) {
                    RefExpr::Current
                } else {
                    lit(schema_number(src))
                }
            }
            (Ty::Num, Scope::StrElem) => lit(schema_number(src)),
            (Ty::Str, Scope::Root) => match src.below(3) {
                0 => f("s"),
                1 => f("s2"),
                _ => lit(J::Str(schema_string(src))),
            },
            (Ty::Str, Scope::ObjElem) => {
                if src.chance(200) {
                    f("s")
                } else {
                    lit(J::Str(schema_string(src)))
                }
            }
            (Ty::Str, Scope::StrElem) => {
                if src.chance(200) {
                    RefExpr::Current
                } else {
                    lit(J::Str(schema_string(src)))
                }
            }
            (Ty::Str, Scope::NumElem) => lit(J::Str(schema_string(src))),
            (Ty::Bool, Scope::Root) => {
                if src.flip() {
                    f("b")
                } else {
                    lit(J::Bool(src.flip()))
                }
            }
            (Ty::Bool, _) => lit(J::Bool(src.flip())),
            (Ty::ArrNum, Scope::Root) => match src.below(4) {
                0 | 1 => f("nums"),
                2 => f("empty"),
                _ => lit(J::Arr((0..src.below(4)).map(|_| schema_number(src)).collect())),
            },
            (Ty::ArrNum, Scope::ObjElem) => f("t"),
            (Ty::ArrNum, _) => lit(J::Arr((0..src.below(4)).map(|_| schema_number(src)).collect())),
            (Ty::ArrStr, Scope::Root) => match src.below(4) {
                0 | 1 => f("strs"),
                2 => f("empty"),
                _ => lit(J::Arr((0..src.below(4)).map(|_| J::Str(schema_string(src))).collect())),
            },
            (Ty::ArrStr, _) => lit(J::Arr((0..src.below(4)).map(|_| J::Str(schema_string(src))).collect())),
            (Ty::ArrObj, Scope::Root) => {
                if src.chance(230) {
                    f("objs")
                } else {
                    f("empty")
                }
            }
            (Ty::ArrObj, _) => lit(J::Arr(vec![])),
            (Ty::Obj, Scope::Root) => match src.below(3) {
                0 => f("o"),
                1 => f("o2"),
                _ => f("on"),
            },
            (Ty::Obj, Scope::ObjElem) => {
                if src.flip() {
                    RefExpr::Current
                } else {
                    lit(J::Obj(BTreeMap::new()))
                }
            }
            (Ty::Obj, _) => lit(J::Obj(BTreeMap::new())),
            (Ty::Any, _) => {
                let t = *src.pick(&[Ty::Num, Ty::Str, Ty::Bool, Ty::ArrNum, Ty::ArrStr, Ty::Obj]);
                if sc == Scope::Root && src.chance(50) {
                    match src.below(3) {
                        0 => f("z"),
                        1 => f("mixed"),
                        _ => f("nested"),
                    }
                } else {
                    self.leaf(src, t, sc)
                }
            }
        }
    }

    /// Key expression for the by-functions, relative to an `objs` element.
    fn by_key(&self, src: &mut Src, d: usize) -> RefExpr {
        match src.below(8) {
            0 | 1 => f("k"),
            2 => f("id"),
            3 => self.gen(src, Ty::Num, Scope::ObjElem, d + 1),
            4 => self.gen(src, Ty::Str, Scope::ObjElem, d + 1),
            // a key that itself calls a by-function (on lists built from the element)
            6 => match src.below(4) {
                0 => dot(call("max_by", vec![RefExpr::MultiList(vec![RefExpr::Current, RefExpr::Current]), expref(f("n"))]), f("n")),
                1 => dot(RefExpr::Index(Some(b(call("sort_by", vec![RefExpr::MultiList(vec![RefExpr::Current]), expref(f("id"))]))), 0), f("id")),
                2 => call("sum", vec![call("map", vec![expref(f("id")), RefExpr::MultiList(vec![RefExpr::Current, RefExpr::Current])])]),
                _ => call("length", vec![call("sort_by", vec![proj(ProjKind::ListWild, f("t"), RefExpr::MultiHash(vec![("v".to_string(), RefExpr::Current)])), expref(f("v"))])]),
            },
            _ => f("n"),
        }
    }

    pub fn gen(&self, src: &mut Src, ty: Ty, sc: Scope, d: usize) -> RefExpr {
        if d >= self.max_depth || src.chance(50) {
            return self.leaf(src, ty, sc);
        }
        let d1 = d + 1;
        match ty {
            Ty::Num => match src.below(13) {
                0 => call("abs", vec![self.gen(src, Ty::Num, sc, d1)]),
                1 => call("ceil", vec![self.gen(src, Ty::Num, sc, d1)]),
                2 => call("floor", vec![self.gen(src, Ty::Num, sc, d1)]),
                3 => call("sum", vec![self.gen(src, Ty::ArrNum, sc, d1)]),
                4 => call("avg", vec![self.gen(src, Ty::ArrNum, sc, d1)]),
                5 => call("max", vec![self.gen(src, Ty::ArrNum, sc, d1)]),
                6 => call("min", vec![self.gen(src, Ty::ArrNum, sc, d1)]),
                7 => {
                    let t = *src.pick(&[Ty::Str, Ty::ArrNum, Ty::ArrStr, Ty::Obj, Ty::ArrObj]);
                    call("length", vec![self.gen(src, t, sc, d1)])
                }
                8 => {
                    let t = if src.flip() { Ty::Str } else { Ty::Num };
                    call("to_number", vec![self.gen(src, t, sc, d1)])
                }
                9 => call("not_null", vec![if sc == Scope::Root { f("z") } else { lit(J::Null) }, self.gen(src, Ty::Num, sc, d1)]),
                10 => call("sum", vec![call("values", vec![if sc == Scope::Root { f("on") } else { lit(J::Obj(BTreeMap::new())) }])]),
                11 => RefExpr::Pipe(b(self.gen(src, Ty::ArrNum, sc, d1)), b(call("length", vec![RefExpr::Current]))),
                _ => self.leaf(src, Ty::Num, sc),
            },
            Ty::Str => match src.below(9) {
                0 => call("join", vec![self.gen(src, Ty::Str, sc, d1), self.gen(src, Ty::ArrStr, sc, d1)]),
                1 => call("reverse", vec![self.gen(src, Ty::Str, sc, d1)]),
                2 => call("type", vec![self.gen(src, Ty::Any, sc, d1)]),
                3 => call("to_string", vec![self.gen(src, Ty::Any, sc, d1)]),
                4 => call("max", vec![self.gen(src, Ty::ArrStr, sc, d1)]),
                5 => call("min", vec![self.gen(src, Ty::ArrStr, sc, d1)]),
                6 => call("not_null", vec![lit(J::Null), self.gen(src, Ty::Str, sc, d1), self.gen(src, Ty::Str, sc, d1)]),
                7 => RefExpr::Or(b(self.gen(src, Ty::Str, sc, d1)), b(self.gen(src, Ty::Str, sc, d1))),
                _ => self.leaf(src, Ty::Str, sc),
            },
            Ty::Bool => match src.below(8) {
                0 => {
                    let hay = if src.flip() { Ty::Str } else { *src.pick(&[Ty::ArrNum, Ty::ArrStr]) };
                    let needle = match hay {
                        Ty::Str => Ty::Str,
                        Ty::ArrNum => Ty::Num,
                        _ => Ty::Str,
                    };
                    let nt = if src.chance(40) { Ty::Any } else { needle };
                    call("contains", vec![self.gen(src, hay, sc, d1), self.gen(src, nt, sc, d1)])
                }
                1 => call("starts_with", vec![self.gen(src, Ty::Str, sc, d1), self.gen(src, Ty::Str, sc, d1)]),
                2 => call("ends_with", vec![self.gen(src, Ty::Str, sc, d1), self.gen(src, Ty::Str, sc, d1)]),
                3 => RefExpr::Cmp(*src.pick(&CmpOp::ALL), b(self.gen(src, Ty::Num, sc, d1)), b(self.gen(src, Ty::Num, sc, d1))),
                4 => RefExpr::Cmp(if src.flip() { CmpOp::Eq } else { CmpOp::Ne }, b(self.gen(src, Ty::Any, sc, d1)), b(self.gen(src, Ty::Any, sc, d1))),
                5 => RefExpr::Not(b(self.gen(src, Ty::Any, sc, d1))),
                _ => self.leaf(src, Ty::Bool, sc),
            },
            Ty::ArrNum => match src.below(12) {
                0 => call("sort", vec![self.gen(src, Ty::ArrNum, sc, d1)]),
                1 => call("reverse", vec![self.gen(src, Ty::ArrNum, sc, d1)]),
                2 => call("map", vec![expref(self.gen(src, Ty::Num, Scope::ObjElem, d1)), self.gen(src, Ty::ArrObj, sc, d1)]),
                3 => call("map", vec![expref(self.gen(src, Ty::Num, Scope::NumElem, d1)), self.gen(src, Ty::ArrNum, sc, d1)]),
                4 => proj(ProjKind::ListWild, self.gen(src, Ty::ArrObj, sc, d1), f(*src.pick(&["n", "id"]))),
                5 => {
                    let (a, c) = (src.range(-3, 4) as i32, src.range(-3, 6) as i32);
                    let step = *src.pick(&[None, Some(1), Some(2), Some(-1)]);
                    proj(ProjKind::Slice(if src.flip() { Some(a) } else { None }, if src.flip() { Some(c) } else { None }, step), self.gen(src, Ty::ArrNum, sc, d1), RefExpr::Current)
                }
                6 => call("to_array", vec![self.gen(src, Ty::Num, sc, d1)]),
                7 => RefExpr::MultiList(vec![self.gen(src, Ty::Num, sc, d1), self.gen(src, Ty::Num, sc, d1)]),
                8 => proj(
                    ProjKind::Filter(b(RefExpr::Cmp(*src.pick(&CmpOp::ALL), b(RefExpr::Current), b(self.gen(src, Ty::Num, Scope::NumElem, d1))))),
                    self.gen(src, Ty::ArrNum, sc, d1),
                    RefExpr::Current,
                ),
                9 => call("sort", vec![call("values", vec![if sc == Scope::Root { f("on") } else { lit(J::Obj(BTreeMap::new())) }])]),
                10 => {
                    if sc == Scope::Root {
                        proj(ProjKind::Flatten, f("nested"), RefExpr::Current)
                    } else {
                        self.leaf(src, Ty::ArrNum, sc)
                    }
                }
                _ => self.leaf(src, Ty::ArrNum, sc),
            },
            Ty::ArrStr => match src.below(8) {
                0 => call("sort", vec![self.gen(src, Ty::ArrStr, sc, d1)]),
                1 => call("reverse", vec![self.gen(src, Ty::ArrStr, sc, d1)]),
                2 => call("map", vec![expref(self.gen(src, Ty::Str, Scope::ObjElem, d1)), self.gen(src, Ty::ArrObj, sc, d1)]),
                3 => call("map", vec![expref(self.gen(src, Ty::Str, Scope::StrElem, d1)), self.gen(src, Ty::ArrStr, sc, d1)]),
                4 => call("sort", vec![call("keys", vec![self.gen(src, Ty::Obj, sc, d1)])]),
                5 => proj(ProjKind::ListWild, self.gen(src, Ty::ArrObj, sc, d1), f("s")),
                6 => call("map", vec![expref(call("to_string", vec![RefExpr::Current])), self.gen(src, Ty::ArrNum, sc, d1)]),
                _ => self.leaf(src, Ty::ArrStr, sc),
            },
            Ty::ArrObj => match src.below(8) {
                0 | 1 => call("sort_by", vec![self.gen(src, Ty::ArrObj, sc, d1), expref(self.by_key(src, d1))]),
                2 => call("reverse", vec![self.gen(src, Ty::ArrObj, sc, d1)]),
                3 => proj(
                    ProjKind::Filter(b(RefExpr::Cmp(*src.pick(&CmpOp::ALL), b(f(*src.pick(&["n", "id"]))), b(self.gen(src, Ty::Num, Scope::ObjElem, d1))))),
                    self.gen(src, Ty::ArrObj, sc, d1),
                    RefExpr::Current,
                ),
                4 => {
                    let (a, c) = (src.range(-3, 4) as i32, src.range(-3, 9) as i32);
                    proj(ProjKind::Slice(if src.flip() { Some(a) } else { None }, if src.flip() { Some(c) } else { None }, *src.pick(&[None, Some(2), Some(-1)])), self.gen(src, Ty::ArrObj, sc, d1), RefExpr::Current)
                }
                5 => call("map", vec![expref(RefExpr::Current), self.gen(src, Ty::ArrObj, sc, d1)]),
                6 => call("map", vec![expref(call("merge", vec![RefExpr::Current, RefExpr::MultiHash(vec![("extra".to_string(), f("id"))])])), self.gen(src, Ty::ArrObj, sc, d1)]),
                _ => self.leaf(src, Ty::ArrObj, sc),
            },
            Ty::Obj => match src.below(7) {
                0 => {
                    let n = 1 + src.below(3);
                    call("merge", (0..n).map(|_| self.gen(src, Ty::Obj, sc, d1)).collect())
                }
                1 => call("max_by", vec![self.gen(src, Ty::ArrObj, sc, d1), expref(self.by_key(src, d1))]),
                2 => call("min_by", vec![self.gen(src, Ty::ArrObj, sc, d1), expref(self.by_key(src, d1))]),
                3 => RefExpr::MultiHash(vec![("x".to_string(), self.gen(src, Ty::Any, sc, d1)), ("y".to_string(), self.gen(src, Ty::Any, sc, d1))]),
                4 => RefExpr::Index(Some(b(self.gen(src, Ty::ArrObj, sc, d1))), src.range(-2, 3) as i32),
                _ => self.leaf(src, Ty::Obj, sc),
            },
            Ty::Any => {
                let t = *src.pick(&[Ty::Num, Ty::Str, Ty::Bool, Ty::ArrNum, Ty::ArrStr, Ty::ArrObj, Ty::Obj]);
                if src.chance(30) {
                    call("to_array", vec![self.gen(src, t, sc, d1)])
                } else {
                    self.gen(src, t, sc, d)
                }
            }
        }
    }
}

pub fn gen_typed(src: &mut Src, max_depth: usize) -> RefExpr {
    let tg = Tg { max_depth };
    let t = *src.pick(&[Ty::Num, Ty::Str, Ty::Bool, Ty::ArrNum, Ty::ArrStr, Ty::ArrObj, Ty::Obj, Ty::Any]);
    tg.gen(src, t, Scope::Root, 0)
}

/// Arbitrary well-typed-or-not argument values for direct calls.
pub fn gen_value_of(src: &mut Src, t: crate::refeval::Ty) -> J {
    use crate::refeval::Ty as T;
    match t {
        T::Number => {
            if src.chance(40) {
                J::Num(N::F(*src.pick(&[0.5, -0.5, 1e15, -1e15, 2.5, -2.5, 1e-7])))
            } else {
                schema_number(src)
            }
        }
        T::Str => {
            if src.chance(36) {
                // numerals and other JSON texts, bare or padded with blanks of every kind
                J::Str(crate::gen_doc::gen_jsonish(src))
            } else if src.chance(100) {
                J::Str(src.pick(STRINGS).to_string())
            } else {
                J::Str(schema_string(src))
            }
        }
        T::Bool => J::Bool(src.flip()),
        T::Null => J::Null,
        T::ArrayNumber => num_array(src, 40),
        T::ArrayString => str_array(src, 40),
        T::Array => match src.below(4) {
            0 => num_array(src, 30),
            1 => str_array(src, 30),
            2 => J::Arr((0..src.below(6)).map(|_| gen_value_of(src, T::Any)).collect()),
            _ => J::Arr((0..src.below(5)).map(|_| gen_value_of(src, T::Object)).collect()),
        },
        T::Object => {
            let mut o = BTreeMap::new();
            for _ in 0..src.below(6) {
                let k = src.pick(&["a", "b", "c", "é", "", "k k", "z"]).to_string();
                let v = match src.below(4) {
                    0 => schema_number(src),
                    1 => J::Str(schema_string(src)),
                    2 => J::Null,
                    _ => J::Arr(vec![schema_number(src)]),
                };
                o.insert(k, v);
            }
            J::Obj(o)
        }
        T::Any | T::Expref => match src.below(7) {
            0 => J::Null,
            1 => J::Bool(src.flip()),
            2 => schema_number(src),
            3 => J::Str(schema_string(src)),
            4 => num_array(src, 6),
            5 => gen_value_of(src, T::Object),
            _ => J::Arr(vec![J::Null, J::s("a")]),
        },
    }
}
