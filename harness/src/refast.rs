//! Reference expression tree (semantic: projection extents are explicit) and
//! the offset-free "shape" vocabulary used to compare against the public Ast.

use crate::model::J;

#[derive(Clone, Copy, Debug, PartialEq, Eq, Hash)]
pub enum CmpOp {
    Eq,
    Ne,
    Lt,
    Le,
    Gt,
    Ge,
}

impl CmpOp {
    pub const ALL: [CmpOp; 6] = [CmpOp::Eq, CmpOp::Ne, CmpOp::Lt, CmpOp::Le, CmpOp::Gt, CmpOp::Ge];
    pub fn text(self) -> &'static str {
        match self {
            CmpOp::Eq => "==",
            CmpOp::Ne => "!=",
            CmpOp::Lt => "<",
            CmpOp::Le => "<=",
            CmpOp::Gt => ">",
            CmpOp::Ge => ">=",
        }
    }
}

#[derive(Clone, Debug)]
pub enum ProjKind {
    ListWild,
    ObjWild,
    Flatten,
    Slice(Option<i32>, Option<i32>, Option<i32>),
    Filter(Box<RefExpr>),
}

#[derive(Clone, Debug)]
pub enum RefExpr {
    /// `@`
    Current,
    /// identifier or quoted identifier (value, not spelling)
    Field(String),
    /// backtick literal or raw string (value)
    Literal(J),
    /// `[n]` (bare) or `subject[n]`
    Index(Option<Box<RefExpr>>, i32),
    /// `subject.step`, step is Field / MultiList / MultiHash / Call (/ Expref)
    Dot(Box<RefExpr>, Box<RefExpr>),
    Pipe(Box<RefExpr>, Box<RefExpr>),
    Or(Box<RefExpr>, Box<RefExpr>),
    And(Box<RefExpr>, Box<RefExpr>),
    Cmp(CmpOp, Box<RefExpr>, Box<RefExpr>),
    Not(Box<RefExpr>),
    Expref(Box<RefExpr>),
    /// A projection with explicit extent: `rhs` is applied to every element.
    /// `rhs == Current` means "no right-hand side".
    Proj {
        kind: ProjKind,
        subject: Option<Box<RefExpr>>,
        rhs: Box<RefExpr>,
    },
    MultiList(Vec<RefExpr>),
    MultiHash(Vec<(String, RefExpr)>),
    Call(String, Vec<RefExpr>),
}

pub fn b(e: RefExpr) -> Box<RefExpr> {
    Box::new(e)
}

impl ProjKind {
    pub fn same(&self, o: &ProjKind) -> bool {
        match (self, o) {
            (ProjKind::ListWild, ProjKind::ListWild) => true,
            (ProjKind::ObjWild, ProjKind::ObjWild) => true,
            (ProjKind::Flatten, ProjKind::Flatten) => true,
            (ProjKind::Slice(a, b, c), ProjKind::Slice(d, e, f)) => a == d && b == e && c.unwrap_or(1) == f.unwrap_or(1),
            (ProjKind::Filter(p), ProjKind::Filter(q)) => p.same(q),
            _ => false,
        }
    }
    pub fn name(&self) -> &'static str {
        match self {
            ProjKind::ListWild => "listwild",
            ProjKind::ObjWild => "objwild",
            ProjKind::Flatten => "flatten",
            ProjKind::Slice(..) => "slice",
            ProjKind::Filter(_) => "filter",
        }
    }
}

impl RefExpr {
    pub fn field(s: &str) -> RefExpr {
        RefExpr::Field(s.to_string())
    }

    /// Structural equality (literal values compared exactly; slice step
    /// omitted == 1).
    pub fn same(&self, o: &RefExpr) -> bool {
        use RefExpr::*;
        match (self, o) {
            (Current, Current) => true,
            (Field(a), Field(b)) => a == b,
            (Literal(a), Literal(b)) => a.exact_eq(b),
            (Index(s1, n1), Index(s2, n2)) => n1 == n2 && opt_same(s1, s2),
            (Dot(a, b), Dot(c, d)) | (Pipe(a, b), Pipe(c, d)) | (Or(a, b), Or(c, d)) | (And(a, b), And(c, d)) => {
                a.same(c) && b.same(d)
            }
            (Cmp(o1, a, b), Cmp(o2, c, d)) => o1 == o2 && a.same(c) && b.same(d),
            (Not(a), Not(b)) | (Expref(a), Expref(b)) => a.same(b),
            (
                Proj { kind: k1, subject: s1, rhs: r1 },
                Proj { kind: k2, subject: s2, rhs: r2 },
            ) => k1.same(k2) && opt_same(s1, s2) && r1.same(r2),
            (MultiList(a), MultiList(b)) => a.len() == b.len() && a.iter().zip(b).all(|(x, y)| x.same(y)),
            (MultiHash(a), MultiHash(b)) => {
                a.len() == b.len() && a.iter().zip(b).all(|((k1, x), (k2, y))| k1 == k2 && x.same(y))
            }
            (Call(n1, a), Call(n2, b)) => n1 == n2 && a.len() == b.len() && a.iter().zip(b).all(|(x, y)| x.same(y)),
            _ => false,
        }
    }

    pub fn kind_name(&self) -> &'static str {
        use RefExpr::*;
        match self {
            Current => "current",
            Field(_) => "field",
            Literal(_) => "literal",
            Index(..) => "index",
            Dot(..) => "dot",
            Pipe(..) => "pipe",
            Or(..) => "or",
            And(..) => "and",
            Cmp(..) => "cmp",
            Not(_) => "not",
            Expref(_) => "expref",
            Proj { kind, .. } => kind.name(),
            MultiList(_) => "multilist",
            MultiHash(_) => "multihash",
            Call(..) => "call",
        }
    }

    pub fn children(&self) -> Vec<&RefExpr> {
        use RefExpr::*;
        match self {
            Current | Field(_) | Literal(_) => vec![],
            Index(s, _) => s.iter().map(|x| &**x).collect(),
            Dot(a, b) | Pipe(a, b) | Or(a, b) | And(a, b) | Cmp(_, a, b) => vec![&**a, &**b],
            Not(a) | Expref(a) => vec![&**a],
            Proj { kind, subject, rhs } => {
                let mut v: Vec<&RefExpr> = subject.iter().map(|x| &**x).collect();
                if let ProjKind::Filter(p) = kind {
                    v.push(&**p);
                }
                v.push(&**rhs);
                v
            }
            MultiList(es) => es.iter().collect(),
            MultiHash(kvs) => kvs.iter().map(|(_, e)| e).collect(),
            Call(_, args) => args.iter().collect(),
        }
    }

    pub fn node_count(&self) -> usize {
        1 + self.children().iter().map(|c| c.node_count()).sum::<usize>()
    }

    pub fn depth(&self) -> usize {
        1 + self.children().iter().map(|c| c.depth()).max().unwrap_or(0)
    }

    /// Visit every node with its parent kind name ("" at the root).
    pub fn walk<'a>(&'a self, parent: &'static str, f: &mut dyn FnMut(&'static str, &'a RefExpr)) {
        f(parent, self);
        let me = self.kind_name();
        for c in self.children() {
            c.walk(me, f);
        }
    }

    pub fn contains(&self, pred: &dyn Fn(&RefExpr) -> bool) -> bool {
        if pred(self) {
            return true;
        }
        self.children().iter().any(|c| c.contains(pred))
    }
}

fn opt_same(a: &Option<Box<RefExpr>>, b: &Option<Box<RefExpr>>) -> bool {
    match (a, b) {
        (None, None) => true,
        (Some(x), Some(y)) => x.same(y),
        _ => false,
    }
}

// ---------------------------------------------------------------------------
// Shape vocabulary: the documented public Ast without offsets.
// ---------------------------------------------------------------------------

#[derive(Clone, Debug)]
pub enum Shape {
    Comparison(CmpOp, Box<Shape>, Box<Shape>),
    Condition(Box<Shape>, Box<Shape>),
    Identity,
    Expref(Box<Shape>),
    Flatten(Box<Shape>),
    Function(String, Vec<Shape>),
    Field(String),
    Index(i32),
    Literal(J),
    MultiList(Vec<Shape>),
    MultiHash(Vec<(String, Shape)>),
    Not(Box<Shape>),
    Projection(Box<Shape>, Box<Shape>),
    ObjectValues(Box<Shape>),
    And(Box<Shape>, Box<Shape>),
    Or(Box<Shape>, Box<Shape>),
    Slice(Option<i32>, Option<i32>, i32),
    Subexpr(Box<Shape>, Box<Shape>),
}

impl Shape {
    pub fn same(&self, o: &Shape) -> bool {
        use Shape::*;
        match (self, o) {
            (Comparison(o1, a, b), Comparison(o2, c, d)) => o1 == o2 && a.same(c) && b.same(d),
            (Condition(a, b), Condition(c, d))
            | (Projection(a, b), Projection(c, d))
            | (And(a, b), And(c, d))
            | (Or(a, b), Or(c, d))
            | (Subexpr(a, b), Subexpr(c, d)) => a.same(c) && b.same(d),
            (Identity, Identity) => true,
            (Expref(a), Expref(b)) | (Flatten(a), Flatten(b)) | (Not(a), Not(b)) | (ObjectValues(a), ObjectValues(b)) => {
                a.same(b)
            }
            (Function(n1, a), Function(n2, b)) => n1 == n2 && a.len() == b.len() && a.iter().zip(b).all(|(x, y)| x.same(y)),
            (Field(a), Field(b)) => a == b,
            (Index(a), Index(b)) => a == b,
            (Literal(a), Literal(b)) => a.exact_eq(b),
            (MultiList(a), MultiList(b)) => a.len() == b.len() && a.iter().zip(b).all(|(x, y)| x.same(y)),
            (MultiHash(a), MultiHash(b)) => {
                a.len() == b.len() && a.iter().zip(b).all(|((k1, x), (k2, y))| k1 == k2 && x.same(y))
            }
            (Slice(a, b, c), Slice(d, e, f)) => a == d && b == e && c == f,
            _ => false,
        }
    }

    pub fn depth(&self) -> usize {
        use Shape::*;
        match self {
            Identity | Field(_) | Index(_) | Literal(_) | Slice(..) => 1,
            Comparison(_, a, b) | Condition(a, b) | Projection(a, b) | And(a, b) | Or(a, b) | Subexpr(a, b) => {
                1 + a.depth().max(b.depth())
            }
            Expref(a) | Flatten(a) | Not(a) | ObjectValues(a) => 1 + a.depth(),
            Function(_, v) | MultiList(v) => 1 + v.iter().map(|x| x.depth()).max().unwrap_or(0),
            MultiHash(v) => 1 + v.iter().map(|x| x.1.depth()).max().unwrap_or(0),
        }
    }
}

fn bs(s: Shape) -> Box<Shape> {
    Box::new(s)
}

/// Map a reference tree to the shape the documented Ast vocabulary gives it.
pub fn lower(e: &RefExpr) -> Shape {
    use RefExpr as R;
    match e {
        R::Current => Shape::Identity,
        R::Field(n) => Shape::Field(n.clone()),
        R::Literal(v) => Shape::Literal(v.clone()),
        R::Index(None, n) => Shape::Index(*n),
        R::Index(Some(s), n) => Shape::Subexpr(bs(lower(s)), bs(Shape::Index(*n))),
        R::Dot(a, c) | R::Pipe(a, c) => Shape::Subexpr(bs(lower(a)), bs(lower(c))),
        R::Or(a, c) => Shape::Or(bs(lower(a)), bs(lower(c))),
        R::And(a, c) => Shape::And(bs(lower(a)), bs(lower(c))),
        R::Cmp(op, a, c) => Shape::Comparison(*op, bs(lower(a)), bs(lower(c))),
        R::Not(a) => Shape::Not(bs(lower(a))),
        R::Expref(a) => Shape::Expref(bs(lower(a))),
        R::MultiList(es) => Shape::MultiList(es.iter().map(lower).collect()),
        R::MultiHash(kvs) => Shape::MultiHash(kvs.iter().map(|(k, v)| (k.clone(), lower(v))).collect()),
        R::Call(n, args) => Shape::Function(n.clone(), args.iter().map(lower).collect()),
        R::Proj { kind, subject, rhs } => {
            let r = bs(lower(rhs));
            let subj = || match subject {
                None => Shape::Identity,
                Some(s) => lower(s),
            };
            match kind {
                ProjKind::ListWild => Shape::Projection(bs(subj()), r),
                ProjKind::ObjWild => Shape::Projection(bs(Shape::ObjectValues(bs(subj()))), r),
                ProjKind::Flatten => Shape::Projection(bs(Shape::Flatten(bs(subj()))), r),
                ProjKind::Filter(p) => Shape::Projection(bs(subj()), bs(Shape::Condition(bs(lower(p)), r))),
                ProjKind::Slice(a, b2, c) => {
                    let p = Shape::Projection(bs(Shape::Slice(*a, *b2, c.unwrap_or(1))), r);
                    match subject {
                        None => p,
                        Some(s) => Shape::Subexpr(bs(lower(s)), bs(p)),
                    }
                }
            }
        }
    }
}
