//! Reference tokenizer, written from the lexical rules in the statement of
//! C03 / C09 (not from lexer.rs).

use crate::model::J;

#[derive(Clone, Debug)]
pub enum T {
    Ident(String),
    QIdent(String),
    Num(i32),
    Lit(J),
    Dot,
    Star,
    Flatten,
    Filter,
    LBracket,
    RBracket,
    LBrace,
    RBrace,
    LParen,
    RParen,
    Comma,
    Colon,
    At,
    Amp,
    And,
    Pipe,
    Or,
    Not,
    Eq,
    Ne,
    Lt,
    Le,
    Gt,
    Ge,
    Eof,
}

impl T {
    pub fn class(&self) -> &'static str {
        match self {
            T::Ident(_) => "id",
            T::QIdent(_) => "qid",
            T::Num(_) => "num",
            T::Lit(_) => "lit",
            T::Dot => ".",
            T::Star => "*",
            T::Flatten => "[]",
            T::Filter => "[?",
            T::LBracket => "[",
            T::RBracket => "]",
            T::LBrace => "{",
            T::RBrace => "}",
            T::LParen => "(",
            T::RParen => ")",
            T::Comma => ",",
            T::Colon => ":",
            T::At => "@",
            T::Amp => "&",
            T::And => "&&",
            T::Pipe => "|",
            T::Or => "||",
            T::Not => "!",
            T::Eq => "==",
            T::Ne => "!=",
            T::Lt => "<",
            T::Le => "<=",
            T::Gt => ">",
            T::Ge => ">=",
            T::Eof => "$",
        }
    }
}

#[derive(Clone, Debug)]
pub struct LexError {
    pub pos: usize,
    pub msg: String,
    /// Set when the only problem is the literal -2147483648 (known finding).
    pub i32_min: bool,
}

pub type Tokens = Vec<(usize, T)>;

fn lexerr(pos: usize, msg: &str) -> LexError {
    LexError { pos, msg: msg.to_string(), i32_min: false }
}

/// Scan a delimited form starting after the opening delimiter at byte `start`.
/// A backslash takes the following character with it.  Returns the body and
/// the byte index just after the closing delimiter.
fn scan_delimited(s: &str, start: usize, delim: char) -> Option<(String, usize)> {
    let mut body = String::new();
    let mut it = s[start..].char_indices();
    while let Some((i, c)) = it.next() {
        if c == delim {
            return Some((body, start + i + c.len_utf8()));
        } else if c == '\\' {
            body.push(c);
            if let Some((_, c2)) = it.next() {
                body.push(c2);
            }
        } else {
            body.push(c);
        }
    }
    None
}

/// Decoders for the three quoted forms, given the raw body between delimiters.
pub fn decode_raw(body: &str) -> String {
    // only backslash-quote is an escape
    let mut out = String::new();
    let cs: Vec<char> = body.chars().collect();
    let mut i = 0;
    while i < cs.len() {
        if cs[i] == '\\' && i + 1 < cs.len() {
            if cs[i + 1] == '\'' {
                out.push('\'');
            } else {
                out.push('\\');
                out.push(cs[i + 1]);
            }
            i += 2;
        } else {
            out.push(cs[i]);
            i += 1;
        }
    }
    out
}

pub fn decode_literal(body: &str) -> Result<J, String> {
    let mut txt = String::new();
    let cs: Vec<char> = body.chars().collect();
    let mut i = 0;
    while i < cs.len() {
        if cs[i] == '\\' && i + 1 < cs.len() {
            if cs[i + 1] == '`' {
                txt.push('`');
            } else {
                txt.push('\\');
                txt.push(cs[i + 1]);
            }
            i += 2;
        } else {
            txt.push(cs[i]);
            i += 1;
        }
    }
    J::parse(&txt)
}

pub fn decode_quoted(body: &str) -> Result<String, String> {
    let txt = format!("\"{}\"", body);
    match serde_json::from_str::<serde_json::Value>(&txt) {
        Ok(serde_json::Value::String(s)) => Ok(s),
        Ok(_) => Err("not a string".into()),
        Err(e) => Err(e.to_string()),
    }
}

pub fn tokenize(s: &str) -> Result<Tokens, LexError> {
    let mut out: Tokens = Vec::new();
    let bytes = s.as_bytes();
    let mut i = 0usize;
    let mut min_literal_seen: Option<usize> = None;
    while i < s.len() {
        let c = s[i..].chars().next().unwrap();
        let start = i;
        match c {
            ' ' | '\t' | '\r' | '\n' => {
                i += 1;
            }
            'a'..='z' | 'A'..='Z' | '_' => {
                let mut j = i + 1;
                while j < s.len() && (bytes[j].is_ascii_alphanumeric() || bytes[j] == b'_') {
                    j += 1;
                }
                out.push((start, T::Ident(s[i..j].to_string())));
                i = j;
            }
            '0'..='9' | '-' => {
                let mut j = i;
                if c == '-' {
                    j += 1;
                    if !(j < s.len() && (b'1'..=b'9').contains(&bytes[j])) {
                        return Err(lexerr(start, "'-' must be followed by 1-9"));
                    }
                }
                let ds = j;
                while j < s.len() && bytes[j].is_ascii_digit() {
                    j += 1;
                }
                let text = &s[ds..j];
                // magnitude as i128 bounded by length
                let sig = text.trim_start_matches('0');
                let mag: i128 = if sig.is_empty() {
                    0
                } else if sig.len() > 30 {
                    i128::MAX
                } else {
                    sig.parse::<i128>().unwrap_or(i128::MAX)
                };
                let val = if c == '-' { -mag } else { mag };
                if val < i32::MIN as i128 || val > i32::MAX as i128 {
                    return Err(lexerr(start, "number does not fit a signed 32-bit integer"));
                }
                if val == i32::MIN as i128 && min_literal_seen.is_none() {
                    min_literal_seen = Some(start);
                }
                out.push((start, T::Num(val as i32)));
                i = j;
            }
            '"' => match scan_delimited(s, i + 1, '"') {
                None => return Err(lexerr(start, "unclosed quoted identifier")),
                Some((body, end)) => match decode_quoted(&body) {
                    Ok(v) => {
                        out.push((start, T::QIdent(v)));
                        i = end;
                    }
                    Err(e) => return Err(lexerr(start, &format!("bad quoted identifier: {}", e))),
                },
            },
            '\'' => match scan_delimited(s, i + 1, '\'') {
                None => return Err(lexerr(start, "unclosed raw string")),
                Some((body, end)) => {
                    out.push((start, T::Lit(J::Str(decode_raw(&body)))));
                    i = end;
                }
            },
            '`' => match scan_delimited(s, i + 1, '`') {
                None => return Err(lexerr(start, "unclosed literal")),
                Some((body, end)) => match decode_literal(&body) {
                    Ok(v) => {
                        out.push((start, T::Lit(v)));
                        i = end;
                    }
                    Err(e) => return Err(lexerr(start, &format!("bad JSON literal: {}", e))),
                },
            },
            _ => {
                let two = |a: u8| i + 1 < s.len() && bytes[i + 1] == a;
                let (tok, len) = match c {
                    '.' => (T::Dot, 1),
                    '*' => (T::Star, 1),
                    '[' => {
                        if two(b']') {
                            (T::Flatten, 2)
                        } else if two(b'?') {
                            (T::Filter, 2)
                        } else {
                            (T::LBracket, 1)
                        }
                    }
                    ']' => (T::RBracket, 1),
                    '{' => (T::LBrace, 1),
                    '}' => (T::RBrace, 1),
                    '(' => (T::LParen, 1),
                    ')' => (T::RParen, 1),
                    ',' => (T::Comma, 1),
                    ':' => (T::Colon, 1),
                    '@' => (T::At, 1),
                    '&' => {
                        if two(b'&') {
                            (T::And, 2)
                        } else {
                            (T::Amp, 1)
                        }
                    }
                    '|' => {
                        if two(b'|') {
                            (T::Or, 2)
                        } else {
                            (T::Pipe, 1)
                        }
                    }
                    '!' => {
                        if two(b'=') {
                            (T::Ne, 2)
                        } else {
                            (T::Not, 1)
                        }
                    }
                    '=' => {
                        if two(b'=') {
                            (T::Eq, 2)
                        } else {
                            return Err(lexerr(start, "single '='"));
                        }
                    }
                    '<' => {
                        if two(b'=') {
                            (T::Le, 2)
                        } else {
                            (T::Lt, 1)
                        }
                    }
                    '>' => {
                        if two(b'=') {
                            (T::Ge, 2)
                        } else {
                            (T::Gt, 1)
                        }
                    }
                    other => return Err(lexerr(start, &format!("invalid character {:?}", other))),
                };
                out.push((start, tok));
                i += len;
            }
        }
    }
    out.push((s.len(), T::Eof));
    let _ = min_literal_seen;
    Ok(out)
}

/// True when the text contains the numeric token -2147483648 (used to key the
/// known finding about the most negative literal).
pub fn has_i32_min_token(toks: &Tokens) -> bool {
    toks.iter().any(|(_, t)| matches!(t, T::Num(n) if *n == i32::MIN))
}
