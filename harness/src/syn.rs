//! Syntax-level tooling shared by C03 / C04 / C05 / C12: lexeme splitting,
//! token soup, mutators over sentences, and the accept/reject comparison.

use serde_json::json;

use crate::gen_doc::{gen_char, DocOpts};
use crate::gen_expr::{gen_expr, ExprOpts};
use crate::imp;
use crate::props::c01::spell_tree;
use crate::refparse::{self, Mode};
use crate::reflex;
use crate::runner::{Failure, Stats};
use crate::src::Src;

/// The complete token vocabulary as lexemes (operands, every operator token,
/// brackets, separators, numbers including extremes, quoted forms).
pub const VOCAB: &[&str] = &[
    "a", "b", "foo", "\"q\"", "'r'", "`1`", "`\"s\"`", "`[1, 2]`", "@", "0", "1", "-1", "2", "2147483647", "-2147483647", "*", ".", "[", "]", "[]",
    "[?", "{", "}", "(", ")", ",", ":", "&", "&&", "|", "||", "!", "!=", "==", "<", "<=", ">", ">=", "length", "sort_by", "abs", "k", "\"\"", "''",
    "`{}`", "-2147483648", "2147483648", "-2147483649", "007", "-0", "-", "=", "`", "'", "\"", "?", "#", "é", "\\", "`1", "'x", "\"y", "-01", "- 1",
    "99999999999999999999", "0000000000001", "00000000000000000000000000000000000000002", "`tru`", "\"\\q\"", "\"\\u00e9\"", "'\\''", "`\"\\`\"`", "\t", "\n",
];

/// Index of the first lexeme in VOCAB that is "unusual" (invalid or extreme).
pub const VOCAB_PLAIN: usize = 45;

pub fn gen_soup(src: &mut Src) -> String {
    let n = 1 + src.below(14);
    let mut out = String::new();
    for i in 0..n {
        let lex = if src.chance(40) { *src.pick(VOCAB) } else { VOCAB[src.below(VOCAB_PLAIN)] };
        if i > 0 && !src.chance(40) {
            out.push(' ');
        }
        out.push_str(lex);
    }
    out
}

/// Split a *lexable* text into lexemes with the whitespace in front of each.
pub fn lexemes(text: &str) -> Option<Vec<(String, String)>> {
    let toks = reflex::tokenize(text).ok()?;
    let mut out = vec![];
    let mut prev_end = 0usize;
    for w in toks.windows(2) {
        let (start, _) = &w[0];
        let (next_start, _) = &w[1];
        // lexeme text = from start to next_start minus trailing whitespace
        let seg = &text[*start..*next_start];
        let trimmed = seg.trim_end_matches(|c| c == ' ' || c == '\t' || c == '\n' || c == '\r');
        let ws = text[prev_end..*start].to_string();
        out.push((ws, trimmed.to_string()));
        prev_end = *start + trimmed.len();
    }
    Some(out)
}

pub fn join_lexemes(ls: &[(String, String)]) -> String {
    let mut s = String::new();
    for (ws, l) in ls {
        s.push_str(ws);
        s.push_str(l);
    }
    s
}

/// A sentence from the tree generator (with calls and exprefs in arguments).
pub fn gen_sentence(src: &mut Src, st: &mut Stats, max_depth: usize) -> Option<String> {
    let doc = crate::gen_doc::gen_doc(src, &DocOpts { max_depth: 2, max_width: 3, ..DocOpts::default() });
    let o = ExprOpts { max_depth, funcs: true, ..ExprOpts::default() };
    let tree = gen_expr(src, 0, Some(&doc), &o);
    spell_tree(&tree, src, st).map(|x| x.0)
}

/// One random edit of a sentence: token-level (delete / insert / replace /
/// duplicate / swap), character-level (delete / insert), truncation, or a
/// splice with another sentence.
pub fn mutate(text: &str, other: &str, src: &mut Src) -> (String, &'static str) {
    let kind = src.below(10);
    if kind <= 5 {
        if let Some(mut ls) = lexemes(text) {
            if ls.is_empty() {
                return (src.pick(VOCAB).to_string(), "tok-insert");
            }
            let i = src.below(ls.len());
            match kind {
                0 => {
                    ls.remove(i);
                    return (join_lexemes(&ls), "tok-delete");
                }
                1 => {
                    let lex = src.pick(VOCAB).to_string();
                    let at = src.below(ls.len() + 1);
                    ls.insert(at, (" ".to_string(), lex));
                    return (join_lexemes(&ls), "tok-insert");
                }
                2 => {
                    ls[i].1 = src.pick(VOCAB).to_string();
                    if ls[i].0.is_empty() {
                        ls[i].0 = " ".to_string();
                    }
                    if i + 1 < ls.len() && ls[i + 1].0.is_empty() {
                        ls[i + 1].0 = " ".to_string();
                    }
                    return (join_lexemes(&ls), "tok-replace");
                }
                3 => {
                    let c = ls[i].clone();
                    ls.insert(i, c);
                    if ls[i + 1].0.is_empty() {
                        ls[i + 1].0 = " ".to_string();
                    }
                    return (join_lexemes(&ls), "tok-duplicate");
                }
                4 => {
                    let j = src.below(ls.len());
                    let (a, b2) = (ls[i].1.clone(), ls[j].1.clone());
                    ls[i].1 = b2;
                    ls[j].1 = a;
                    for k in 0..ls.len() {
                        if k > 0 && ls[k].0.is_empty() {
                            ls[k].0 = " ".to_string();
                        }
                    }
                    return (join_lexemes(&ls), "tok-swap");
                }
                _ => {
                    // splice: head of this, tail of the other
                    if let Some(os) = lexemes(other) {
                        if !os.is_empty() {
                            let j = src.below(os.len());
                            let mut v: Vec<(String, String)> = ls[..i].to_vec();
                            v.extend_from_slice(&os[j..]);
                            return (join_lexemes(&v), "splice");
                        }
                    }
                    ls.truncate(i);
                    return (join_lexemes(&ls), "truncate");
                }
            }
        }
    }
    let cs: Vec<char> = text.chars().collect();
    match kind {
        6 | 7 if !cs.is_empty() => {
            let i = src.below(cs.len());
            let mut v = cs.clone();
            v.remove(i);
            (v.into_iter().collect(), "char-delete")
        }
        8 => {
            let i = src.below(cs.len() + 1);
            let mut v = cs.clone();
            let c = if src.flip() {
                *src.pick(&['\'', '"', '`', '\\', '[', ']', '(', ')', '{', '}', ',', ':', '.', '*', '&', '|', '!', '=', '<', '>', '-', '0', '9', ' ', '@', '?'])
            } else {
                gen_char(src)
            };
            v.insert(i, c);
            (v.into_iter().collect(), "char-insert")
        }
        _ => {
            let i = src.below(cs.len() + 1);
            (cs[..i].iter().collect(), "truncate")
        }
    }
}

#[derive(Debug, Clone, Copy, PartialEq, Eq)]
pub enum Verdict {
    BothAccept,
    BothReject,
}

/// accept/reject agreement between the strict reference grammar and
/// `jmespath::compile` (+ `jmespath::parse`), with known-finding signatures.
pub fn compare_accept(sub: &str, text: &str) -> Result<Verdict, Failure> {
    let case = || json!({"expression": text});
    let strict = refparse::parse(text, Mode::Strict);
    let got = match imp::compiles(text) {
        Ok(r) => r,
        Err(p) => return Err(Failure::new(sub, "panic", format!("compile panicked: {}", p), case())),
    };
    // parse() and compile() must agree with each other
    let parse_ok = match crate::runner::catch(std::panic::AssertUnwindSafe(|| jmespath::parse(text).is_ok())) {
        Ok(b) => b,
        Err(p) => return Err(Failure::new(sub, "panic", format!("parse panicked: {}", p), case())),
    };
    if parse_ok != got.is_ok() {
        return Err(Failure::new(sub, "parse-compile-disagree", format!("parse ok={} compile ok={}", parse_ok, got.is_ok()), case()));
    }
    if let Err(re) = &strict {
        if re.msg.contains("reference parser depth limit") {
            // a limit of the harness: no verdict
            return Ok(if got.is_ok() { Verdict::BothAccept } else { Verdict::BothReject });
        }
    }
    match (&strict, &got) {
        (Ok(_), Ok(())) => Ok(Verdict::BothAccept),
        (Err(_), Err(e)) => {
            if !e.is_parse {
                return Err(Failure::new(sub, "reject-not-parse-error", format!("rejected with {}", e.detail), case()));
            }
            Ok(Verdict::BothReject)
        }
        (Err(re), Ok(())) => {
            // non-sentence accepted
            let relaxed = refparse::parse(text, Mode::RelaxedExpref);
            let sig = if relaxed.is_ok() { "expref-outside-argument" } else { "non-sentence-accepted" };
            Err(Failure::new(sub, sig, format!("not a sentence ({} at byte {}) but compiles", re.msg, re.pos), case()))
        }
        (Ok(_), Err(e)) => {
            let mut sig = "sentence-rejected";
            if text.contains("-2147483648") {
                let alt = text.replace("-2147483648", "-2147483647");
                if let Ok(Ok(())) = imp::compiles(&alt) {
                    sig = "i32-min-literal";
                }
            }
            Err(Failure::new(sub, sig, format!("a sentence of the grammar is rejected: {}", e.detail), case()))
        }
    }
}

pub fn token_classes(text: &str) -> Option<Vec<&'static str>> {
    reflex::tokenize(text).ok().map(|t| t.iter().map(|x| x.1.class()).collect())
}

/// A near-duplicate of an expression: the same text with one small change that
/// a sloppy cache key or normalisation could conflate with the original
/// (whitespace inside quoted forms, letter case, one digit, insignificant
/// whitespace between tokens).  The result may or may not be a sentence.
pub fn near_duplicate(text: &str, src: &mut Src) -> String {
    let cs: Vec<char> = text.chars().collect();
    if cs.is_empty() {
        return " ".to_string();
    }
    // positions inside quoted forms
    let mut inside = vec![false; cs.len()];
    let mut q: Option<char> = None;
    let mut i = 0;
    while i < cs.len() {
        match q {
            None => {
                if cs[i] == '\'' || cs[i] == '"' || cs[i] == '`' {
                    q = Some(cs[i]);
                }
            }
            Some(d) => {
                if cs[i] == '\\' {
                    inside[i] = true;
                    if i + 1 < cs.len() {
                        inside[i + 1] = true;
                    }
                    i += 2;
                    continue;
                }
                if cs[i] == d {
                    q = None;
                } else {
                    inside[i] = true;
                }
            }
        }
        i += 1;
    }
    let pick_pos = |src: &mut Src, pred: &dyn Fn(usize) -> bool| -> Option<usize> {
        let c: Vec<usize> = (0..cs.len()).filter(|i| pred(*i)).collect();
        if c.is_empty() {
            None
        } else {
            Some(c[src.below(c.len())])
        }
    };
    let mut out = cs.clone();
    match src.below(10) {
        9 => {
            // a number inside a backtick literal in another spelling of the same or a neighbouring
            // value (1 / 1.0 / 1e0, 0 / -0.0, 100 / 1e2, n / n+1): caches that compare loosely
            let mut spans: Vec<(usize, usize)> = vec![];
            let mut i = 0;
            while i < cs.len() {
                if cs[i] == '`' {
                    let mut j = i + 1;
                    while j < cs.len() && cs[j].is_ascii_digit() {
                        j += 1;
                    }
                    if j > i + 1 && j < cs.len() && cs[j] == '`' {
                        spans.push((i + 1, j));
                    }
                    i = j.max(i + 1);
                } else {
                    i += 1;
                }
            }
            if spans.is_empty() {
                let lit = *src.pick(&["`1`", "`1.0`", "`0`", "`-0.0`", "`100`", "`1e2`", "`9007199254740992`", "`9007199254740993`", "`0.3`", "`0.30000000000000004`", "`18446744073709551615`", "`18446744073709551616`"]);
                return format!("[{}, {}]", text, lit);
            }
            let (a, b2) = spans[src.below(spans.len())];
            let digits: String = cs[a..b2].iter().collect();
            let respelled = match src.below(5) {
                0 => format!("{}.0", digits),
                1 => format!("{}e0", digits),
                2 => format!("{}.00", digits),
                3 => format!("-{}", digits),
                _ => format!("{}", digits.parse::<u64>().map(|v| v.wrapping_add(1)).unwrap_or(1)),
            };
            let mut o: Vec<char> = cs[..a].to_vec();
            o.extend(respelled.chars());
            o.extend(cs[b2..].iter());
            out = o;
        }
        7 => {
            // a character that some libraries call white space (but the grammar does not) at an end
            let c = *src.pick(WS_LIKE);
            if src.flip() {
                out.push(c);
            } else {
                out.insert(0, c);
            }
        }
        8 => {
            // ... or between two tokens
            let c = *src.pick(WS_LIKE);
            if let Some(p) = pick_pos(src, &|i| !inside[i] && matches!(cs[i], '.' | '|' | ',' | ')' | ']' | '}' | '=' | '<' | '>' | ' ')) {
                out.insert(p, c);
            } else {
                out.push(c);
            }
        }
        0 => {
            // double a space inside a quoted form
            if let Some(p) = pick_pos(src, &|i| inside[i] && cs[i] == ' ') {
                out.insert(p, ' ');
            } else if let Some(p) = pick_pos(src, &|i| inside[i]) {
                out.insert(p, ' ');
            }
        }
        1 => {
            // a space inside a quoted form becomes a tab / is removed
            if let Some(p) = pick_pos(src, &|i| inside[i] && cs[i] == ' ') {
                if src.flip() {
                    out[p] = '\t';
                } else {
                    out.remove(p);
                }
            }
        }
        2 => {
            // letter case
            if let Some(p) = pick_pos(src, &|i| cs[i].is_ascii_alphabetic()) {
                out[p] = if cs[p].is_ascii_lowercase() { cs[p].to_ascii_uppercase() } else { cs[p].to_ascii_lowercase() };
            }
        }
        3 => {
            // one digit
            if let Some(p) = pick_pos(src, &|i| cs[i].is_ascii_digit()) {
                out[p] = if cs[p] == '9' { '8' } else { ((cs[p] as u8) + 1) as char };
            }
        }
        4 => {
            // insignificant whitespace between tokens
            if let Some(p) = pick_pos(src, &|i| !inside[i] && matches!(cs[i], '.' | '|' | ',' | ')' | ']' | '}' | '=' | '<' | '>')) {
                out.insert(p, ' ');
            }
        }
        5 => {
            // swap two neighbouring characters inside a quoted form
            if let Some(p) = pick_pos(src, &|i| inside[i] && i + 1 < cs.len() && inside[i + 1] && cs[i] != cs[i + 1] && cs[i] != '\\' && cs[i + 1] != '\\') {
                out.swap(p, p + 1);
            }
        }
        _ => {
            // trailing / leading whitespace
            if src.flip() {
                out.push(' ');
            } else {
                out.insert(0, '\n');
            }
        }
    }
    out.into_iter().collect()
}

/// Characters that `char::is_whitespace`, `str::trim` or `split_whitespace`
/// treat as blank although the grammar only knows space, tab, CR and LF
/// (plus two invisible non-blanks).
pub const WS_LIKE: &[char] = &[
    '\u{a0}', '\u{b}', '\u{c}', '\u{85}', '\u{1680}', '\u{2003}', '\u{2028}', '\u{2029}', '\u{202f}', '\u{205f}', '\u{3000}', '\u{feff}', '\u{200b}', '\u{0}', '\u{1c}', '\u{1f}',
];

/// A text that is (very probably) not a sentence, failing at different stages:
/// in the lexer after some tokens, in the parser, at the very first character.
pub fn gen_failing_text(src: &mut Src, st: &mut Stats) -> String {
    const LEX_FAIL: &[&str] = &["#", "=", "'abc", "\"abc", "`[1,", "`tru`", "99999999999", "-", "-0", "\"\\q\"", "\u{e9}", "\u{a0}", "`", "a = b", "$", "%"];
    match src.below(4) {
        0 => gen_soup(src),
        1 => {
            let a = gen_sentence(src, st, 2).unwrap_or_else(|| "a".into());
            mutate(&a, "b[0]", src).0
        }
        _ => {
            let a = gen_sentence(src, st, 2).unwrap_or_else(|| "a.b".into());
            let glue = *src.pick(&[" ", " || ", " | ", ".", "", ", ", " == "]);
            let tail = if src.flip() { gen_soup(src) } else { String::new() };
            format!("{}{}{} {}", a, glue, src.pick(LEX_FAIL), tail)
        }
    }
}

/// Compile (and parse) a few failing texts on the current thread, ignoring
/// the outcomes: whatever they leave behind must not influence the case that
/// follows.  Returns the texts so that they become part of the replay file.
pub fn disturb(src: &mut Src, st: &mut Stats) -> Vec<String> {
    let mut out = vec![];
    if !src.chance(64) {
        return out;
    }
    for _ in 0..1 + src.below(3) {
        let t = gen_failing_text(src, st);
        replay_disturbance(&t);
        out.push(t);
    }
    st.class("preceded-by-failing-compiles");
    out
}

pub fn replay_disturbance(t: &str) {
    let _ = crate::runner::catch(std::panic::AssertUnwindSafe(|| {
        let _ = jmespath::parse(t);
        let _ = jmespath::compile(t).map(|e| e.search(jmespath::Variable::Null).is_ok());
    }));
}

/// Enumerated "repeat" family: prefix + unit x k + suffix for every k up to a
/// bound.  Crosses every count-based threshold (64 / 256 operators, token
/// windows, depth counters) at every alignment, deterministically.
pub const REPEAT_FORMS: &[(&str, &str, &str)] = &[
    ("a", "[]", ""),
    ("a", "[]", ".b"),
    ("", "@ | ", "[*].b"),
    ("", "@ | ", "a[*][*]"),
    ("", "@ | ", "a[0][1:]"),
    ("", "a || ", "[*]"),
    ("a", ".a", ""),
    ("a", "[0]", ""),
    ("a", "[*]", ".b"),
    ("a", "[?b]", ""),
    ("a", "[1:]", ""),
    ("a", " == a", ""),
    ("a", " && a", ""),
    ("[", "a[], ", "a]"),
    ("{", "k: a[], ", "z: a}"),
    ("", "[] | ", "(@)"),
    ("length(", "a, ", "a)"),
    ("[", "a[*], ", "b[*]]"),
    ("a", ".*", ""),
    ("a.", "[b].", "b"),
];

pub fn repeat_text(form: usize, k: usize) -> String {
    let (p, u, s) = REPEAT_FORMS[form % REPEAT_FORMS.len()];
    format!("{}{}{}", p, u.repeat(k), s)
}

pub fn repeat_counts(thorough: bool) -> Vec<usize> {
    let max = if thorough { 1100 } else { 600 };
    let mut v: Vec<usize> = (0..=max).collect();
    if thorough {
        v.extend([2047, 2048, 2049, 4096, 4097]);
    }
    v
}

/// A failure seen in the middle of an enumeration is re-run on a fresh thread:
/// alone, and if that passes, after the text that was handled just before it
/// (recorded in the case so that the replay repeats the pair).  A failure that
/// does neither is reported as `flaky` (inconclusive).
fn confirm_fresh<F>(f: &F, text: &str, before: &str, seen: Failure) -> Option<Failure>
where
    F: Fn(&str, &mut Stats) -> Result<(), Failure> + Sync,
{
    let run = |with_before: bool| -> Result<(), Failure> {
        std::thread::scope(|sc| {
            sc.spawn(|| {
                let mut scratch = Stats::new();
                scratch.frozen = true;
                if with_before {
                    replay_disturbance(before);
                }
                f(text, &mut scratch)
            })
            .join()
            .unwrap_or(Ok(()))
        })
    };
    if let Err(fl) = run(false) {
        return Some(fl);
    }
    if let Err(mut fl) = run(true) {
        fl.case["preceded_by_failing_compiles"] = json!([before]);
        return Some(fl);
    }
    let mut fl = seen;
    fl.sig = "flaky".to_string();
    fl.message = format!("{} [seen once in the enumeration; not reproducible on a fresh thread]", fl.message);
    Some(fl)
}

/// Token alphabets for the exhaustive small-scope enumeration.
pub const ENUM_WIDE: &[&str] = &["a", "*", "[", "]", ".", ",", "[?", "[]", ":", "0", "|", "&", "(", ")", "{", "}", "!", "==", "@", "'x'", "-1", "&&"];
pub const ENUM_NARROW: &[&str] = &["a", "*", "[", "]", ".", ",", "[?", "[]", ":", "0", "|", "&"];

/// Every sequence of exactly `len` tokens over `alphabet`, joined with and
/// without blanks, is handed to `f`; the work is split over `threads` by the
/// leading tokens.  Failures with a known-finding signature are only counted.
pub fn enumerate_tokens<F>(alphabet: &[&str], len: usize, threads: usize, env: &crate::runner::Env, st: &mut Stats, f: F) -> Vec<Failure>
where
    F: Fn(&str, &mut Stats) -> Result<(), Failure> + Sync,
{
    let k = alphabet.len();
    let total: u64 = (k as u64).pow(len as u32);
    let next = std::sync::atomic::AtomicU64::new(0);
    let chunk: u64 = 4096;
    let fails: std::sync::Mutex<Vec<Failure>> = std::sync::Mutex::new(vec![]);
    let merged: std::sync::Mutex<Vec<Stats>> = std::sync::Mutex::new(vec![]);
    std::thread::scope(|sc| {
        for _ in 0..threads {
            sc.spawn(|| {
                let mut local = Stats::new();
                let mut idx = vec![0usize; len];
                let mut spaced = String::new();
                let mut tight = String::new();
                let mut prev = String::new();
                loop {
                    let start = next.fetch_add(chunk, std::sync::atomic::Ordering::Relaxed);
                    if start >= total || fails.lock().unwrap().len() >= 10 {
                        break;
                    }
                    for n in start..(start + chunk).min(total) {
                        let mut x = n;
                        for i in (0..len).rev() {
                            idx[i] = (x % k as u64) as usize;
                            x /= k as u64;
                        }
                        spaced.clear();
                        tight.clear();
                        for (i, t) in idx.iter().enumerate() {
                            if i > 0 {
                                spaced.push(' ');
                            }
                            spaced.push_str(alphabet[*t]);
                            tight.push_str(alphabet[*t]);
                        }
                        for text in [&spaced, &tight] {
                            local.eval();
                            let r = f(text, &mut local);
                            let before = std::mem::replace(&mut prev, text.to_string());
                            if let Err(fl) = r {
                                if env.is_known(&fl.sig) {
                                    *local.excluded_known.entry(fl.sig.clone()).or_insert(0) += 1;
                                    continue;
                                }
                                // does it reproduce on a fresh thread, alone or after the text that preceded it?
                                let fl = match confirm_fresh(&f, text, &before, fl) {
                                    Some(fl) => fl,
                                    None => continue,
                                };
                                if env.is_known(&fl.sig) {
                                    *local.excluded_known.entry(fl.sig.clone()).or_insert(0) += 1;
                                } else {
                                    let mut g = fails.lock().unwrap();
                                    if g.len() < 10 {
                                        g.push(fl);
                                    }
                                }
                            }
                        }
                    }
                }
                merged.lock().unwrap().push(local);
            });
        }
    });
    for s in merged.into_inner().unwrap() {
        st.merge(s);
    }
    let mut v = fails.into_inner().unwrap();
    // shortest text first: the smallest counterexample becomes the replay
    v.sort_by_key(|f| (f.sig == "flaky", f.case["expression"].as_str().map(|s| s.len()).unwrap_or(usize::MAX)));
    v
}
