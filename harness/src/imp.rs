//! Thin, panic-capturing wrappers around the implementation's public API.

use jmespath::{ErrorReason, JmespathError, RuntimeError, Variable};

use crate::model::J;
use crate::runner::catch;
use crate::shape::var_to_j;

#[derive(Clone, Debug)]
pub struct ImpErr {
    pub class: String,
    pub detail: String,
    pub offset: usize,
    pub line: usize,
    pub column: usize,
    pub expression: String,
    pub display: String,
    pub is_parse: bool,
}

pub fn classify(e: &JmespathError) -> ImpErr {
    let (class, is_parse) = match &e.reason {
        ErrorReason::Parse(_) => ("Parse".to_string(), true),
        ErrorReason::Runtime(r) => (
            match r {
                RuntimeError::InvalidSlice => "InvalidSlice",
                RuntimeError::TooManyArguments { .. } => "TooManyArguments",
                RuntimeError::NotEnoughArguments { .. } => "NotEnoughArguments",
                RuntimeError::UnknownFunction(_) => "UnknownFunction",
                RuntimeError::InvalidType { .. } => "InvalidType",
                RuntimeError::InvalidReturnType { .. } => "InvalidReturnType",
                // a variant this harness does not know (the enum may grow)
                #[allow(unreachable_patterns)]
                _ => "OtherRuntimeError",
            }
            .to_string(),
            false,
        ),
    };
    ImpErr {
        class,
        detail: format!("{:?}", e.reason),
        offset: e.offset,
        line: e.line,
        column: e.column,
        expression: e.expression.clone(),
        display: e.to_string(),
        is_parse,
    }
}

#[derive(Clone, Debug)]
pub enum ImpOut {
    Ok(J),
    CompileErr(ImpErr),
    SearchErr(ImpErr),
    BadDoc(String),
    Panic(String),
}

impl ImpOut {
    pub fn brief(&self) -> String {
        match self {
            ImpOut::Ok(j) => format!("Ok({})", j.to_json()),
            ImpOut::CompileErr(e) => format!("CompileErr({})", e.detail),
            ImpOut::SearchErr(e) => format!("SearchErr({})", e.detail),
            ImpOut::BadDoc(e) => format!("BadDoc({})", e),
            ImpOut::Panic(p) => format!("Panic({})", p),
        }
    }
}

pub fn compiles(expr: &str) -> Result<Result<(), ImpErr>, String> {
    catch(std::panic::AssertUnwindSafe(|| jmespath::compile(expr).map(|_| ()).map_err(|e| classify(&e))))
}

pub fn search_text(expr: &str, doc_json: &str) -> ImpOut {
    let r = catch(std::panic::AssertUnwindSafe(|| {
        let e = match jmespath::compile(expr) {
            Ok(e) => e,
            Err(err) => return ImpOut::CompileErr(classify(&err)),
        };
        let v = match Variable::from_json(doc_json) {
            Ok(v) => v,
            Err(m) => return ImpOut::BadDoc(m),
        };
        match e.search(v) {
            Ok(r) => ImpOut::Ok(var_to_j(&r)),
            Err(err) => ImpOut::SearchErr(classify(&err)),
        }
    }));
    match r {
        Ok(o) => o,
        Err(p) => ImpOut::Panic(p),
    }
}

pub fn search_j(expr: &str, doc: &J) -> ImpOut {
    search_text(expr, &doc.to_json())
}

/// Search with an expression object assembled by hand: `Expression::new` on a
/// public `Ast` that did not come out of the parser (offsets chosen by the
/// caller, any label as the expression text), bound to `runtime`.
pub fn search_ast(label: &str, ast: jmespath::ast::Ast, runtime: &jmespath::Runtime, doc_json: &str) -> ImpOut {
    let r = catch(std::panic::AssertUnwindSafe(|| {
        let e = jmespath::Expression::new(label, ast, runtime);
        let v = match Variable::from_json(doc_json) {
            Ok(v) => v,
            Err(m) => return ImpOut::BadDoc(m),
        };
        match e.search(v) {
            Ok(r) => ImpOut::Ok(var_to_j(&r)),
            Err(err) => ImpOut::SearchErr(classify(&err)),
        }
    }));
    match r {
        Ok(o) => o,
        Err(p) => ImpOut::Panic(p),
    }
}

/// The hand-built-Ast route must agree with the text route: same value
/// (exactly) or an error of the same kind.  Offsets are all zero, all equal to
/// some constant, or small random numbers (they only matter for error
/// coordinates, which are not compared here).
pub fn ast_route_agrees(sub: &str, tree: &crate::refast::RefExpr, text: &str, doc_json: &str, src: &mut crate::src::Src) -> Result<(), crate::runner::Failure> {
    let mode = src.below(4);
    let c = src.below(40);
    let bytes: Vec<usize> = (0..64).map(|_| src.below(12)).collect();
    let label = src.below(3);
    ast_route_agrees_with(sub, tree, text, doc_json, mode, c, bytes, label)
}

#[allow(clippy::too_many_arguments)]
pub fn ast_route_agrees_with(sub: &str, tree: &crate::refast::RefExpr, text: &str, doc_json: &str, mode: usize, c: usize, mut bytes: Vec<usize>, label: usize) -> Result<(), crate::runner::Failure> {
    let shape = crate::refast::lower(tree);
    let mut k = 0usize;
    if bytes.len() < 64 {
        bytes.resize(64, 0);
    }
    let mut next = move || -> usize {
        k += 1;
        match mode {
            0 => 0,
            1 => c,
            2 => bytes[k % 64],
            _ => {
                bytes[k % 64] += 1;
                k
            }
        }
    };
    let ast = crate::shape::unstrip(&shape, &mut next);
    let label = match label {
        0 => String::new(),
        1 => text.to_string(),
        _ => "hand-built".to_string(),
    };
    let mut rt = jmespath::Runtime::new();
    // the core language does not depend on what is registered: a tree without calls is
    // evaluated on a runtime that has no functions at all (half of the time)
    let has_calls = tree.contains(&|n| matches!(n, crate::refast::RefExpr::Call(..)));
    if has_calls || c % 2 == 0 {
        rt.register_builtin_functions();
    }
    let via_ast = search_ast(&label, ast, &rt, doc_json);
    let via_text = search_text(text, doc_json);
    let same = match (&via_ast, &via_text) {
        (ImpOut::Ok(a), ImpOut::Ok(b)) => a.exact_eq(b),
        (ImpOut::SearchErr(a), ImpOut::SearchErr(b)) => a.class == b.class,
        _ => false,
    };
    let offsets_kind = ["all 0", "all equal", "small random", "counting"][mode];
    // ... and the text compiled by a runtime without any functions
    if same && !has_calls {
        let bare = jmespath::Runtime::new();
        let via_bare = match catch(std::panic::AssertUnwindSafe(|| bare.compile(text).map(|e| e.search(Variable::from_json(doc_json).unwrap())))) {
            Err(p) => ImpOut::Panic(p),
            Ok(Err(e)) => ImpOut::CompileErr(classify(&e)),
            Ok(Ok(Ok(v))) => ImpOut::Ok(var_to_j(&v)),
            Ok(Ok(Err(e))) => ImpOut::SearchErr(classify(&e)),
        };
        let same_bare = match (&via_bare, &via_text) {
            (ImpOut::Ok(a), ImpOut::Ok(b)) => a.exact_eq(b),
            (ImpOut::SearchErr(a), ImpOut::SearchErr(b)) => a.class == b.class,
            _ => false,
        };
        if !same_bare {
            return Err(crate::runner::Failure::new(
                sub,
                "core-expression-depends-on-the-function-registry",
                format!("Runtime::new().compile({}) gives {} but jmespath::compile gives {}", text, via_bare.brief(), via_text.brief()),
                serde_json::json!({"expression": text, "document": doc_json, "runtime": "Runtime::new() without any registered function"}),
            ));
        }
    }
    if same {
        Ok(())
    } else {
        Err(crate::runner::Failure::new(
            sub,
            if matches!(via_ast, ImpOut::Panic(_)) { "panic" } else { "hand-built-ast-differs-from-parsed-expression" },
            format!("Expression::new(<tree of {}>) gives {} but compile({}) gives {}", text, via_ast.brief(), text, via_text.brief()),
            serde_json::json!({"expression": text, "document": doc_json, "offsets": offsets_kind, "label": label}),
        ))
    }
}

/// Search `r` on the *value* that searching `l` returned (the reference-counted
/// result itself, handed back to `search` by value, by reference and as a
/// plain `Variable`), without a trip through JSON text.
pub fn search_chain(l: &str, r: &str, doc_json: &str) -> Vec<ImpOut> {
    let res = catch(std::panic::AssertUnwindSafe(|| {
        let (le, re) = match (jmespath::compile(l), jmespath::compile(r)) {
            (Ok(a), Ok(b)) => (a, b),
            (Err(e), _) | (_, Err(e)) => return vec![ImpOut::CompileErr(classify(&e))],
        };
        let v = match Variable::from_json(doc_json) {
            Ok(v) => v,
            Err(m) => return vec![ImpOut::BadDoc(m)],
        };
        let mid = match le.search(v) {
            Ok(m) => m,
            Err(e) => return vec![ImpOut::SearchErr(classify(&e))],
        };
        let out = |x: Result<jmespath::Rcvar, jmespath::JmespathError>| match x {
            Ok(r) => ImpOut::Ok(var_to_j(&r)),
            Err(e) => ImpOut::SearchErr(classify(&e)),
        };
        vec![out(re.search(mid.clone())), out(re.search(&mid)), out(re.search((*mid).clone())), out(re.search(&*mid))]
    }));
    match res {
        Ok(v) => v,
        Err(p) => vec![ImpOut::Panic(p)],
    }
}
