//! Thin, panic-capturing wrappers around the implementation's public API.

use jmespath::{ErrorReason, JmespathError, RuntimeError, Variable};

use crate::model::J;
use crate::runner::catch;
use crate::shape::var_to_j;

#[derive(Clone, Debug)]
pub struct ImpErr {
    pub class: String,
    pub detail: String,
    pub offset: usize,
    pub line: usize,
    pub column: usize,
    pub expression: String,
    pub display: String,
    pub is_parse: bool,
}

pub fn classify(e: &JmespathError) -> ImpErr {
    let (class, is_parse) = match &e.reason {
        ErrorReason::Parse(_) => ("Parse".to_string(), true),
        ErrorReason::Runtime(r) => (
            match r {
                RuntimeError::InvalidSlice => "InvalidSlice",
                RuntimeError::TooManyArguments { .. } => "TooManyArguments",
                RuntimeError::NotEnoughArguments { .. } => "NotEnoughArguments",
                RuntimeError::UnknownFunction(_) => "UnknownFunction",
                RuntimeError::InvalidType { .. } => "InvalidType",
                RuntimeError::InvalidReturnType { .. } => "InvalidReturnType",
                // a variant this harness does not know (the enum may grow)
                #[allow(unreachable_patterns)]
                _ => "OtherRuntimeError",
            }
            .to_string(),
            false,
        ),
    };
    ImpErr {
        class,
        detail: format!("{:?}", e.reason),
        offset: e.offset,
        line: e.line,
        column: e.column,
        expression: e.expression.clone(),
        display: e.to_string(),
        is_parse,
    }
}

#[derive(Clone, Debug)]
pub enum ImpOut {
    Ok(J),
    CompileErr(ImpErr),
    SearchErr(ImpErr),
    BadDoc(String),
    Panic(String),
}

impl ImpOut {
    pub fn brief(&self) -> String {
        match self {
            ImpOut::Ok(j) => format!("Ok({})", j.to_json()),
            ImpOut::CompileErr(e) => format!("CompileErr({})", e.detail),
            ImpOut::SearchErr(e) => format!("SearchErr({})", e.detail),
            ImpOut::BadDoc(e) => format!("BadDoc({})", e),
            ImpOut::Panic(p) => format!("Panic({})", p),
        }
    }
}

pub fn compiles(expr: &str) -> Result<Result<(), ImpErr>, String> {
    catch(std::panic::AssertUnwindSafe(|| jmespath::compile(expr).map(|_| ()).map_err(|e| classify(&e))))
}

pub fn search_text(expr: &str, doc_json: &str) -> ImpOut {
    let r = catch(std::panic::AssertUnwindSafe(|| {
        let e = match jmespath::compile(expr) {
            Ok(e) => e,
            Err(err) => return ImpOut::CompileErr(classify(&err)),
        };
        let v = match Variable::from_json(doc_json) {
            Ok(v) => v,
            Err(m) => return ImpOut::BadDoc(m),
        };
        match e.search(v) {
            Ok(r) => ImpOut::Ok(var_to_j(&r)),
            Err(err) => ImpOut::SearchErr(classify(&err)),
        }
    }));
    match r {
        Ok(o) => o,
        Err(p) => ImpOut::Panic(p),
    }
}

pub fn search_j(expr: &str, doc: &J) -> ImpOut {
    search_text(expr, &doc.to_json())
}
