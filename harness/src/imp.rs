//! Thin, panic-capturing wrappers around the implementation's public API.

use jmespath::{ErrorReason, JmespathError, RuntimeError, Variable};

use crate::model::J;
use crate::runner::{catch, clip};
use crate::shape::var_to_j;

#[derive(Clone, Debug)]
pub struct ImpErr {
    pub class: String,
    pub detail: String,
    pub offset: usize,
    pub line: usize,
    pub column: usize,
    pub expression: String,
    pub display: String,
    /// Display of the reason alone ("Parse error: ...", "Runtime error: ...")
    pub reason_display: String,
    pub is_parse: bool,
}

pub fn classify(e: &JmespathError) -> ImpErr {
    let (class, is_parse) = match &e.reason {
        ErrorReason::Parse(_) => ("Parse".to_string(), true),
        ErrorReason::Runtime(r) => (
            match r {
                RuntimeError::InvalidSlice => "InvalidSlice",
                RuntimeError::TooManyArguments { .. } => "TooManyArguments",
                RuntimeError::NotEnoughArguments { .. } => "NotEnoughArguments",
                RuntimeError::UnknownFunction(_) => "UnknownFunction",
                RuntimeError::InvalidType { .. } => "InvalidType",
                RuntimeError::InvalidReturnType { .. } => "InvalidReturnType",
                // a variant this harness does not know (the enum may grow)
                #[allow(unreachable_patterns)]
                _ => "OtherRuntimeError",
            }
            .to_string(),
            false,
        ),
    };
    ImpErr {
        class,
        detail: format!("{:?}", e.reason),
        offset: e.offset,
        line: e.line,
        column: e.column,
        expression: e.expression.clone(),
        display: e.to_string(),
        reason_display: e.reason.to_string(),
        is_parse,
    }
}

#[derive(Clone, Debug)]
pub enum ImpOut {
    Ok(J),
    CompileErr(ImpErr),
    SearchErr(ImpErr),
    BadDoc(String),
    Panic(String),
}

impl ImpOut {
    pub fn brief(&self) -> String {
        match self {
            ImpOut::Ok(j) => format!("Ok({})", j.to_json()),
            ImpOut::CompileErr(e) => format!("CompileErr({})", e.detail),
            ImpOut::SearchErr(e) => format!("SearchErr({})", e.detail),
            ImpOut::BadDoc(e) => format!("BadDoc({})", e),
            ImpOut::Panic(p) => format!("Panic({})", p),
        }
    }
}

pub fn compiles(expr: &str) -> Result<Result<(), ImpErr>, String> {
    catch(std::panic::AssertUnwindSafe(|| jmespath::compile(expr).map(|_| ()).map_err(|e| classify(&e))))
}

pub fn search_text(expr: &str, doc_json: &str) -> ImpOut {
    let r = catch(std::panic::AssertUnwindSafe(|| {
        let e = match jmespath::compile(expr) {
            Ok(e) => e,
            Err(err) => return ImpOut::CompileErr(classify(&err)),
        };
        let v = match Variable::from_json(doc_json) {
            Ok(v) => v,
            Err(m) => return ImpOut::BadDoc(m),
        };
        match e.search(v) {
            Ok(r) => ImpOut::Ok(var_to_j(&r)),
            Err(err) => ImpOut::SearchErr(classify(&err)),
        }
    }));
    match r {
        Ok(o) => o,
        Err(p) => ImpOut::Panic(p),
    }
}

pub fn search_j(expr: &str, doc: &J) -> ImpOut {
    search_text(expr, &doc.to_json())
}

/// Search with an expression object assembled by hand: `Expression::new` on a
/// public `Ast` that did not come out of the parser (offsets chosen by the
/// caller, any label as the expression text), bound to `runtime`.
pub fn search_ast(label: &str, ast: jmespath::ast::Ast, runtime: &jmespath::Runtime, doc_json: &str) -> ImpOut {
    let r = catch(std::panic::AssertUnwindSafe(|| {
        let e = jmespath::Expression::new(label, ast, runtime);
        let v = match Variable::from_json(doc_json) {
            Ok(v) => v,
            Err(m) => return ImpOut::BadDoc(m),
        };
        match e.search(v) {
            Ok(r) => ImpOut::Ok(var_to_j(&r)),
            Err(err) => ImpOut::SearchErr(classify(&err)),
        }
    }));
    match r {
        Ok(o) => o,
        Err(p) => ImpOut::Panic(p),
    }
}

/// The hand-built-Ast route must agree with the text route: same value
/// (exactly) or an error of the same kind.  Offsets are all zero, all equal to
/// some constant, or small random numbers (they only matter for error
/// coordinates, which are not compared here).
pub fn ast_route_agrees(sub: &str, tree: &crate::refast::RefExpr, text: &str, doc_json: &str, src: &mut crate::src::Src) -> Result<(), crate::runner::Failure> {
    let mode = src.below(4);
    let c = src.below(40);
    let bytes: Vec<usize> = (0..64).map(|_| src.below(12)).collect();
    let label = src.below(3);
    ast_route_agrees_with(sub, tree, text, doc_json, mode, c, bytes, label)
}

#[allow(clippy::too_many_arguments)]
pub fn ast_route_agrees_with(sub: &str, tree: &crate::refast::RefExpr, text: &str, doc_json: &str, mode: usize, c: usize, mut bytes: Vec<usize>, label: usize) -> Result<(), crate::runner::Failure> {
    let shape = crate::refast::lower(tree);
    let mut k = 0usize;
    if bytes.len() < 64 {
        bytes.resize(64, 0);
    }
    let mut next = move || -> usize {
        k += 1;
        match mode {
            0 => 0,
            1 => c,
            2 => bytes[k % 64],
            _ => {
                bytes[k % 64] += 1;
                k
            }
        }
    };
    let ast = crate::shape::unstrip(&shape, &mut next);
    let label = match label {
        0 => String::new(),
        1 => text.to_string(),
        _ => "hand-built".to_string(),
    };
    let mut rt = jmespath::Runtime::new();
    // the core language does not depend on what is registered: a tree without calls is
    // evaluated on a runtime that has no functions at all (half of the time)
    let has_calls = tree.contains(&|n| matches!(n, crate::refast::RefExpr::Call(..)));
    if has_calls || c % 2 == 0 {
        rt.register_builtin_functions();
    }
    let via_ast = search_ast(&label, ast, &rt, doc_json);
    let via_text = search_text(text, doc_json);
    let same = match (&via_ast, &via_text) {
        (ImpOut::Ok(a), ImpOut::Ok(b)) => a.exact_eq(b),
        (ImpOut::SearchErr(a), ImpOut::SearchErr(b)) => a.class == b.class,
        _ => false,
    };
    let offsets_kind = ["all 0", "all equal", "small random", "counting"][mode];
    // ... and the text compiled by a runtime without any functions
    if same && !has_calls {
        let bare = jmespath::Runtime::new();
        let via_bare = match catch(std::panic::AssertUnwindSafe(|| bare.compile(text).map(|e| e.search(Variable::from_json(doc_json).unwrap())))) {
            Err(p) => ImpOut::Panic(p),
            Ok(Err(e)) => ImpOut::CompileErr(classify(&e)),
            Ok(Ok(Ok(v))) => ImpOut::Ok(var_to_j(&v)),
            Ok(Ok(Err(e))) => ImpOut::SearchErr(classify(&e)),
        };
        let same_bare = match (&via_bare, &via_text) {
            (ImpOut::Ok(a), ImpOut::Ok(b)) => a.exact_eq(b),
            (ImpOut::SearchErr(a), ImpOut::SearchErr(b)) => a.class == b.class,
            _ => false,
        };
        if !same_bare {
            return Err(crate::runner::Failure::new(
                sub,
                "core-expression-depends-on-the-function-registry",
                format!("Runtime::new().compile({}) gives {} but jmespath::compile gives {}", text, via_bare.brief(), via_text.brief()),
                serde_json::json!({"expression": text, "document": doc_json, "runtime": "Runtime::new() without any registered function"}),
            ));
        }
    }
    if same {
        Ok(())
    } else {
        Err(crate::runner::Failure::new(
            sub,
            if matches!(via_ast, ImpOut::Panic(_)) { "panic" } else { "hand-built-ast-differs-from-parsed-expression" },
            format!("Expression::new(<tree of {}>) gives {} but compile({}) gives {}", text, via_ast.brief(), text, via_text.brief()),
            serde_json::json!({"expression": text, "document": doc_json, "offsets": offsets_kind, "label": label}),
        ))
    }
}

/// Search `r` on the *value* that searching `l` returned (the reference-counted
/// result itself, handed back to `search` by value, by reference and as a
/// plain `Variable`), without a trip through JSON text.
pub fn search_chain(l: &str, r: &str, doc_json: &str) -> Vec<ImpOut> {
    let res = catch(std::panic::AssertUnwindSafe(|| {
        let (le, re) = match (jmespath::compile(l), jmespath::compile(r)) {
            (Ok(a), Ok(b)) => (a, b),
            (Err(e), _) | (_, Err(e)) => return vec![ImpOut::CompileErr(classify(&e))],
        };
        let v = match Variable::from_json(doc_json) {
            Ok(v) => v,
            Err(m) => return vec![ImpOut::BadDoc(m)],
        };
        let mid = match le.search(v) {
            Ok(m) => m,
            Err(e) => return vec![ImpOut::SearchErr(classify(&e))],
        };
        let out = |x: Result<jmespath::Rcvar, jmespath::JmespathError>| match x {
            Ok(r) => ImpOut::Ok(var_to_j(&r)),
            Err(e) => ImpOut::SearchErr(classify(&e)),
        };
        vec![out(re.search(mid.clone())), out(re.search(&mid)), out(re.search((*mid).clone())), out(re.search(&*mid))]
    }));
    match res {
        Ok(v) => v,
        Err(p) => vec![ImpOut::Panic(p)],
    }
}

// ---------------------------------------------------------------------------
// data-in routes

/// A JSON document handed to a serializer through the less common serde calls:
/// strings as `char`s or unit enum variants, null as unit / `None` / unit struct,
/// arrays as tuples or tuple structs, objects as structs or maps of unknown
/// length, integers at their narrowest width, `Some(..)` and newtype structs
/// around anything.  Under serde_json every one of these calls denotes the same
/// JSON value as the plain one, so the value denotes the same document.
pub struct SerdeCalls<'a> {
    pub v: &'a serde_json::Value,
    pub salt: u64,
}

fn intern(s: &str) -> Option<&'static str> {
    use std::collections::HashMap;
    use std::sync::{Mutex, OnceLock};
    static TABLE: OnceLock<Mutex<HashMap<String, &'static str>>> = OnceLock::new();
    if s.len() > 12 {
        return None;
    }
    let mut t = TABLE.get_or_init(|| Mutex::new(HashMap::new())).lock().unwrap();
    if let Some(x) = t.get(s) {
        return Some(x);
    }
    if t.len() >= 20_000 {
        return None;
    }
    let leaked: &'static str = Box::leak(s.to_string().into_boxed_str());
    t.insert(s.to_string(), leaked);
    Some(leaked)
}

impl serde::Serialize for SerdeCalls<'_> {
    fn serialize<S: serde::Serializer>(&self, s: S) -> Result<S::Ok, S::Error> {
        use serde::ser::{SerializeMap, SerializeSeq, SerializeStruct, SerializeTuple, SerializeTupleStruct};
        use serde_json::Value;
        let h = self.salt.wrapping_mul(0x9E37_79B9_7F4A_7C15).rotate_left(23) ^ (self.salt >> 7);
        let child = |v, k: usize| SerdeCalls { v, salt: h.wrapping_add(k as u64).wrapping_mul(6364136223846793005).wrapping_add(1442695040888963407) };
        // wrappers that serde_json treats as transparent
        match h % 11 {
            0 => return s.serialize_some(&SerdeCalls { v: self.v, salt: h | 1 << 60 }),
            1 => return s.serialize_newtype_struct("Wrapper", &SerdeCalls { v: self.v, salt: h | 1 << 61 }),
            _ => {}
        }
        let pick = (h >> 8) % 4;
        match self.v {
            Value::Null => match pick {
                0 => s.serialize_unit(),
                1 => s.serialize_none(),
                _ => s.serialize_unit_struct("Nothing"),
            },
            Value::Bool(b) => s.serialize_bool(*b),
            Value::Number(n) => {
                if let Some(i) = n.as_i64() {
                    match pick {
                        0 if i8::try_from(i).is_ok() => s.serialize_i8(i as i8),
                        0 if i16::try_from(i).is_ok() => s.serialize_i16(i as i16),
                        0 if i32::try_from(i).is_ok() => s.serialize_i32(i as i32),
                        1 if u8::try_from(i).is_ok() => s.serialize_u8(i as u8),
                        1 if u16::try_from(i).is_ok() => s.serialize_u16(i as u16),
                        1 if u32::try_from(i).is_ok() => s.serialize_u32(i as u32),
                        2 if i >= 0 => s.serialize_u64(i as u64),
                        _ => s.serialize_i64(i),
                    }
                } else if let Some(u) = n.as_u64() {
                    s.serialize_u64(u)
                } else {
                    s.serialize_f64(n.as_f64().unwrap_or(0.0))
                }
            }
            Value::String(x) => {
                let mut it = x.chars();
                match (pick, it.next(), it.next()) {
                    (0, Some(c), None) => s.serialize_char(c),
                    (1, _, _) | (2, _, _) => match intern(x) {
                        Some(st) => s.serialize_unit_variant("Kind", (h >> 16) as u32 % 7, st),
                        None => s.serialize_str(x),
                    },
                    _ => s.serialize_str(x),
                }
            }
            Value::Array(a) if (h >> 12) % 3 == 0 && !a.is_empty() && a.iter().all(|x| x.as_u64().map_or(false, |u| u <= 255)) => {
                // a byte string
                let bytes: Vec<u8> = a.iter().map(|x| x.as_u64().unwrap_or(0) as u8).collect();
                s.serialize_bytes(&bytes)
            }
            Value::Array(a) => match pick {
                0 => {
                    let mut t = s.serialize_tuple(a.len())?;
                    for (k, x) in a.iter().enumerate() {
                        t.serialize_element(&child(x, k))?;
                    }
                    t.end()
                }
                1 => {
                    let mut t = s.serialize_tuple_struct("Tuple", a.len())?;
                    for (k, x) in a.iter().enumerate() {
                        t.serialize_field(&child(x, k))?;
                    }
                    t.end()
                }
                _ => {
                    let mut t = s.serialize_seq(if pick == 2 { Some(a.len()) } else { None })?;
                    for (k, x) in a.iter().enumerate() {
                        t.serialize_element(&child(x, k))?;
                    }
                    t.end()
                }
            },
            Value::Object(o) => {
                let keys: Option<Vec<&'static str>> = if pick < 2 { o.keys().map(|k| intern(k)).collect() } else { None };
                match keys {
                    Some(keys) => {
                        let mut t = s.serialize_struct("Record", o.len())?;
                        for (k, (key, x)) in keys.iter().zip(o.values()).enumerate() {
                            t.serialize_field(key, &child(x, k))?;
                        }
                        t.end()
                    }
                    None => {
                        let mut t = s.serialize_map(if pick == 2 { Some(o.len()) } else { None })?;
                        for (k, (key, x)) in o.iter().enumerate() {
                            if k % 2 == 0 {
                                t.serialize_entry(key, &child(x, k))?;
                            } else {
                                t.serialize_key(key)?;
                                t.serialize_value(&child(x, k))?;
                            }
                        }
                        t.end()
                    }
                }
            }
        }
    }
}

/// Every way of handing the same JSON document to `search` gives the same outcome:
/// the parsed text, a borrowed or owned `serde_json::Value`, `Variable::try_from`
/// of either, an `Rcvar`, a borrowed `Variable`, and a Rust value that reaches the
/// serializer through the less common serde calls.  Compared exactly (serialised
/// result or error with coordinates) against the parsed-text route.
pub fn data_routes_agree(sub: &str, text: &str, doc_json: &str, salt: u64) -> Result<(), crate::runner::Failure> {
    use std::convert::TryFrom;
    use std::panic::AssertUnwindSafe;
    let fail = |sig: &str, msg: String| crate::runner::Failure::new(sub, sig, msg, serde_json::json!({"expression": text, "document": doc_json, "salt": salt}));
    let compiled = match jmespath::compile(text) {
        Ok(c) => c,
        Err(_) => return Ok(()),
    };
    let value: serde_json::Value = match serde_json::from_str(doc_json) {
        Ok(v) => v,
        Err(_) => return Ok(()),
    };
    // the serializer calls must denote the same document under serde_json itself
    let calls = SerdeCalls { v: &value, salt };
    match serde_json::to_value(&calls) {
        Ok(v2) if v2 == value => {}
        other => return Err(fail("harness-serde-calls-denote-another-document", format!("serde_json maps the call sequence to {:?}", other.map(|v| v.to_string())))),
    }
    let show = |r: Result<jmespath::Rcvar, JmespathError>| -> String {
        match r {
            Ok(v) => format!("Ok({})", serde_json::to_string(&*v).unwrap_or_else(|e| format!("<unserialisable: {}>", e))),
            Err(e) => format!("Err({:?} offset {} line {} column {})", e.reason, e.offset, e.line, e.column),
        }
    };
    let base_var = match Variable::from_json(doc_json) {
        Ok(v) => v,
        Err(_) => return Ok(()),
    };
    let run = |label: &str, f: &dyn Fn() -> Result<jmespath::Rcvar, JmespathError>| -> Result<String, crate::runner::Failure> {
        match catch(AssertUnwindSafe(f)) {
            Ok(r) => Ok(show(r)),
            Err(p) => Err(fail("panic", format!("search through the {} route panicked: {}", label, p))),
        }
    };
    let base = run("parsed-text", &|| compiled.search(base_var.clone()))?;
    let rc = jmespath::Rcvar::new(base_var.clone());
    let routes: Vec<(&str, Box<dyn Fn() -> Result<jmespath::Rcvar, JmespathError> + '_>)> = vec![
        ("&serde_json::Value", Box::new(|| compiled.search(&value))),
        ("owned serde_json::Value", Box::new(|| compiled.search(value.clone()))),
        ("Variable::try_from(owned Value)", Box::new(|| compiled.search(Variable::try_from(value.clone())?))),
        ("Variable::try_from(&Value)", Box::new(|| compiled.search(Variable::try_from(&value)?))),
        ("Rcvar", Box::new(|| compiled.search(rc.clone()))),
        ("&Rcvar", Box::new(|| compiled.search(&rc))),
        ("&Variable", Box::new(|| compiled.search(&base_var))),
        ("Rust value (uncommon serde calls)", Box::new(|| compiled.search(SerdeCalls { v: &value, salt }))),
        ("Variable::from_serializable(Rust value)", Box::new(|| compiled.search(Variable::from_serializable(SerdeCalls { v: &value, salt: salt ^ 0x5555 })?))),
    ];
    for (label, f) in routes.iter() {
        let got = run(label, f.as_ref())?;
        if got != base {
            return Err(fail("data-route-changes-the-result", format!("{} on the document handed in as {} gives {} but on the parsed text it gives {}", text, label, clip(&got, 300), clip(&base, 300))));
        }
    }
    Ok(())
}


/// Does the independent reference evaluator say that this (expression, document) pair
/// computes a non-finite aggregate (sum / avg overflowing a double), i.e. the situation of the
/// recorded finding "non-finite aggregate reported as a parse error"?  Decided from the input
/// alone, never from the wording of the implementation's message.
pub fn reference_says_nonfinite(text: &str, doc_json: &str) -> bool {
    let tree = match crate::refparse::parse(text, crate::refparse::Mode::RelaxedExpref) {
        Ok(t) => t,
        Err(_) => return false,
    };
    let doc = match J::parse(doc_json) {
        Ok(d) => d,
        Err(_) => return false,
    };
    let mut cx = crate::refeval::Ctx::default();
    matches!(crate::refeval::eval(&tree, &doc, &mut cx), Err(crate::refeval::EvalErr::Unspecified(m)) if m.contains("non-finite"))
}

/// One compiled expression searched on several documents in a row (and a clone of it made
/// after the first search): every outcome must be the outcome of a freshly compiled
/// expression on that document.  What a compound form means depends on the results of its
/// parts for *this* document, never on an earlier one.
pub fn reuse_agrees(sub: &str, text: &str, docs: &[&str]) -> Result<(), crate::runner::Failure> {
    let compiled = match jmespath::compile(text) {
        Ok(c) => c,
        Err(_) => return Ok(()),
    };
    let show = |r: Result<jmespath::Rcvar, JmespathError>| -> String {
        match r {
            Ok(v) => format!("Ok({})", serde_json::to_string(&*v).unwrap_or_else(|e| format!("<unserialisable: {}>", e))),
            Err(e) => format!("Err({:?} offset {})", e.reason, e.offset),
        }
    };
    let mut cloned: Option<jmespath::Expression<'static>> = None;
    for (k, d) in docs.iter().enumerate() {
        let var = match Variable::from_json(d) {
            Ok(v) => v,
            Err(_) => continue,
        };
        let fresh = match jmespath::compile(text) {
            Ok(c) => c,
            Err(_) => return Ok(()),
        };
        let want = match catch(std::panic::AssertUnwindSafe(|| fresh.search(var.clone()))) {
            Ok(r) => show(r),
            Err(p) => format!("panic {}", p),
        };
        for (label, e) in [("the expression compiled once", Some(&compiled)), ("a clone made after the first search", cloned.as_ref())] {
            if let Some(e) = e {
                let got = match catch(std::panic::AssertUnwindSafe(|| e.search(var.clone()))) {
                    Ok(r) => show(r),
                    Err(p) => format!("panic {}", p),
                };
                if got != want {
                    return Err(crate::runner::Failure::new(
                        sub,
                        "compound-depends-on-an-earlier-document",
                        format!("{} searched on document {} of the sequence gives {} through {} but a freshly compiled expression gives {}", text, k, clip(&got, 300), label, clip(&want, 300)),
                        serde_json::json!({"expression": text, "documents": docs}),
                    ));
                }
            }
        }
        if k == 0 {
            cloned = Some(compiled.clone());
        }
    }
    Ok(())
}
