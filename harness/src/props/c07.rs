//! C07 — slices and indexes.

use serde_json::{json, Value};

use crate::imp::{search_text, ImpOut};
use crate::model::J;
use crate::refeval::{index_of, slice_indices};
use crate::runner::*;
use crate::shape::var_to_j;
use crate::src::Src;

pub const RULE: &str = "enumeration of array lengths 0..7 x start/stop in {omitted, -9..9, +-(2^31-1), +-(2^31-2), -2^31} x step in {omitted, -5..5, +-(2^31-1), +-(2^31-2), -2^31, 2^30} through expression text, through Variable::slice, through serde_json::Value / Rust-collection inputs (inside an object and with the array itself as the document) and with the result read back through serde; random triples over the whole i32 range on arrays up to 40 elements; non-array subjects of every type; all indexes -12..12 and extremes; oracle = independent transcription of Python's slice.indices + range in 128-bit arithmetic; non-trivial = triple in a boundary regime (an endpoint omitted, negative, or beyond either end, or |step| > len); distinct by (len, start, stop, step)";

fn opt_text(v: Option<i32>) -> String {
    v.map(|x| x.to_string()).unwrap_or_default()
}

fn slice_expr(start: Option<i32>, stop: Option<i32>, step: Option<i32>) -> String {
    match step {
        None => format!("xs[{}:{}]", opt_text(start), opt_text(stop)),
        Some(s) => format!("xs[{}:{}:{}]", opt_text(start), opt_text(stop), s),
    }
}

fn arr(len: usize) -> J {
    J::Arr((0..len).map(|i| J::int(i as i64)).collect())
}

fn regime(len: usize, v: Option<i32>) -> &'static str {
    let len = len as i64;
    match v {
        None => "omitted",
        Some(x) if (x as i64) < -len => "below",
        Some(x) if x < 0 => "negative",
        Some(x) if (x as i64) >= len => "beyond",
        _ => "inside",
    }
}

fn check_slice(sub: &str, len: usize, start: Option<i32>, stop: Option<i32>, step: Option<i32>, st: &mut Stats, via_api: bool) -> CaseResult {
    let case = json!({"len": len, "start": start, "stop": stop, "step": step});
    let stepv = step.unwrap_or(1);
    let doc = json!({"xs": (0..len).collect::<Vec<usize>>()}).to_string();
    let text = slice_expr(start, stop, step);
    st.eval();
    let got = search_text(&text, &doc);
    if stepv == 0 {
        return match got {
            ImpOut::SearchErr(e) if e.class == "InvalidSlice" => Ok(()),
            other => Err(Failure::new(sub, "step-zero-not-invalid-slice", format!("{} gave {}", text, other.brief()), case)),
        };
    }
    let want: Vec<J> = slice_indices(len, start, stop, stepv).into_iter().map(|i| J::int(i as i64)).collect();
    let want = J::Arr(want);
    match &got {
        ImpOut::Ok(g) if g.deep_eq(&want) => {}
        ImpOut::Panic(p) => return Err(Failure::new(sub, "panic", format!("{} panicked: {}", text, p), case)),
        other => {
            return Err(Failure::new(sub, "wrong-slice", format!("{} on {} elements gave {} expected {}", text, len, other.brief(), want.to_json()), case))
        }
    }
    if via_api {
        // the same array handed over in other ways: as a serde_json::Value (owned, borrowed,
        // converted explicitly), as a Rust Vec; and the result read back through serde
        {
            use std::convert::TryFrom;
            use serde::Deserialize;
            let value = serde_json::json!({"xs": (0..len).collect::<Vec<usize>>()});
            let e = jmespath::compile(&text).map_err(|e| Failure::new(sub, "harness-compile", e.to_string(), case.clone()))?;
            let routes: Vec<(&str, Result<jmespath::Rcvar, jmespath::JmespathError>)> = vec![
                ("search(&Value)", e.search(&value)),
                ("search(Value)", e.search(value.clone())),
                ("search(Variable::try_from(Value))", jmespath::Variable::try_from(value.clone()).and_then(|v| e.search(v))),
                ("search(Variable::try_from(&Value))", jmespath::Variable::try_from(&value).and_then(|v| e.search(v))),
                ("search(BTreeMap<&str, Vec<usize>>)", e.search(std::collections::BTreeMap::from([("xs", (0..len).collect::<Vec<usize>>())]))),
            ];
            // ... and with the array itself as the document (no enclosing object)
            let top_text = &text[2..];
            let top_value = serde_json::Value::Array((0..len).map(|i| serde_json::Value::from(i as u64)).collect());
            let top = jmespath::compile(top_text).map_err(|e| Failure::new(sub, "harness-compile", e.to_string(), case.clone()))?;
            let routes: Vec<(&str, Result<jmespath::Rcvar, jmespath::JmespathError>)> = routes
                .into_iter()
                .chain(vec![
                    ("search(&Value) with the array as the document", top.search(&top_value)),
                    ("search(Value) with the array as the document", top.search(top_value.clone())),
                    ("search(Variable::try_from(Value)) with the array as the document", jmespath::Variable::try_from(top_value.clone()).and_then(|v| top.search(v))),
                    ("search(Variable::try_from(&Value)) with the array as the document", jmespath::Variable::try_from(&top_value).and_then(|v| top.search(v))),
                    ("search(Vec<usize>)", top.search((0..len).collect::<Vec<usize>>())),
                    ("search(&[usize])", top.search(&(0..len).collect::<Vec<usize>>()[..])),
                ])
                .collect();
            for (route, r) in routes {
                match r {
                    Ok(v) if var_to_j(&v).deep_eq(&want) => {
                        // reading the answer out through serde
                        let back = Vec::<i64>::deserialize((*v).clone());
                        let wantv: Vec<i64> = slice_indices(len, start, stop, stepv).into_iter().map(|i| i as i64).collect();
                        if back.as_ref().ok() != Some(&wantv) {
                            return Err(Failure::new(sub, "wrong-slice", format!("{} via {}: Vec::<i64>::deserialize(result) gave {:?} expected {:?}", text, route, back.map_err(|e| e.to_string()), wantv), case));
                        }
                    }
                    other => {
                        return Err(Failure::new(sub, "wrong-slice", format!("{} via {} gave {:?} expected {}", text, route, other.map(|v| v.to_string()).map_err(|e| e.to_string()), want.to_json()), case));
                    }
                }
            }
        }
        let v = jmespath::Variable::from_json(&arr(len).to_json()).unwrap();
        let r = catch(std::panic::AssertUnwindSafe(|| v.slice(start, stop, stepv)));
        match r {
            Err(p) => return Err(Failure::new(sub, "panic", format!("Variable::slice panicked: {}", p), case)),
            Ok(None) => return Err(Failure::new(sub, "wrong-slice", "Variable::slice returned None for an array".into(), case)),
            Ok(Some(items)) => {
                let g = J::Arr(items.iter().map(|x| var_to_j(x)).collect());
                if !g.deep_eq(&want) {
                    return Err(Failure::new(sub, "wrong-slice", format!("Variable::slice gave {} expected {}", g.to_json(), want.to_json()), case));
                }
            }
        }
    }
    let (rs, re) = (regime(len, start), regime(len, stop));
    let big_step = (stepv as i64).abs() > len as i64;
    st.class(&format!("regime:{}:{}:{}", if stepv > 0 { "+" } else { "-" }, rs, re));
    if rs != "inside" || re != "inside" || big_step {
        if st.nontrivial(&format!("{}|{:?}|{:?}|{:?}", len, start, stop, step)) {
            st.sample(|| json!({"expression": text, "array_len": len, "result": want.to_json()}));
        }
    }
    Ok(())
}

const EXT: [i32; 5] = [i32::MAX, -i32::MAX, i32::MAX - 1, -(i32::MAX - 1), i32::MIN];

fn enumerate(env: &Env, st: &mut Stats) -> Vec<Failure> {
    let mut bounds: Vec<Option<i32>> = vec![None];
    bounds.extend((-9..=9).map(Some));
    bounds.extend(EXT.iter().map(|x| Some(*x)));
    let mut steps: Vec<Option<i32>> = vec![None];
    steps.extend((-5..=5).map(Some));
    steps.extend(EXT.iter().map(|x| Some(*x)));
    steps.push(Some(1 << 30));
    let max_len = if env.tier == Tier::Thorough { 12 } else { 7 };
    let mut fails = vec![];
    for len in 0..=max_len {
        for a in &bounds {
            for b2 in &bounds {
                for c in &steps {
                    if let Err(f) = check_slice("enumerate", len, *a, *b2, *c, st, true) {
                        fails.push(f);
                        if fails.len() > 10 {
                            return fails;
                        }
                    }
                }
            }
        }
    }
    st.class("enumeration:complete");
    fails
}

/// Coarse grid on larger arrays (length thresholds such as 64 / 128 / 256).
fn enumerate_large(env: &Env, st: &mut Stats) -> Vec<Failure> {
    let lens: &[usize] = if env.tier == Tier::Thorough { &[31, 32, 33, 63, 64, 65, 70, 100, 127, 128, 129, 255, 256, 257, 300, 1000] } else { &[32, 63, 64, 65, 70, 128, 129, 300] };
    let mut fails = vec![];
    for &len in lens {
        let l = len as i32;
        let mut bounds: Vec<Option<i32>> = vec![None];
        for x in [0, 1, 3, 5, 10, l / 2, l - 11, l - 4, l - 2, l - 1, l, l + 5] {
            bounds.push(Some(x));
            bounds.push(Some(-x - 1));
        }
        for a in &bounds {
            for b2 in &bounds {
                for c in [None, Some(1), Some(-1), Some(2), Some(-2), Some(3), Some(-3), Some(7), Some(-7), Some(63), Some(64), Some(-64), Some(-65)] {
                    if let Err(f) = check_slice("enumerate-large", len, *a, *b2, c, st, true) {
                        fails.push(f);
                        if fails.len() > 10 {
                            return fails;
                        }
                    }
                }
            }
        }
    }
    fails
}

/// A slice followed by a right-hand side: every element of the slice goes
/// through the right-hand side in slice order (small-scope enumeration).
fn slice_rhs(env: &Env, st: &mut Stats) -> Vec<Failure> {
    let max_len = if env.tier == Tier::Thorough { 16 } else { 9 };
    let rhs_forms: &[(&str, &str)] = &[(".v", "v"), (".v.w", "w"), ("[0]", "i0"), (".[v]", "lv"), (".{k: v}", "hv"), (" | [*].v", "v"), ("[*]", "star"), (".t[0]", "t0")];
    let mut bounds: Vec<Option<i32>> = vec![None];
    bounds.extend((-6..=6).map(Some));
    let mut fails = vec![];
    for len in 0..=max_len {
        // rows: v = index, w nested, t array; row 2 is not an object; row 4 has a null v
        let rows: Vec<serde_json::Value> = (0..len)
            .map(|i| {
                if i == 2 {
                    json!([i, i + 100])
                } else if i == 4 {
                    json!({"v": null, "t": [i]})
                } else {
                    json!({"v": i, "t": [i, 0], "x": {"w": i}})
                }
            })
            .collect();
        let doc = json!({ "rows": rows }).to_string();
        let docj = J::parse(&doc).unwrap();
        for a in &bounds {
            for b2 in &bounds {
                for c in [None, Some(1i32), Some(-1), Some(2), Some(-2), Some(3), Some(-3), Some(5), Some(-4)] {
                    for (rhs, _) in rhs_forms {
                        let f = |x: &Option<i32>| x.map(|v| v.to_string()).unwrap_or_default();
                        let text = match c {
                            None => format!("rows[{}:{}]{}", f(a), f(b2), rhs),
                            Some(s) => format!("rows[{}:{}:{}]{}", f(a), f(b2), s, rhs),
                        };
                        let text = text.replace(".v.w", ".x.w");
                        st.eval();
                        let tree = match crate::refparse::parse_strict(&text) {
                            Ok(t) => t,
                            Err(e) => {
                                fails.push(Failure::new("slice-rhs", "harness-ref", e.msg, json!({"expression": text})));
                                return fails;
                            }
                        };
                        // model: Python slice of the rows, then the right-hand side on each, nulls dropped
                        let mut cx = crate::refeval::Ctx::default();
                        let want = crate::refeval::eval(&tree, &docj, &mut cx);
                        let got = search_text(&text, &doc);
                        let ok = match (&want, &got) {
                            (Ok(w), ImpOut::Ok(g)) => w.deep_eq(g),
                            _ => false,
                        };
                        if !ok {
                            fails.push(Failure::new(
                                "slice-rhs",
                                "wrong-slice-projection",
                                format!("{} on {} rows gave {} expected {:?}", text, len, got.brief(), want.map(|w| w.to_json())),
                                json!({"expression": text, "document": doc}),
                            ));
                            if fails.len() > 10 {
                                return fails;
                            }
                        } else if c.map(|s: i32| s.abs() >= 2).unwrap_or(false) && len >= 3 {
                            st.nontrivial(&format!("{}|{}", text, len));
                        }
                    }
                }
            }
        }
    }
    st.sample(|| json!({"expression": "rows[::-2].v", "rows": "0..=9 rows, one non-object, one null v"}));
    fails
}

fn replay_slice_rhs(case: &Value, _env: &Env) -> CaseResult {
    let text = case["expression"].as_str().unwrap_or("");
    let doc = case["document"].as_str().unwrap_or("null");
    let tree = crate::refparse::parse_strict(text).map_err(|e| Failure::new("slice-rhs", "harness-ref", e.msg, case.clone()))?;
    let d = J::parse(doc).map_err(|e| Failure::new("slice-rhs", "harness-doc", e, case.clone()))?;
    let mut cx = crate::refeval::Ctx::default();
    let want = crate::refeval::eval(&tree, &d, &mut cx);
    match (&want, search_text(text, doc)) {
        (Ok(w), ImpOut::Ok(g)) if w.deep_eq(&g) => Ok(()),
        (w, g) => Err(Failure::new("slice-rhs", "wrong-slice-projection", format!("gave {} expected {:?}", g.brief(), w.as_ref().map(|x| x.to_json())), case.clone())),
    }
}

fn replay_enum_large(case: &Value, _env: &Env) -> CaseResult {
    let g = |k: &str| case[k].as_i64().map(|x| x as i32);
    let mut st = Stats::new();
    check_slice("enumerate-large", case["len"].as_u64().unwrap_or(0) as usize, g("start"), g("stop"), g("step"), &mut st, true)
}

fn replay_enum(case: &Value, _env: &Env) -> CaseResult {
    let g = |k: &str| case[k].as_i64().map(|x| x as i32);
    let mut st = Stats::new();
    check_slice("enumerate", case["len"].as_u64().unwrap_or(0) as usize, g("start"), g("stop"), g("step"), &mut st, true)
}

fn wide_int(src: &mut Src, len: usize) -> Option<i32> {
    match src.weighted(&[3, 6, 4, 3]) {
        0 => None,
        1 => Some(src.range(-(len as i64) - 3, len as i64 + 3) as i32),
        2 => Some(src.u32() as i32),
        _ => {
            let base = *src.pick(&EXT) as i64;
            Some((base + src.range(-3, 3)).clamp(i32::MIN as i64, i32::MAX as i64) as i32)
        }
    }
}

fn random(src: &mut Src, st: &mut Stats, _env: &Env) -> CaseResult {
    let len = if src.chance(40) { src.size(600) } else { src.below(41) };
    let a = wide_int(src, len);
    let b2 = wide_int(src, len);
    // steps: mostly small in magnitude whatever the length
    let c = match src.below(4) {
        0 => wide_int(src, len),
        _ => *src.pick(&[None, Some(1), Some(-1), Some(2), Some(-2), Some(3), Some(-3), Some(7), Some(-7), Some(64), Some(-64)]),
    };
    // now and then an index or slice whose numeral does not fit 32 bits (rejected by compile,
    // a documented lexical rule) is compiled first: the slice that follows is unaffected
    if src.chance(28) {
        let big = *src.pick(&["2147483648", "-2147483649", "99999999999", "4294967296", "18446744073709551616"]);
        let t = match src.below(4) {
            0 => format!("xs[{}]", big),
            1 => format!("xs[0:{}]", big),
            2 => format!("xs[{}:]", big),
            _ => format!("xs[::{}]", big),
        };
        crate::syn::replay_disturbance(&t);
        st.class("preceded-by-out-of-range-numeral");
    }
    check_slice("random", len, a, b2, c, st, c.unwrap_or(1) != 0)?;
    // the same triple in other spellings of its numbers and blanks: leading zeros are part of a
    // number token (only a minus sign must be followed by 1-9), blanks may surround every token
    if src.chance(80) && c.unwrap_or(1) != 0 {
        let num = |v: Option<i32>, src: &mut Src| -> String {
            match v {
                None => String::new(),
                Some(x) if x >= 0 && src.chance(150) => {
                    let zeros = match src.below(4) {
                        0 => 1,
                        1 => 2 + src.below(8),
                        2 => 9 + src.below(4),
                        _ => 12 + src.below(40),
                    };
                    format!("{}{}", "0".repeat(zeros), x)
                }
                Some(x) => x.to_string(),
            }
        };
        let ws = |src: &mut Src| -> &'static str { if src.chance(50) { *src.pick(&[" ", "\n", "\t", "  "]) } else { "" } };
        let (ta, tb, tc) = (num(a, src), num(b2, src), num(c, src));
        let text = match c {
            None => format!("xs[{}{}{}:{}{}{}]", ws(src), ta, ws(src), ws(src), tb, ws(src)),
            Some(_) => format!("xs[{}{}{}:{}{}:{}{}{}]", ws(src), ta, ws(src), tb, ws(src), ws(src), tc, ws(src)),
        };
        let doc = json!({"xs": (0..len).collect::<Vec<usize>>()}).to_string();
        let plain = search_text(&slice_expr(a, b2, c), &doc);
        let spelled = search_text(&text, &doc);
        st.eval();
        let same = match (&plain, &spelled) {
            (ImpOut::Ok(x), ImpOut::Ok(y)) => x.deep_eq(y),
            _ => false,
        };
        if !same {
            return Err(Failure::new("random", "slice-depends-on-number-spelling", format!("{} gave {} but {} gave {}", text, spelled.brief(), slice_expr(a, b2, c), plain.brief()), json!({"expression": text, "len": len})));
        }
        // an index likewise
        if let Some(i) = a {
            let (t1, t2) = (format!("xs[{}]", num(Some(i), src)), format!("xs[{}]", i));
            let (g1, g2) = (search_text(&t1, &doc), search_text(&t2, &doc));
            let same = match (&g1, &g2) {
                (ImpOut::Ok(x), ImpOut::Ok(y)) => x.deep_eq(y),
                _ => false,
            };
            if !same {
                return Err(Failure::new("random", "index-depends-on-number-spelling", format!("{} gave {} but {} gave {}", t1, g1.brief(), t2, g2.brief()), json!({"expression": t1, "len": len})));
            }
        }
        st.class("respelled-numbers");
    }
    // the same slice of the same array reached in other ways: the array as the result of a
    // pipe, a projection, a function, a parenthesised expression, a literal
    if src.chance(100) && c.unwrap_or(1) != 0 {
        let sl = &slice_expr(a, b2, c)[2..];
        let doc = json!({"xs": (0..len).collect::<Vec<usize>>()}).to_string();
        let lit = format!("`{}`", serde_json::to_string(&(0..len).collect::<Vec<usize>>()).unwrap());
        let forms = [
            format!("xs | {}", sl),
            format!("xs[*] | {}", sl),
            format!("xs[?@ >= `0`] | {}", sl),
            format!("xs[] | {}", sl),
            format!("(xs){}", sl),
            format!("(xs[*]){}", sl),
            format!("(xs[?`true`]){}", sl),
            format!("sort(xs){}", sl),
            format!("to_array(xs){}", sl),
            format!("not_null(xs){}", sl),
            format!("map(&@, xs){}", sl),
            format!("{}{}", lit, sl),
            format!("[xs][0]{}", sl),
            format!("{{k: xs}}.k{}", sl),
            format!("xs[0:] | {}", sl),
            format!("@.xs{}", sl),
            format!("[xs[*]] | [0]{}", sl),
        ];
        let form = &forms[src.below(forms.len())];
        let plain = search_text(&slice_expr(a, b2, c), &doc);
        let other = search_text(form, &doc);
        st.eval();
        let same = match (&plain, &other) {
            (ImpOut::Ok(x), ImpOut::Ok(y)) => x.deep_eq(y),
            _ => false,
        };
        if !same {
            return Err(Failure::new("random", "slice-depends-on-how-the-array-was-produced", format!("{} gave {} but {} gave {}", form, other.brief(), slice_expr(a, b2, c), plain.brief()), json!({"expression": form, "len": len})));
        }
        st.class("other-subject-forms");
    }
    // a slice directly after another projection bracket applies to each element: every
    // spelling of the slice (parts omitted or not) must still be a sentence there
    if src.chance(70) && c.unwrap_or(1) != 0 {
        let rows = 1 + src.below(4);
        let m: Vec<Vec<usize>> = (0..rows).map(|r| (0..(len % 7 + r)).map(|i| 10 * r + i).collect()).collect();
        let doc = json!({"m": m, "o": {"p": m[0], "q": [1, 2, 3]}, "mixed": [m[0], 5, null, "s"]}).to_string();
        let sl = &slice_expr(a, b2, c)[2..];
        let apply = |row: &Vec<usize>| -> serde_json::Value { json!(slice_indices(row.len(), a, b2, c.unwrap_or(1)).into_iter().map(|i| row[i]).collect::<Vec<usize>>()) };
        let per_row: Vec<serde_json::Value> = m.iter().map(apply).collect();
        let forms: Vec<(String, serde_json::Value)> = vec![
            (format!("m[*]{}", sl), json!(per_row)),
            (format!("m[0:]{}", sl), json!(per_row)),
            (format!("m[?`true`]{}", sl), json!(per_row)),
            (format!("m | [*]{}", sl), json!(per_row)),
            (format!("o.*{}", sl), json!([apply(&m[0]), apply(&vec![1, 2, 3])])),
            (format!("mixed[*]{}", sl), json!([apply(&m[0])])),
        ];
        let (text, want) = &forms[src.below(forms.len())];
        st.eval();
        let wantj = J::from_value(want);
        match search_text(text, &doc) {
            ImpOut::Ok(g) if g.deep_eq(&wantj) => {}
            other => return Err(Failure::new("random", "slice-after-projection-wrong", format!("{} gave {} expected {}", text, other.brief(), wantj.to_json()), json!({"expression": text, "document": doc}))),
        }
        st.class("slice-after-projection");
    }
    Ok(())
}

/// Non-array subjects, arrays with heterogeneous content, and indexes.
fn subjects(src: &mut Src, st: &mut Stats, _env: &Env) -> CaseResult {
    let doc = crate::gen_doc::gen_json(src, 0, &crate::gen_doc::DocOpts { max_depth: 2, max_width: 6, ..Default::default() });
    let docj = json!({ "xs": doc.to_value() }).to_string();
    st.eval();
    if src.flip() {
        // index
        let n = match src.below(4) {
            0 => *src.pick(&EXT),
            _ => src.range(-12, 12) as i32,
        };
        let text = format!("xs[{}]", n);
        let want = match &doc {
            J::Arr(a) => index_of(a.len(), n).map(|i| a[i].clone()).unwrap_or(J::Null),
            _ => J::Null,
        };
        let case = json!({"expression": text, "document": docj});
        match search_text(&text, &docj) {
            ImpOut::Ok(g) if g.deep_eq(&want) => {}
            other => return Err(Failure::new("subjects", "wrong-index", format!("gave {} expected {}", other.brief(), want.to_json()), case)),
        }
        st.class(&format!("index-on:{}", doc.type_name()));
        if st.nontrivial(&format!("{}|{}", text, docj)) {
            st.sample(|| json!({"expression": text, "document": docj}));
        }
    } else {
        let len = doc.as_arr().map(|a| a.len()).unwrap_or(0);
        let (a, b2, c) = (wide_int(src, len), wide_int(src, len), wide_int(src, len));
        let text = slice_expr(a, b2, c);
        let case = json!({"expression": text, "document": docj});
        let got = search_text(&text, &docj);
        let stepv = c.unwrap_or(1);
        st.class(&format!("slice-on:{}", doc.type_name()));
        match &doc {
            J::Arr(items) => {
                if stepv == 0 {
                    match got {
                        ImpOut::SearchErr(e) if e.class == "InvalidSlice" => {}
                        other => return Err(Failure::new("subjects", "step-zero-not-invalid-slice", other.brief(), case)),
                    }
                } else {
                    // a slice is a projection: null elements are dropped from its result
                    let want = J::Arr(slice_indices(items.len(), a, b2, stepv).into_iter().map(|i| items[i].clone()).filter(|x| !x.is_null()).collect());
                    match got {
                        ImpOut::Ok(g) if g.deep_eq(&want) => {}
                        other => return Err(Failure::new("subjects", "wrong-slice", format!("gave {} expected {}", other.brief(), want.to_json()), case)),
                    }
                }
            }
            _ => {
                match got {
                    ImpOut::Ok(J::Null) => {}
                    // step 0 on a non-array subject: error or null are both accepted
                    ImpOut::SearchErr(e) if stepv == 0 && e.class == "InvalidSlice" => {}
                    other => return Err(Failure::new("subjects", "slice-of-non-array-not-null", other.brief(), case)),
                }
                if st.nontrivial(&format!("{}|{}", text, docj)) {
                    st.sample(|| json!({"expression": text, "document": docj}));
                }
            }
        }
        // the slice node on its own, in an expression object assembled by hand from the
        // public Ast (`Expression::new`): the same rule without the projection the parser
        // wraps around it (so nothing is dropped from an array, and a non-array still gives null)
        if stepv != 0 {
            let ast = jmespath::ast::Ast::Slice { offset: src.below(9), start: a, stop: b2, step: stepv };
            let mut rt = jmespath::Runtime::new();
            rt.register_builtin_functions();
            let subject_json = doc.to_json();
            let got = crate::imp::search_ast("", ast, &rt, &subject_json);
            let want = match &doc {
                J::Arr(items) => J::Arr(slice_indices(items.len(), a, b2, stepv).into_iter().map(|i| items[i].clone()).collect()),
                _ => J::Null,
            };
            st.eval();
            match got {
                ImpOut::Ok(g) if g.deep_eq(&want) => {}
                other => {
                    return Err(Failure::new(
                        "subjects",
                        if matches!(doc, J::Arr(_)) { "wrong-slice" } else { "slice-of-non-array-not-null" },
                        format!("a bare Ast::Slice node [{:?}:{:?}:{}] gave {} expected {}", a, b2, stepv, other.brief(), want.to_json()),
                        json!({"ast": "Slice", "start": a, "stop": b2, "step": stepv, "document": subject_json}),
                    ))
                }
            }
            st.class("bare-slice-node");
        }
    }
    Ok(())
}

pub fn property() -> Property {
    Property {
        id: "C07",
        rule: RULE,
        assumptions: vec![
            "Python's list[start:stop:step] (slice.indices + range) is the slice rule; transcribed independently in 128-bit arithmetic".into(),
            "Variable::slice is only called with step != 0 (its only caller guarantees that; with step 0 it does not terminate, which is outside the statement)".into(),
            "step 0 on a non-array subject may be an error or null".into(),
        ],
        minimise: None,
        subs: vec![
            Sub::Custom(CustomSub { name: "enumerate", run: enumerate, replay: replay_enum }),
            Sub::Custom(CustomSub { name: "enumerate-large", run: enumerate_large, replay: replay_enum_large }),
            Sub::Custom(CustomSub { name: "slice-rhs", run: slice_rhs, replay: replay_slice_rhs }),
            Sub::Bytes(BytesSub { name: "random", f: random, max_len: 40, quick: Budget { threads: 8, cases: 20000 }, thorough: Budget { threads: 16, cases: 500_000 }, keep_unreproducible: false }),
            Sub::Bytes(BytesSub { name: "subjects", f: subjects, max_len: 300, quick: Budget { threads: 8, cases: 6_000 }, thorough: Budget { threads: 16, cases: 200_000 }, keep_unreproducible: false }),
        ],
    }
}
