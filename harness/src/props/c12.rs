//! C12 — errors are classified and located truthfully.

use serde_json::json;

use crate::gen_doc::{gen_char, gen_doc, DocOpts};
use crate::gen_typed::{gen_typed, schema_doc};
use crate::imp::{search_text, ImpErr, ImpOut};
use crate::props::c01::spell_tree;
use crate::runner::*;
use crate::src::Src;
use crate::syn::*;

pub const RULE: &str = "(compile) non-sentences from the C03 generators with multi-byte characters and newlines injected in front of the fault; (planted) searches with exactly one planted fault (unknown function, wrong arity, wrong type, step 0, by-function whose reference returns the wrong type after nested successful calls) at a byte position known to the generator, at top level, in projections, filters, arguments, multi-selects and expression references, behind multi-byte/newline prefixes; (arbitrary) generated typed and untyped (expression, document) pairs that happen to fail; oracle = error-record invariants recomputed independently (kind, expression text, offset on a char boundary and equal to the planted position, zero-based line and character column of that offset, rendered message with caret); non-trivial = a multi-byte character or newline precedes the offset, or the fault sits inside an expression reference (distinct by text)";

/// Independent recomputation of (line, column) from a byte offset.
fn coords(expr: &str, offset: usize) -> (usize, usize) {
    let head = &expr[..offset];
    let line = head.matches('\n').count();
    let last = head.rfind('\n').map(|i| i + 1).unwrap_or(0);
    (line, head[last..].chars().count())
}

/// Independent rendering of the message layout.
/// What the statement says about the rendered message, and nothing more: it shows the
/// reason (the text the reason itself prints), the coordinates (both numbers, in front of
/// the expression block; where the words "line" / "column" are used, next to the right word)
/// and the expression with a caret line -- `column` blanks and a `^` -- directly under line
/// `line` of the expression.  The wording around these parts is not pinned down.
fn layout_problem(e: &ImpErr, expr: &str, line: usize, column: usize) -> Option<String> {
    let d = &e.display;
    if e.reason_display.trim().is_empty() || !d.contains(&e.reason_display) {
        return Some("the reason is not shown".into());
    }
    // the expression block: the lines of the expression in order, the caret line after line `line`
    let caret = format!("{}^", " ".repeat(column));
    let expr_lines: Vec<&str> = expr.split('\n').collect();
    let shown: Vec<&str> = d.split('\n').collect();
    let mut found = None;
    for start in 0..shown.len() {
        // does the block start here?
        let mut i = start;
        let mut ok = true;
        for (k, l) in expr_lines.iter().enumerate() {
            if shown.get(i) != Some(l) {
                // the block may begin in the middle of a header line only if it is the whole line: no
                ok = false;
                break;
            }
            i += 1;
            if k == line.min(expr_lines.len() - 1) {
                if shown.get(i) != Some(&caret.as_str()) {
                    ok = false;
                    break;
                }
                i += 1;
            }
        }
        if ok {
            found = Some(start);
            break;
        }
    }
    let start = match found {
        Some(s) => s,
        None => return Some(format!("no expression block with a caret line of {} blanks under line {}", column, line)),
    };
    // the coordinates, in what precedes the block (the reason text itself set aside)
    let header = shown[..start].join("\n").replacen(&e.reason_display, "", 1);
    let lower = header.to_lowercase();
    let number_after = |word: &str| -> Option<usize> {
        let at = lower.find(word)? + word.len();
        let digits: String = lower[at..].chars().skip_while(|c| !c.is_ascii_digit()).take_while(|c| c.is_ascii_digit()).collect();
        digits.parse().ok()
    };
    match (number_after("line"), number_after("column")) {
        (Some(l), Some(c)) => {
            if (l, c) != (line, column) {
                return Some(format!("the message says line {} column {}", l, c));
            }
        }
        _ => {
            let mut numbers: Vec<usize> = vec![];
            let mut cur = String::new();
            for ch in header.chars().chain(std::iter::once(' ')) {
                if ch.is_ascii_digit() {
                    cur.push(ch);
                } else if !cur.is_empty() {
                    numbers.extend(cur.parse::<usize>().ok());
                    cur.clear();
                }
            }
            let has_both = if line == column { numbers.iter().filter(|n| **n == line).count() >= 2 } else { numbers.contains(&line) && numbers.contains(&column) };
            if !has_both {
                return Some("the coordinates are not shown".into());
            }
        }
    }
    None
}

/// Invariants every error record must satisfy.
fn record_invariants(sub: &str, text: &str, e: &ImpErr, doc: &str) -> CaseResult {
    let case = json!({"expression": text, "document": doc, "offset": e.offset, "line": e.line, "column": e.column});
    if e.expression != text {
        return Err(Failure::new(sub, "expression-not-attached", format!("error carries expression {:?}", e.expression), case));
    }
    if e.offset > text.len() || !text.is_char_boundary(e.offset) {
        return Err(Failure::new(sub, "offset-not-on-char-boundary", format!("offset {} in a text of {} bytes", e.offset, text.len()), case));
    }
    let (l, c) = coords(text, e.offset);
    if (l, c) != (e.line, e.column) {
        return Err(Failure::new(
            sub,
            "line-column-wrong",
            format!("offset {} is line {} column {}, reported line {} column {}", e.offset, l, c, e.line, e.column),
            case,
        ));
    }
    if let Some(problem) = layout_problem(e, text, l, c) {
        return Err(Failure::new(sub, "message-layout-wrong", format!("{}: rendered {:?}", problem, e.display), case));
    }
    Ok(())
}

fn junk(src: &mut Src) -> String {
    let n = src.below(6);
    let mut s = String::new();
    for _ in 0..n {
        match src.below(6) {
            0 => s.push('\n'),
            1 => s.push_str(*src.pick(&["é", "日本", "😀", "ß", "\u{301}"])),
            _ => {
                let c = gen_char(src);
                if c != '\'' && c != '\\' {
                    s.push(c)
                }
            }
        }
    }
    s
}

fn compile_errors(src: &mut Src, st: &mut Stats, _env: &Env) -> CaseResult {
    let base = match src.below(4) {
        0 => gen_soup(src),
        _ => {
            let d = 1 + src.below(4);
            let a = match gen_sentence(src, st, d) {
                Some(t) => t,
                None => return Ok(()),
            };
            let b2 = gen_sentence(src, st, 2).unwrap_or_else(|| "a".into());
            mutate(&a, &b2, src).0
        }
    };
    // put multi-byte characters / newlines in front of whatever is wrong
    let text = match src.below(4) {
        0 => base,
        1 => format!("'{}' | {}", junk(src), base),
        2 => format!("[\"{}\", {}]", junk(src).replace(['"', '\\'], "").replace(|c: char| (c as u32) < 0x20 && c != '\n', ""), base).replace('\n', "\\n"),
        _ => format!("{}{}", ["\n", "\n\n ", "\t\n", " \r\n"][src.below(4)], base),
    };
    st.eval();
    let r = match crate::imp::compiles(&text) {
        Ok(r) => r,
        Err(p) => return Err(Failure::new("compile-errors", "panic", p, json!({"expression": text}))),
    };
    match r {
        Ok(()) => {
            st.class("compile:accepted");
            Ok(())
        }
        Err(e) => {
            if !e.is_parse {
                return Err(Failure::new("compile-errors", "compile-failure-not-parse-error", e.detail, json!({"expression": text})));
            }
            record_invariants("compile-errors", &text, &e, "")?;
            st.class("compile:rejected");
            let head = &text[..e.offset];
            if (head.contains('\n') || !head.is_ascii()) && st.nontrivial(&text) {
                st.sample(|| json!({"expression": text, "offset": e.offset, "line": e.line, "column": e.column}));
            }
            Ok(())
        }
    }
}

const DOC: &str = "{\"xs\":[1,2,3],\"objs\":[{\"n\":1,\"s\":\"a\",\"m\":1,\"b\":true},{\"n\":2,\"s\":\"b\",\"m\":\"x\",\"b\":false}],\"o\":{\"a\":1},\"z\":null,\"s\":\"str\"}";

struct Planted {
    text: String,
    /// acceptable offsets (inclusive range)
    lo: usize,
    hi: usize,
    kind: &'static str,
    in_expref: bool,
    /// evaluated on a runtime with user-registered higher-order functions
    custom: bool,
}

fn plant(src: &mut Src) -> Planted {
    // fault text, the substring that ends at the failing call's '(' (or the
    // slice in brackets), and the expected kind
    let faults: &[(&str, &str, &str)] = &[
        ("nope(@)", "nope(", "UnknownFunction"),
        ("nope()", "nope(", "UnknownFunction"),
        ("Abs(@)", "Abs(", "UnknownFunction"),
        ("abs()", "abs(", "NotEnoughArguments"),
        ("abs(@, @)", "abs(", "TooManyArguments"),
        ("join('x')", "join(", "NotEnoughArguments"),
        ("length(@, @)", "length(", "TooManyArguments"),
        ("abs('é')", "abs(", "InvalidType"),
        ("length(`1`)", "length(", "InvalidType"),
        ("join(`1`, `[]`)", "join(", "InvalidType"),
        ("sort(`[1, \"a\"]`)", "sort(", "InvalidType"),
        ("keys('日本')", "keys(", "InvalidType"),
        ("to_array(abs(`1`)) | sort_by(@, &abs(@)) | nope(@)", "nope(", "UnknownFunction"),
        ("sort_by(`[1, 2]`, &to_array(@))", "sort_by(", "InvalidReturnType"),
        ("max_by(`[1, 2]`, &type(@) == 'x')", "max_by(", "InvalidReturnType"),
        ("min_by(`[{\"m\": 1}, {\"m\": \"x\"}]`, &not_null(m))", "min_by(", "InvalidReturnType"),
        ("sort_by(`[\"é\", \"b\"]`, &length(to_array(@)) > `0`)", "sort_by(", "InvalidReturnType"),
        ("`[1, 2]`[::0]", "[::0]", "InvalidSlice"),
        ("`[1]`[1:2:0]", "[1:2:0]", "InvalidSlice"),
        // the slice is followed by more of the chain: the error still points into the slice
        ("`[{\"a\": 1}]`[::0].a", "[::0]", "InvalidSlice"),
        ("`[[1], [2]]`[0::0][1:]", "[0::0]", "InvalidSlice"),
        ("`[[1], [2]]`[::0][*]", "[::0]", "InvalidSlice"),
        ("`[{\"a\": [1]}]`[:1:0].a[0].b.c", "[:1:0]", "InvalidSlice"),
        ("`[1, 2]`[::0] | [0]", "[::0]", "InvalidSlice"),
        // (the step-0 slice sits on arrays: on a subject that is not an array the statement of C07
        // allows null as well as the error)
        ("`[[1], [2]]`[1:][::0].\"é\"", "[::0]", "InvalidSlice"),
        // calls followed by more of the chain / more calls
        ("abs('é').a.b", "abs(", "InvalidType"),
        ("nope(@)[0].length(@)", "nope(", "UnknownFunction"),
        ("length(abs(`1`), nope2(@))", "nope2(", "UnknownFunction"),
        ("[abs(`-1`), length(`1`), abs(`2`)]", "length(", "InvalidType"),
        ("to_array(`1`)[*].abs('x')", "abs(", "InvalidType"),
        // by-functions failing on the return type after their reference ran nested
        // by-functions whose own references ran further (successful) calls
        ("sort_by(`[[1], [2]]`, &map(&type(@), @))", "sort_by(", "InvalidReturnType"),
        ("min_by(`[[1], [2]]`, &max_by(@, &length(to_array(@))) == `1`)", "min_by(", "InvalidReturnType"),
        ("max_by(`[[3, 1], [2]]`, &sort_by(@, &abs(@)))", "max_by(", "InvalidReturnType"),
        ("sort_by(`[[\"b\"], [\"a\"]]`, &map(&length(@), sort_by(@, &to_string(@))))", "sort_by(", "InvalidReturnType"),
        ("sort_by(`[[1], [2]]`, &map(&type(@), @)) | nope(@)", "sort_by(", "InvalidReturnType"),
        ("map(&sort_by(@, &to_string(abs(@))), `[[2, 1]]`) | sort_by(@, &to_array(@))", "sort_by(@, &to_array", "InvalidReturnType"),
        // a user function that runs a reference through the built-in map, does not care whether
        // that worked, and then fails on its own (JmespathError::from_ctx): the error is its own call's
        ("attempt(&abs(`\"x\"`), xs)", "attempt(", "InvalidType"),
        ("attempt(&abs(@), xs)", "attempt(", "InvalidType"),
        ("attempt(&length(@), xs) || `1`", "attempt(", "InvalidType"),
        ("attempt(&nope(@), xs)", "attempt(", "InvalidType"),
        ("[abs(`1`), attempt(&sort_by(@, &abs(@)), `[[1]]`)]", "attempt(", "InvalidType"),
    ];
    // a by-function whose reference runs a random chain of *successful* steps (slices, indexes
    // back into arrays, projections, nested calls and by-functions) on each element and
    // then hands back an array: the failing call is the outer by-function
    let generated: String;
    let (ftext, marker, kind): (&str, &str, &str) = if src.chance(60) {
        let f = *src.pick(&["sort_by", "max_by", "min_by"]);
        let steps = ["[1:]", "[::-1]", "[::2]", "[:5:1]", "[-3:]", "[*]", "[]", "[?@ >= `0`]", " | @", " | sort(@)", " | reverse(@)", " | map(&abs(@), @)", " | sort_by(@, &abs(@))", " | [@, @][0]", " | not_null(@)", "[1:][::-2]", " | to_array(@)"];
        let mut body = String::from("@");
        for _ in 0..src.below(5) {
            body.push_str(*src.pick(&steps));
        }
        let arr = *src.pick(&["`[[3, 1, 2], [2, 5]]`", "`[[1], [2], [3]]`", "`[[4, 4, 4, 4, 4, 4, 4]]`", "`[[], [1]]`"]);
        generated = format!("{}({}, &{})", f, arr, body);
        (generated.as_str(), if f == "sort_by" { "sort_by(" } else if f == "max_by" { "max_by(" } else { "min_by(" }, "InvalidReturnType")
    } else {
        faults[src.below(faults.len())]
    };
    let at = ftext.find(marker).expect("marker");
    // for calls the marker starts with the function name: the position is its first '('
    let paren = at + marker.find('(').unwrap_or(marker.len() - 1);
    let (flo, fhi) = if kind == "InvalidSlice" { (at, at + marker.len() - 1) } else { (paren, paren) };
    let slice_fault = kind == "InvalidSlice";
    let needs_custom = ftext.contains("attempt(");
    let custom_route = src.chance(30) || needs_custom;
    let (pre, post, in_expref): (String, String, bool) = match if needs_custom { [0usize, 1, 3, 5, 15, 18][src.below(6)] } else if custom_route { 15 + src.below(5) } else { src.below(15) } {
        // the same two as functions declared with a signature (CustomFunction)
        18 => ("applyc(&".into(), ", @)".into(), true),
        19 => ("eachc(&".into(), ", xs)".into(), true),
        // user-registered higher-order functions: `apply` evaluates the reference it is given
        // (Expression::new on the text and runtime of the running search), `each` hands
        // its arguments to the built-in map
        15 => ("apply(&".into(), ", @)".into(), true),
        16 => ("each(&".into(), ", xs)".into(), true),
        17 => (format!("'{}' | apply(&", junk(src)), ", @)".into(), true),
        12 => {
            // a long single line in front of the fault (column thresholds)
            let n = src.size(400);
            (format!("[{}", "`1`, ".repeat(n)), "][-1]".into(), false)
        }
        13 => {
            let n = src.size(300);
            (format!("'{}' | ", "é".repeat(n)), String::new(), false)
        }
        14 => {
            let n = src.size(300);
            (format!("{}not_null(z, ", " ".repeat(n)), ")".into(), false)
        }
        0 => (String::new(), String::new(), false),
        1 => (format!("'{}' | ", junk(src)), String::new(), false),
        2 => ("xs[*].not_null(".into(), ")".into(), false),
        3 => ("to_array(".into(), ")".into(), false),
        4 => (format!("['{}', ", junk(src)), "][1]".into(), false),
        5 => ("{k: ".into(), "}".into(), false),
        6 => ("xs[?".into(), "]".into(), false),
        7 => ("map(&".into(), ", xs)".into(), true),
        8 => ("sort_by(objs, &".into(), ")".into(), true),
        9 => ("max_by(objs, &".into(), ")".into(), true),
        10 => (format!("{}not_null(z, ", ["\n", "\n\n", " \n\t"][src.below(3)]), ")".into(), false),
        _ => ("objs[0].s && ".into(), String::new(), false),
    };
    let _ = slice_fault;
    let text = format!("{}{}{}", pre, ftext, post);
    Planted { lo: pre.len() + flo, hi: pre.len() + fhi, text, kind, in_expref, custom: custom_route }
}

/// Search on a runtime that has, besides the built-ins, two user-registered
/// higher-order functions (the only ways user code can evaluate a reference).
fn custom_search(text: &str, doc: &str) -> ImpOut {
    use jmespath::{Context, Rcvar, Runtime, Variable};
    let r = catch(std::panic::AssertUnwindSafe(|| {
        let mut rt = Runtime::new();
        rt.register_builtin_functions();
        rt.register_function(
            "apply",
            Box::new(|args: &[Rcvar], ctx: &mut Context<'_>| match args.first().map(|a| &**a) {
                Some(Variable::Expref(ast)) => jmespath::Expression::new(ctx.expression, ast.clone(), ctx.runtime).search(args.get(1).cloned().unwrap_or_else(|| Rcvar::new(Variable::Null))),
                _ => Ok(Rcvar::new(Variable::Null)),
            }),
        );
        rt.register_function(
            "attempt",
            Box::new(|args: &[Rcvar], ctx: &mut Context<'_>| {
                if let Some(f) = ctx.runtime.get_function("map") {
                    let _ = f.evaluate(args, ctx);
                }
                Err(jmespath::JmespathError::from_ctx(
                    ctx,
                    jmespath::ErrorReason::Runtime(jmespath::RuntimeError::InvalidType { expected: "something else".to_owned(), actual: "this".to_owned(), position: 0 }),
                ))
            }),
        );
        rt.register_function(
            "each",
            Box::new(|args: &[Rcvar], ctx: &mut Context<'_>| match ctx.runtime.get_function("map") {
                Some(f) => f.evaluate(args, ctx),
                None => Ok(Rcvar::new(Variable::Null)),
            }),
        );
        {
            use jmespath::functions::{ArgumentType, CustomFunction, Signature};
            rt.register_function(
                "applyc",
                Box::new(CustomFunction::new(
                    Signature::new(vec![ArgumentType::Expref, ArgumentType::Any], None),
                    Box::new(|args: &[Rcvar], ctx: &mut Context<'_>| match args.first().map(|a| &**a) {
                        Some(Variable::Expref(ast)) => jmespath::Expression::new(ctx.expression, ast.clone(), ctx.runtime).search(args.get(1).cloned().unwrap_or_else(|| Rcvar::new(Variable::Null))),
                        _ => Ok(Rcvar::new(Variable::Null)),
                    }),
                )),
            );
            rt.register_function(
                "eachc",
                Box::new(CustomFunction::new(
                    Signature::new(vec![ArgumentType::Expref, ArgumentType::Array], None),
                    Box::new(|args: &[Rcvar], ctx: &mut Context<'_>| match ctx.runtime.get_function("map") {
                        Some(f) => f.evaluate(args, ctx),
                        None => Ok(Rcvar::new(Variable::Null)),
                    }),
                )),
            );
        }
        let e = match rt.compile(text) {
            Ok(e) => e,
            Err(err) => return ImpOut::CompileErr(crate::imp::classify(&err)),
        };
        match e.search(Variable::from_json(doc).unwrap()) {
            Ok(v) => ImpOut::Ok(crate::shape::var_to_j(&v)),
            Err(err) => ImpOut::SearchErr(crate::imp::classify(&err)),
        }
    }));
    match r {
        Ok(o) => o,
        Err(p) => ImpOut::Panic(p),
    }
}

fn planted(src: &mut Src, st: &mut Stats, _env: &Env) -> CaseResult {
    let p = plant(src);
    st.eval();
    let case = json!({"expression": p.text, "document": DOC, "planted_kind": p.kind, "planted_offset": [p.lo, p.hi]});
    match if p.custom { custom_search(&p.text, DOC) } else { search_text(&p.text, DOC) } {
        ImpOut::SearchErr(e) => {
            if e.is_parse {
                return Err(Failure::new("planted", "runtime-failure-as-parse-error", e.detail, case));
            }
            if e.class != p.kind {
                return Err(Failure::new("planted", "wrong-error-kind", format!("planted {} got {}", p.kind, e.detail), case));
            }
            record_invariants("planted", &p.text, &e, DOC)?;
            if e.offset < p.lo || e.offset > p.hi {
                let sig = if p.kind == "InvalidSlice" { "slice-error-offset-outside-slice" } else { "error-offset-not-at-failing-call" };
                return Err(Failure::new("planted", sig, format!("offset {} but the failing construct is at {}..={}", e.offset, p.lo, p.hi), case));
            }
            st.class(&format!("planted:{}", p.kind));
            let head = &p.text[..e.offset];
            if (p.in_expref || head.contains('\n') || !head.is_ascii()) && st.nontrivial(&p.text) {
                st.sample(|| json!({"expression": p.text, "kind": p.kind, "offset": e.offset, "line": e.line, "column": e.column}));
            }
            Ok(())
        }
        other => Err(Failure::new("planted", "planted-fault-did-not-fail", other.brief(), case)),
    }
}

fn arbitrary(src: &mut Src, st: &mut Stats, _env: &Env) -> CaseResult {
    let (text, doc) = match src.below(5) {
        0 | 1 => {
            let doc = schema_doc(src);
            let d = 2 + src.below(3);
            let t = gen_typed(src, d);
            match spell_tree(&t, src, st) {
                Some(x) => (x.0, doc.to_json()),
                None => return Ok(()),
            }
        }
        2 => {
            let d = 1 + src.below(4);
            match gen_sentence(src, st, d) {
                Some(t) => (t, gen_doc(src, &DocOpts::default()).to_json()),
                None => return Ok(()),
            }
        }
        3 => {
            // aggregates that overflow to a non-finite value
            let xs = *src.pick(&["`[1e308, 1e308]`", "`[-1e308, -1e308, -1e308]`", "`[1e308, 1e308, -1e308]`", "`[1.7e308, 1.7e308]`"]);
            let f = *src.pick(&["sum", "avg"]);
            (format!("{}{}({}){}", ["", "'é\n' | ", "[1, "][src.below(3)], f, xs, ""), "{}".to_string())
        }
        _ => {
            let doc = schema_doc(src);
            let f = crate::refeval::SIGS[src.below(crate::refeval::SIGS.len())].name;
            let args: Vec<&str> = (0..src.below(4)).map(|_| *src.pick(&["nums", "strs", "objs", "o", "s", "n", "z", "&n", "&s", "`1`", "'é'", "@"])).collect();
            (format!("{}({})", f, args.join(", ")), doc.to_json())
        }
    };
    let text = if text.starts_with("[1, ") { format!("{}]", text) } else { text };
    check_pair("arbitrary", &text, &doc, st)
}

/// Any (expression, document) pair: if it fails, the failure must be a
/// well-formed runtime error record.
fn check_pair(sub: &str, text: &str, doc: &str, st: &mut Stats) -> CaseResult {
    let sub_owned = sub.to_string();
    let sub = sub_owned.as_str();
    let (text, doc) = (text.to_string(), doc.to_string());
    st.eval();
    match search_text(&text, &doc) {
        ImpOut::SearchErr(e) => {
            if e.is_parse {
                let sig = if crate::imp::reference_says_nonfinite(&text, &doc) || ((text.contains("sum(") || text.contains("avg(")) && (e.detail.contains("valid number") || e.detail.contains("valid f64"))) { "nonfinite-aggregate-as-parse-error" } else { "runtime-failure-as-parse-error" };
                return Err(Failure::new(sub, sig, format!("search failed with {} (expression {:?})", e.detail, e.expression), json!({"expression": text, "document": doc})));
            }
            record_invariants(sub, &text, &e, &doc)?;
            st.class(&format!("arbitrary:{}", e.class));
            let head = &text[..e.offset.min(text.len())];
            if (head.contains('\n') || !head.is_ascii()) && st.nontrivial(&text) {
                st.sample(|| json!({"expression": text, "kind": e.class, "offset": e.offset}));
            }
        }
        ImpOut::Panic(p) => return Err(Failure::new(sub, "panic", p, json!({"expression": text, "document": doc}))),
        ImpOut::CompileErr(e) => {
            if !e.is_parse {
                return Err(Failure::new(sub, "compile-failure-not-parse-error", e.detail, json!({"expression": text})));
            }
            record_invariants(sub, &text, &e, &doc)?;
        }
        _ => st.class("arbitrary:ok"),
    }
    Ok(())
}

/// The public error constructor on arbitrary (text, byte offset, reason):
/// coordinates and rendering follow the same rules as for errors the library
/// raises itself.
fn error_api(src: &mut Src, st: &mut Stats, _env: &Env) -> CaseResult {
    use jmespath::{ErrorReason, JmespathError, RuntimeError};
    let n = src.size(200);
    let mut text = String::new();
    for _ in 0..n {
        match src.below(8) {
            0 => text.push('\n'),
            1 => text.push_str(*src.pick(&["é", "日本", "😀", "\r\n", "\u{301}", "\t"])),
            _ => text.push(gen_char(src)),
        }
    }
    // a byte offset on a character boundary (including 0 and len)
    let bounds: Vec<usize> = text.char_indices().map(|(i, _)| i).chain(std::iter::once(text.len())).collect();
    let offset = bounds[src.below(bounds.len())];
    let reason = match src.below(4) {
        0 => ErrorReason::Parse("msg é".to_string()),
        1 => ErrorReason::Runtime(RuntimeError::InvalidSlice),
        2 => ErrorReason::Runtime(RuntimeError::UnknownFunction("fé".to_string())),
        _ => ErrorReason::Runtime(RuntimeError::TooManyArguments { expected: 1, actual: 2 }),
    };
    st.eval();
    let e = match catch(std::panic::AssertUnwindSafe(|| JmespathError::new(&text, offset, reason.clone()))) {
        Ok(e) => e,
        Err(p) => return Err(Failure::new("error-api", "panic", p, json!({"expression": text, "offset": offset}))),
    };
    let ie = crate::imp::classify(&e);
    record_invariants("error-api", &text, &ie, "")?;
    if e.reason != reason || e.offset != offset {
        return Err(Failure::new("error-api", "error-record-altered", format!("{:?}", e), json!({"expression": text, "offset": offset})));
    }
    let head = &text[..offset];
    if (head.contains('\n') || !head.is_ascii()) && st.nontrivial(&format!("{}|{}", text, offset)) {
        st.sample(|| json!({"expression": text, "offset": offset, "line": e.line, "column": e.column}));
    }
    Ok(())
}

const FIXED: &[(&str, &str)] = &[
    ("sum(`[1e308, 1e308]`)", "{}"),
    ("avg(`[1e308, 1e308]`)", "{}"),
    ("\"é\" | nope(@)", "{\"é\": 1}"),
    ("'日本\n' | abs(@)", "{}"),
    ("sort_by(b.d, &to_array(x))", "{\"b\":{\"d\":[{\"x\":1},{\"x\":2}]}}"),
    ("avg(`[]`)", "{}"),
];

/// Numbers at the edges of the integer and floating-point ranges.
pub const EXTREME_NUMBERS: &[&str] = &[
    "-9223372036854775808", "-9223372036854775807", "9223372036854775807", "9223372036854775808", "18446744073709551615", "18446744073709551616", "-9223372036854775809", "1e19", "-1e19", "1e300", "-1e300",
    "1.7976931348623157e308", "5e-324", "-5e-324", "2.2250738585072014e-308", "-0.0", "0", "0.0", "9007199254740992", "9007199254740993", "-9007199254740993", "2147483648", "-2147483649", "4294967296", "0.5", "-0.5", "1e-7", "123456789012345678901234567890",
];

fn fixed_cases(_env: &Env, st: &mut Stats) -> Vec<Failure> {
    let mut out = vec![];
    for (e, d) in FIXED {
        if let Err(f) = check_pair("cases", e, d, st) {
            out.push(f);
        }
    }
    // every built-in that takes a number (or anything) on numbers at the edges of the ranges,
    // as a literal and as a document value, alone and inside arrays: whatever fails, fails as a
    // well-formed runtime error
    let unary = ["abs({})", "ceil({})", "floor({})", "to_number({})", "to_string({})", "type({})", "not_null({})", "to_array({})", "sum([{}])", "avg([{}])", "max([{}])", "min([{}])", "sort([{}])", "sum([{}, `1`])", "avg([{}, `-1`])", "max([{}, `0`])", "sort([`1`, {}])", "to_number(to_string({}))", "[{}][0]", "{} == {}", "{} < `1`", "join(', ', [to_string({})])", "length(to_string({}))", "reverse([{}])", "contains([{}], {})", "map(&abs(@), [{}])", "sort_by([{{k: {}}}], &k)", "max_by([{{k: {}}}, {{k: `0`}}], &k)", "merge({{a: {}}}, {{b: {}}})", "values({{a: {}}})"];
    for n in EXTREME_NUMBERS {
        for form in unary {
            let lit = form.replace("{{", "\u{1}").replace("}}", "\u{2}").replace("{}", &format!("`{}`", n)).replace('\u{1}', "{").replace('\u{2}', "}");
            let via_doc = form.replace("{{", "\u{1}").replace("}}", "\u{2}").replace("{}", "v").replace('\u{1}', "{").replace('\u{2}', "}");
            let doc = format!("{{\"v\": {}}}", n);
            for (e, d) in [(lit.as_str(), "{}"), (via_doc.as_str(), doc.as_str())] {
                if let Err(f) = check_pair("cases", e, d, st) {
                    if !_env.is_known(&f.sig) {
                        out.push(f);
                        if out.len() > 8 {
                            return out;
                        }
                    }
                }
            }
        }
    }
    out
}

fn replay_case(case: &serde_json::Value, _env: &Env) -> CaseResult {
    let mut st = Stats::new();
    let (e, d) = (case["expression"].as_str().unwrap_or(""), case["document"].as_str().unwrap_or("null"));
    check_pair("cases", e, d, &mut st)?;
    if let Some(want) = case["expect_offset"].as_u64() {
        let got = match search_text(e, d) {
            ImpOut::SearchErr(er) | ImpOut::CompileErr(er) => er.offset as u64,
            _ => u64::MAX,
        };
        if got != want {
            return Err(Failure::new("cases", "error-offset-not-at-failing-call", format!("offset {} expected {}", got, want), case.clone()));
        }
    }
    Ok(())
}

pub fn property() -> Property {
    Property {
        id: "C12",
        rule: RULE,
        assumptions: vec![
            "the reason text (\"Parse error: ...\" / \"Runtime error: ...\") is taken from the message; kind, coordinates, caret layout and attached expression are recomputed independently".into(),
            "an invalid-slice error may point anywhere between the brackets of the slice (inclusive)".into(),
            "exactly one fault is planted per case".into(),
        ],
        minimise: None,
        subs: vec![
            Sub::Custom(CustomSub { name: "cases", run: fixed_cases, replay: replay_case }),
            Sub::Bytes(BytesSub { name: "compile-errors", f: compile_errors, max_len: 1200, quick: Budget { threads: 8, cases: 25000 }, thorough: Budget { threads: 16, cases: 200_000 }, keep_unreproducible: false }),
            Sub::Bytes(BytesSub { name: "error-api", f: error_api, max_len: 600, quick: Budget { threads: 4, cases: 15000 }, thorough: Budget { threads: 16, cases: 100_000 }, keep_unreproducible: false }),
            Sub::Bytes(BytesSub { name: "planted", f: planted, max_len: 64, quick: Budget { threads: 8, cases: 40000 }, thorough: Budget { threads: 16, cases: 100_000 }, keep_unreproducible: false }),
            Sub::Bytes(BytesSub { name: "arbitrary", f: arbitrary, max_len: 2500, quick: Budget { threads: 8, cases: 20000 }, thorough: Budget { threads: 16, cases: 150_000 }, keep_unreproducible: false }),
        ],
    }
}
