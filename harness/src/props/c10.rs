//! C10 — equality and ordering operators.

use serde_json::json;

use crate::gen_text::*;
use crate::imp::{search_text, ImpOut};
use crate::model::{J, N};
use crate::print::spell_backtick;
use crate::refeval::compare;
use crate::refast::CmpOp;
use crate::runner::*;
use crate::src::Src;

pub const RULE: &str = "pairs (l, r) of JSON values given as text: independent values of all type pairings, number pairs (same value in different spellings inside the exactly-parsed domain, identical text or well-separated values across the whole exponent range incl. subnormals and > 9e307), containers and their one-step mutants (leaf changed, element order, key set, type), identical values re-spelled; evaluated through fields of a {l, r} document and through backtick literals; oracle = own deep equality / numeric order on the model, with != the negation, symmetry, reflexivity, trichotomy and null for non-numeric ordering; non-trivial = operands of equal type that are not textually identical, or number/number (distinct by texts)";

fn spell_value(v: &J, src: &mut Src, out: &mut String) {
    match v {
        J::Num(N::Int(i)) => out.push_str(&respell_numeral(&i.to_string(), src)),
        J::Num(N::F(f)) => {
            let base = format!("{}", f);
            if numeral_is_exact_domain(&base) {
                out.push_str(&respell_numeral(&base, src))
            } else {
                out.push_str(&format!("{:?}", f))
            }
        }
        J::Str(s) => out.push_str(&spell_string(s, src, true)),
        J::Arr(a) => {
            out.push('[');
            for (i, x) in a.iter().enumerate() {
                if i > 0 {
                    out.push(',');
                }
                if src.chance(30) {
                    out.push(' ');
                }
                spell_value(x, src, out);
            }
            out.push(']');
        }
        J::Obj(o) => {
            // random member order
            let mut ks: Vec<&String> = o.keys().collect();
            for i in (1..ks.len()).rev() {
                let j = src.below(i + 1);
                ks.swap(i, j);
            }
            out.push('{');
            for (i, k) in ks.iter().enumerate() {
                if i > 0 {
                    out.push(',');
                }
                out.push_str(&spell_string(k, src, true));
                out.push(':');
                spell_value(&o[*k], src, out);
            }
            out.push('}');
        }
        other => other.write_json(out),
    }
}

fn mutate_value(v: &J, src: &mut Src) -> J {
    match v {
        J::Arr(a) if !a.is_empty() && src.chance(170) => {
            let mut b2 = a.clone();
            match src.below(5) {
                0 => {
                    let i = src.below(b2.len());
                    b2[i] = mutate_value(&b2[i], src);
                }
                1 => {
                    let i = src.below(b2.len());
                    b2.remove(i);
                }
                2 => {
                    let i = src.below(b2.len());
                    let j = src.below(b2.len());
                    b2.swap(i, j);
                }
                3 => b2.push(J::Null),
                _ => b2.reverse(),
            }
            J::Arr(b2)
        }
        J::Obj(o) if !o.is_empty() && src.chance(170) => {
            let mut m = o.clone();
            let ks: Vec<String> = m.keys().cloned().collect();
            let k = ks[src.below(ks.len())].clone();
            match src.below(4) {
                0 => {
                    let nv = mutate_value(&m[&k], src);
                    m.insert(k, nv);
                }
                1 => {
                    m.remove(&k);
                }
                2 => {
                    let v = m.remove(&k).unwrap();
                    m.insert(format!("{}x", k), v);
                }
                _ => {
                    m.insert("zz".into(), J::Null);
                }
            }
            J::Obj(m)
        }
        J::Num(n) => match src.below(4) {
            0 => J::Str(J::Num(n.clone()).to_json()),
            1 => J::Num(N::F(n.f() + 0.5)),
            2 => J::Num(N::F(-n.f())),
            _ => J::Num(N::F(n.f() * 2.0 + 1.0)),
        },
        J::Str(s) => match src.below(3) {
            0 => J::Str(format!("{}a", s)),
            1 => J::Str(s.to_uppercase()),
            _ => J::Arr(vec![J::Str(s.clone())]),
        },
        J::Bool(b) => {
            if src.flip() {
                J::Bool(!b)
            } else {
                J::Null
            }
        }
        J::Null => src.pick(&[J::Bool(false), J::int(0), J::s(""), J::Arr(vec![]), J::Obj(Default::default())]).clone(),
        J::Arr(_) => src.pick(&[J::Obj(Default::default()), J::Null, J::Arr(vec![J::Null])]).clone(),
        J::Obj(_) => src.pick(&[J::Arr(vec![]), J::Null, J::s("{}")]).clone(),
        J::Expref(_) => J::Null,
    }
}

fn wide_numeral(src: &mut Src) -> String {
    loop {
        let m = 1 + src.below(9999);
        let e = match src.below(4) {
            0 => src.range(300, 308),
            1 => src.range(-330, -300),
            _ => src.range(-300, 300),
        };
        let neg = src.chance(60);
        let s = format!("{}{}e{}", if neg { "-" } else { "" }, m, e);
        if let Ok(f) = s.parse::<f64>() {
            if f.is_finite() {
                return s;
            }
        }
    }
}

/// identical, or relative difference above 1e-9
fn well_separated(a: f64, b2: f64) -> bool {
    if a == b2 {
        return true;
    }
    let d = (a - b2).abs();
    let m = a.abs().max(b2.abs());
    d > 1e-9 * m && d > 1e-300
}

fn gen_pair(src: &mut Src, st: &mut Stats) -> Option<((J, String), (J, String), &'static str)> {
    let o = TextOpts::c10();
    match src.weighted(&[4, 5, 4, 3]) {
        0 => {
            let (l, lt) = gen_text(src, &o);
            let (r, rt) = gen_text(src, &o);
            Some(((l, lt), (r, rt), "independent"))
        }
        1 => {
            // number / number
            match src.below(5) {
                4 => {
                    // integers at the edges of the signed and unsigned 64-bit ranges against
                    // each other and against small numbers (all well separated)
                    let pool = ["18446744073709551615", "18446744073709551000", "9223372036854775808", "9223372036854775807", "9223372036854770000", "-9223372036854775808", "-9223372036854770000", "4611686018427387904", "5", "-5", "0", "1.5", "-2.5e3", "1e19", "-1e19", "1e300"];
                    let a = src.pick(&pool).to_string();
                    let b2 = src.pick(&pool).to_string();
                    let (x, y) = (a.parse::<f64>().unwrap(), b2.parse::<f64>().unwrap());
                    if a != b2 && !well_separated(x, y) {
                        st.discard();
                        return None;
                    }
                    Some(((J::Num(numeral_value(&a)), a), (J::Num(numeral_value(&b2)), b2), "number-64-bit-edges"))
                }
                0 => {
                    let base = gen_numeral(src, &o);
                    let a = respell_numeral(&base, src);
                    let b2 = respell_numeral(&base, src);
                    Some(((J::Num(numeral_value(&a)), a), (J::Num(numeral_value(&b2)), b2), "number-respelled"))
                }
                1 => {
                    let a = wide_numeral(src);
                    let b2 = if src.chance(90) { a.clone() } else { wide_numeral(src) };
                    let (x, y) = (a.parse::<f64>().unwrap(), b2.parse::<f64>().unwrap());
                    if !well_separated(x, y) {
                        st.discard();
                        return None;
                    }
                    Some(((J::Num(numeral_value(&a)), a), (J::Num(numeral_value(&b2)), b2), "number-wide"))
                }
                2 => {
                    // neighbours: x and x*(1 + 2^-k)
                    let a = wide_numeral(src);
                    let x: f64 = a.parse().unwrap();
                    let k = 8 + src.below(18) as i32;
                    let y = x * (1.0 + 2f64.powi(-k));
                    if !y.is_finite() || !well_separated(x, y) {
                        st.discard();
                        return None;
                    }
                    // 17 significant digits denote y exactly enough (>> 2 ulp apart from x)
                    let b2 = format!("{:e}", y);
                    Some(((J::Num(numeral_value(&a)), a), (J::Num(numeral_value(&b2)), b2), "number-neighbour"))
                }
                _ => {
                    let a = if src.chance(50) { src.pick(&["0", "0.0", "-0.0", "0e0", "5e-324", "1e-310"]).to_string() } else { gen_numeral(src, &o) };
                    let b2 = if src.chance(50) { src.pick(&["1e-17", "-1e-17", "3e-200", "1e-300", "2.5e-16", "1e-15", "5e-324", "0"]).to_string() } else { gen_numeral(src, &o) };
                    Some(((J::Num(numeral_value(&a)), a), (J::Num(numeral_value(&b2)), b2), "number-small"))
                }
            }
        }
        2 => {
            let (l, lt) = gen_text(src, &o);
            let r = mutate_value(&l, src);
            let mut rt = String::new();
            spell_value(&r, src, &mut rt);
            Some(((l, lt), (r, rt), "mutant"))
        }
        _ => {
            let (l, lt) = gen_text(src, &o);
            let mut rt = String::new();
            spell_value(&l, src, &mut rt);
            let r = J::parse(&rt).ok()?;
            // the re-spelled text must denote the same model value (self-check)
            if !r.deep_eq(&l) {
                st.class("harness:respell-changed-value");
                return None;
            }
            Some(((l, lt), (r, rt), "respelled"))
        }
    }
}

fn expected(l: &J, r: &J) -> J {
    let mut out = vec![];
    for (a, b2) in [(l, r), (r, l)] {
        for op in CmpOp::ALL {
            out.push(compare(op, a, b2));
        }
    }
    out.push(J::Bool(true));
    out.push(J::Bool(true));
    out.push(J::Bool(false));
    J::Arr(out)
}

const OPS: [&str; 6] = ["==", "!=", "<", "<=", ">", ">="];

fn build_expr(l: &str, r: &str) -> String {
    let mut parts = vec![];
    for (a, b2) in [(l, r), (r, l)] {
        for op in OPS {
            parts.push(format!("{} {} {}", a, op, b2));
        }
    }
    parts.push(format!("{} == {}", l, l));
    parts.push(format!("{} == {}", r, r));
    parts.push(format!("{} != {}", l, l));
    format!("[{}]", parts.join(", "))
}

fn check_pair(sub: &str, l: &J, lt: &str, r: &J, rt: &str, st: &mut Stats) -> CaseResult {
    // internal consistency of the oracle itself (trichotomy in the model)
    let want = expected(l, r);
    let doc = format!("{{\"l\":{},\"r\":{}}}", lt, rt);
    let routes = [
        ("fields", build_expr("l", "r"), doc.clone()),
        ("literals", build_expr(&spell_backtick(lt), &spell_backtick(rt)), "0".to_string()),
        ("literal-field", build_expr(&spell_backtick(lt), "r"), doc.clone()),
        ("field-literal", build_expr("l", &spell_backtick(rt)), doc.clone()),
        ("elements", build_expr("a[0]", "a[-1]"), format!("{{\"a\":[{},{}]}}", lt, rt)),
    ];
    for (route, expr, d) in routes.iter() {
        st.eval();
        let case = json!({"l": lt, "r": rt, "route": route, "expression": expr, "document": d});
        match search_text(expr, d) {
            ImpOut::Ok(g) => {
                if !g.deep_eq(&want) {
                    // name the first differing operator
                    let (ga, wa) = (g.as_arr().cloned().unwrap_or_default(), want.as_arr().cloned().unwrap_or_default());
                    let names = ["l==r", "l!=r", "l<r", "l<=r", "l>r", "l>=r", "r==l", "r!=l", "r<l", "r<=l", "r>l", "r>=l", "l==l", "r==r", "l!=l"];
                    let mut which = "?".to_string();
                    for i in 0..wa.len().min(ga.len()) {
                        if !ga[i].deep_eq(&wa[i]) {
                            which = format!("{} gave {} expected {}", names[i], ga[i].to_json(), wa[i].to_json());
                            break;
                        }
                    }
                    let sig = if which.starts_with("l==") || which.starts_with("r==") || which.starts_with("l!=") || which.starts_with("r!=") {
                        "equality-wrong"
                    } else {
                        "ordering-wrong"
                    };
                    return Err(Failure::new(sub, sig, format!("{} ({} route)", which, route), case));
                }
            }
            other => return Err(Failure::new(sub, "comparison-failed", other.brief(), case)),
        }
    }
    // the operands handed in as Rust integers of every width that holds them (round 17)
    if let (J::Num(N::Int(a)), J::Num(N::Int(b))) = (l, r) {
        let expr = build_expr("l", "r");
        for width in 0..8usize {
            if let Some(out) = search_typed_ints(&expr, *a, *b, width) {
                st.eval();
                let case = json!({"l": lt, "r": rt, "route": "typed-integers", "width": width, "expression": expr});
                match out {
                    ImpOut::Ok(g) => {
                        if !g.deep_eq(&want) {
                            return Err(Failure::new(sub, "typed-operands-compare-differently", format!("gave {} expected {} (operands as Rust integers, width choice {})", g.to_json(), want.to_json(), width), case));
                        }
                    }
                    other => return Err(Failure::new(sub, "comparison-failed", other.brief(), case)),
                }
            }
        }
    }
    Ok(())
}

/// An integer serialised through the `serialize_*` call of one Rust integer type.
struct TypedInt(i128, usize);

impl serde::Serialize for TypedInt {
    fn serialize<S: serde::Serializer>(&self, s: S) -> Result<S::Ok, S::Error> {
        let v = self.0;
        match self.1 {
            0 => s.serialize_i8(v as i8),
            1 => s.serialize_i16(v as i16),
            2 => s.serialize_i32(v as i32),
            3 => s.serialize_i64(v as i64),
            4 => s.serialize_u8(v as u8),
            5 => s.serialize_u16(v as u16),
            6 => s.serialize_u32(v as u32),
            _ => s.serialize_u64(v as u64),
        }
    }
}

fn fits(v: i128, ty: usize) -> bool {
    let (lo, hi): (i128, i128) = match ty {
        0 => (i8::MIN as i128, i8::MAX as i128),
        1 => (i16::MIN as i128, i16::MAX as i128),
        2 => (i32::MIN as i128, i32::MAX as i128),
        3 => (i64::MIN as i128, i64::MAX as i128),
        4 => (0, u8::MAX as i128),
        5 => (0, u16::MAX as i128),
        6 => (0, u32::MAX as i128),
        _ => (0, u64::MAX as i128),
    };
    v >= lo && v <= hi
}

/// `{l, r}` as a Rust map of typed integers: the left operand through type `ty`, the right one
/// through the first type from `ty` onwards that holds it. None when `ty` does not hold `l`.
fn search_typed_ints(expr: &str, l: i128, r: i128, ty: usize) -> Option<ImpOut> {
    if !fits(l, ty) {
        return None;
    }
    let rty = (0..8).map(|k| (ty + k) % 8).find(|t| fits(r, *t))?;
    let r = catch(std::panic::AssertUnwindSafe(|| {
        let e = match jmespath::compile(expr) {
            Ok(e) => e,
            Err(err) => return ImpOut::CompileErr(crate::imp::classify(&err)),
        };
        let mut m = std::collections::BTreeMap::new();
        m.insert("l", TypedInt(l, ty));
        m.insert("r", TypedInt(r, rty));
        let v = match jmespath::Variable::from_serializable(&m) {
            Ok(v) => v,
            Err(err) => return ImpOut::BadDoc(err.to_string()),
        };
        match e.search(v) {
            Ok(r) => ImpOut::Ok(crate::shape::var_to_j(&r)),
            Err(err) => ImpOut::SearchErr(crate::imp::classify(&err)),
        }
    }));
    Some(match r {
        Ok(o) => o,
        Err(p) => ImpOut::Panic(p),
    })
}

/// Containers built by the expression itself around the two operands (multi-select
/// lists and hashes): their members are the very nodes of the document, shared
/// between both sides of the comparison.
fn check_wrapped(sub: &str, l: &J, lt: &str, r: &J, rt: &str, st: &mut Stats) -> CaseResult {
    let obj = |kvs: &[(&str, &J)]| J::Obj(kvs.iter().map(|(k, v)| (k.to_string(), (*v).clone())).collect());
    let arr = |vs: &[&J]| J::Arr(vs.iter().map(|v| (*v).clone()).collect());
    let cases: Vec<(&str, J, J)> = vec![
        ("{a: l} OP {b: l}", obj(&[("a", l)]), obj(&[("b", l)])),
        ("{a: l, b: r} OP {a: l, c: r}", obj(&[("a", l), ("b", r)]), obj(&[("a", l), ("c", r)])),
        ("{a: l, b: r} OP {b: r, a: l}", obj(&[("a", l), ("b", r)]), obj(&[("a", l), ("b", r)])),
        ("{a: l} OP {a: r}", obj(&[("a", l)]), obj(&[("a", r)])),
        ("{a: l} OP {a: l, b: l}", obj(&[("a", l)]), obj(&[("a", l), ("b", l)])),
        ("[l, r] OP [l, r]", arr(&[l, r]), arr(&[l, r])),
        ("[l, r] OP [r, l]", arr(&[l, r]), arr(&[r, l])),
        ("[l] OP [l, l]", arr(&[l]), arr(&[l, l])),
        ("[[l]] OP [[r]]", arr(&[&arr(&[l])]), arr(&[&arr(&[r])])),
        ("{a: [l]} OP {a: [l]}", obj(&[("a", &arr(&[l]))]), obj(&[("a", &arr(&[l]))])),
        ("[l] OP l", arr(&[l]), l.clone()),
        ("{a: @} OP {b: @}", J::Null, J::Null), // placeholder, filled below
    ];
    let doc = format!("{{\"l\":{},\"r\":{}}}", lt, rt);
    let docj = obj(&[("l", l), ("r", r)]);
    let mut parts = vec![];
    let mut want = vec![];
    for (tpl, a, b2) in &cases {
        let (a, b2) = if tpl.contains('@') { (obj(&[("a", &docj)]), obj(&[("b", &docj)])) } else { (a.clone(), b2.clone()) };
        for op in [CmpOp::Eq, CmpOp::Ne, CmpOp::Le] {
            parts.push(tpl.replace("OP", op.text()));
            want.push(compare(op, &a, &b2));
        }
    }
    let expr = format!("[{}]", parts.join(", "));
    st.eval();
    let case = json!({"l": lt, "r": rt, "route": "wrapped", "expression": expr, "document": doc});
    match search_text(&expr, &doc) {
        ImpOut::Ok(J::Arr(g)) if g.len() == want.len() => {
            for i in 0..g.len() {
                if !g[i].deep_eq(&want[i]) {
                    let sig = if parts[i].contains("<=") { "ordering-wrong" } else { "equality-wrong" };
                    return Err(Failure::new(sub, sig, format!("{} gave {} expected {} (wrapped route)", parts[i], g[i].to_json(), want[i].to_json()), case));
                }
            }
            Ok(())
        }
        other => Err(Failure::new(sub, "comparison-failed", other.brief(), case)),
    }
}

/// The operator gate itself, called directly: `Variable::compare(op, other)` gives
/// Some(boolean) for `==` / `!=` on any pair and for ordering on two numbers, and
/// None (which the interpreter turns into null) for ordering on anything else.
/// It must agree with what `l OP r` evaluates to.
fn check_api(sub: &str, lt: &str, rt: &str, st: &mut Stats) -> CaseResult {
    use jmespath::ast::Comparator;
    let (lv, rv) = match (jmespath::Variable::from_json(lt), jmespath::Variable::from_json(rt)) {
        (Ok(a), Ok(b2)) => (a, b2),
        _ => return Ok(()),
    };
    let doc = format!("{{\"l\":{},\"r\":{}}}", lt, rt);
    let ops = [(Comparator::Equal, "=="), (Comparator::NotEqual, "!="), (Comparator::LessThan, "<"), (Comparator::LessThanEqual, "<="), (Comparator::GreaterThan, ">"), (Comparator::GreaterThanEqual, ">=")];
    for (a, b2, at, bt) in [(&lv, &rv, "l", "r"), (&rv, &lv, "r", "l"), (&lv, &lv, "l", "l")] {
        for (op, text) in &ops {
            st.eval();
            let direct = match catch(std::panic::AssertUnwindSafe(|| a.compare(op, b2))) {
                Ok(d) => d,
                Err(p) => return Err(Failure::new(sub, "panic", p, json!({"l": lt, "r": rt}))),
            };
            let expr = format!("{} {} {}", at, text, bt);
            let via = search_text(&expr, &doc);
            let agrees = match (&direct, &via) {
                (Some(x), ImpOut::Ok(J::Bool(y))) => x == y,
                (None, ImpOut::Ok(J::Null)) => true,
                _ => false,
            };
            // the comparison node assembled by hand (all offsets equal: the two operand nodes
            // of `l OP l` are then equal as trees) must evaluate like the compiled text
            if agrees {
                let cop = match *text {
                    "==" => CmpOp::Eq,
                    "!=" => CmpOp::Ne,
                    "<" => CmpOp::Lt,
                    "<=" => CmpOp::Le,
                    ">" => CmpOp::Gt,
                    _ => CmpOp::Ge,
                };
                let tree = crate::refast::RefExpr::Cmp(cop, Box::new(crate::refast::RefExpr::field(at)), Box::new(crate::refast::RefExpr::field(bt)));
                crate::imp::ast_route_agrees_with(sub, &tree, &expr, &doc, 0, 0, vec![], 0)?;
            }
            if !agrees {
                return Err(Failure::new(
                    sub,
                    "compare-api-differs-from-operator",
                    format!("Variable::compare({:?}) on ({}, {}) gives {:?} but `{}` evaluates to {}", op, if at == "l" { lt } else { rt }, if bt == "l" { lt } else { rt }, direct, expr, via.brief()),
                    json!({"l": lt, "r": rt, "expression": expr, "document": doc}),
                ));
            }
        }
    }
    Ok(())
}

fn pairs(src: &mut Src, st: &mut Stats, _env: &Env) -> CaseResult {
    let ((l, lt), (r, rt), kind) = match gen_pair(src, st) {
        Some(x) => x,
        None => return Ok(()),
    };
    // the algebraic laws hold for every pair
    laws_only("pairs", &lt, &rt, matches!((&l, &r), (J::Num(_), J::Num(_))), st)?;
    check_api("pairs", &lt, &rt, st)?;
    // the *values* of comparisons between near ties are outside the statement
    if let (J::Num(a), J::Num(b2)) = (&l, &r) {
        if !well_separated(a.f(), b2.f()) {
            st.discard();
            return Ok(());
        }
    }
    if has_near_tie(&l, &r) {
        st.discard();
        return Ok(());
    }
    check_pair("pairs", &l, &lt, &r, &rt, st)?;
    check_wrapped("pairs", &l, &lt, &r, &rt, st)?;
    st.class(&format!("pair:{}", kind));
    st.class(&format!("types:{}/{}", l.type_name(), r.type_name()));
    if l.deep_eq(&r) {
        st.class("equal-pairs");
    }
    let nt = (l.type_name() == r.type_name() && lt != rt) || (matches!(l, J::Num(_)) && matches!(r, J::Num(_)));
    if nt && st.nontrivial(&format!("{}\u{0}{}", lt, rt)) {
        st.sample(|| json!({"l": lt, "r": rt, "kind": kind, "equal": l.deep_eq(&r)}));
    }
    Ok(())
}

/// Any pair of corresponding numeric leaves that are distinct but closer than
/// the well-separated bound.
fn has_near_tie(l: &J, r: &J) -> bool {
    match (l, r) {
        (J::Num(a), J::Num(b2)) => !well_separated(a.f(), b2.f()) || (a.f() == b2.f() && !a.same_value(b2)),
        (J::Arr(a), J::Arr(b2)) => a.iter().zip(b2.iter()).any(|(x, y)| has_near_tie(x, y)),
        (J::Obj(a), J::Obj(b2)) => a.iter().any(|(k, x)| b2.get(k).map(|y| has_near_tie(x, y)).unwrap_or(false)),
        _ => false,
    }
}

/// Laws that hold for *every* pair, including numbers that are only a few
/// units in the last place apart (where `==` is tolerant): `!=` negates `==`,
/// `==` is symmetric and reflexive, `a <= b` iff `a < b` or `a == b`, `a < b`
/// iff `b > a`, ordering is boolean exactly for number pairs.
fn laws_only(sub: &str, lt: &str, rt: &str, both_numbers: bool, st: &mut Stats) -> CaseResult {
    let doc = format!("{{\"l\":{},\"r\":{}}}", lt, rt);
    let routes = [
        ("fields", build_expr("l", "r"), doc.clone()),
        ("literals", build_expr(&spell_backtick(lt), &spell_backtick(rt)), "0".to_string()),
        ("literal-field", build_expr(&spell_backtick(lt), "r"), doc.clone()),
        ("field-literal", build_expr("l", &spell_backtick(rt)), doc.clone()),
        // both operands are the very same node of the document
        ("same-node", build_expr("l", "l"), doc.clone()),
        // (a multi-select on a null current node is null, so `@` is only used on other values)
        ("same-node-current", build_expr("@", "@"), if rt.trim() == "null" { "[null]".to_string() } else { rt.to_string() }),
        ("same-element", build_expr("a[0]", "a[-1]"), format!("{{\"a\":[{}]}}", lt)),
    ];
    let is_num = |t: &str| matches!(J::parse(t), Ok(J::Num(_)));
    let (l_num, r_num) = (is_num(lt), is_num(rt));
    for (route, expr, d) in routes.iter() {
        let both_numbers = match *route {
            "same-node" | "same-element" => l_num,
            "same-node-current" => r_num,
            _ => both_numbers && l_num && r_num,
        };
        st.eval();
        let case = json!({"l": lt, "r": rt, "route": route, "expression": expr, "document": d});
        let g = match search_text(expr, d) {
            ImpOut::Ok(J::Arr(a)) if a.len() == 15 => a,
            other => return Err(Failure::new(sub, "comparison-failed", other.brief(), case)),
        };
        let b = |i: usize| -> Option<bool> {
            match &g[i] {
                J::Bool(x) => Some(*x),
                _ => None,
            }
        };
        // indexes: 0 l==r 1 l!=r 2 l<r 3 l<=r 4 l>r 5 l>=r 6 r==l 7 r!=l 8 r<l 9 r<=l 10 r>l 11 r>=l 12 l==l 13 r==r 14 l!=l
        let mut bad: Option<String> = None;
        let eq = b(0);
        if eq.is_none() || b(1) != eq.map(|x| !x) || b(7) != b(6).map(|x| !x) {
            bad = Some("`!=` is not the negation of `==`".into());
        } else if b(0) != b(6) {
            bad = Some("`==` is not symmetric".into());
        } else if b(12) != Some(true) || b(13) != Some(true) || b(14) != Some(false) {
            bad = Some("`==` is not reflexive".into());
        } else if both_numbers {
            let all_bool = (2..6).chain(8..12).all(|i| b(i).is_some());
            if !all_bool {
                bad = Some("ordering of two numbers is not a boolean".into());
            } else if b(3) != Some(b(2).unwrap() || eq.unwrap()) || b(9) != Some(b(8).unwrap() || eq.unwrap()) {
                bad = Some("`a <= b` differs from `a < b || a == b`".into());
            } else if b(5) != Some(b(4).unwrap() || eq.unwrap()) || b(11) != Some(b(10).unwrap() || eq.unwrap()) {
                bad = Some("`a >= b` differs from `a > b || a == b`".into());
            } else if b(2) != b(10) || b(4) != b(8) {
                bad = Some("`a < b` differs from `b > a`".into());
            }
        } else if (2..6).chain(8..12).any(|i| !g[i].is_null()) {
            bad = Some("ordering of non-numbers is not null".into());
        }
        if let Some(m) = bad {
            return Err(Failure::new(sub, "comparison-laws-broken", format!("{} ({} route): {}", m, route, J::Arr(g.clone()).to_json()), case));
        }
    }
    Ok(())
}

fn near_ties(src: &mut Src, st: &mut Stats, _env: &Env) -> CaseResult {
    // a double and a neighbour a few ulps away, or adjacent integers beyond 2^53
    let (lt, rt): (String, String) = match src.below(4) {
        0 => {
            let x = [0.1 + 0.2, 0.7100000000000002, 1.0 / 3.0, 2.0f64.sqrt(), 1e22, 123456.789e3, 5e-324, 2.2250738585072014e-308][src.below(8)];
            let k = 1 + src.below(3) as u64;
            let y = f64::from_bits(if src.flip() { x.to_bits() + k } else { x.to_bits().saturating_sub(k) });
            (format!("{:?}", x), format!("{:?}", y))
        }
        1 => {
            let f = f64::from_bits(src.u64());
            let x = if f.is_finite() { f } else { 1.5 };
            let k = 1 + src.below(4) as u64;
            let y = f64::from_bits(x.to_bits().wrapping_add(k));
            let y = if y.is_finite() { y } else { x };
            (format!("{:?}", x), format!("{:?}", y))
        }
        2 => {
            let base: i128 = *src.pick(&[(1i128 << 53), (1i128 << 60) + 12345, i64::MAX as i128 - 3, (1i128 << 63) + 7, u64::MAX as i128 - 2]);
            let d = src.range(0, 2) as i128;
            (format!("{}", base), format!("{}", base + d))
        }
        _ => {
            let x = src.range(-50, 50) as f64 / 8.0 + 0.1;
            let y = f64::from_bits(x.to_bits() ^ 1);
            (format!("{:?}", x), format!("{:?}", y))
        }
    };
    let nested = src.chance(90);
    let (lt, rt, both_numbers) = if nested {
        match src.below(3) {
            0 => (format!("[{}]", lt), format!("[{}]", rt), false),
            1 => (format!("{{\"a\":{}}}", lt), format!("{{\"a\":{}}}", rt), false),
            _ => (format!("[1,{{\"k\":[{}]}}]", lt), format!("[1,{{\"k\":[{}]}}]", rt), false),
        }
    } else {
        (lt, rt, true)
    };
    laws_only("near-ties", &lt, &rt, both_numbers, st)?;
    st.class(if nested { "near-tie:nested" } else { "near-tie:numbers" });
    if st.nontrivial(&format!("{}\u{0}{}", lt, rt)) {
        st.sample(|| json!({"l": lt, "r": rt}));
    }
    Ok(())
}

/// Deeply nested and wide values: equality must stay structural at every
/// depth (up to the JSON parser's 128 levels) and width.
fn deep_wide(src: &mut Src, st: &mut Stats, _env: &Env) -> CaseResult {
    let leaf_l = match src.below(4) {
        0 => J::int(src.range(-3, 3)),
        1 => J::s("x"),
        2 => J::Arr(vec![]),
        _ => J::Null,
    };
    let same = src.flip();
    let leaf_r = if same { leaf_l.clone() } else { crate::gen_doc::near_value(&leaf_l, src) };
    let (mut l, mut r) = (leaf_l, leaf_r);
    if src.flip() {
        // depth tower
        let depth = match src.below(3) {
            0 => 1 + src.below(12),
            1 => 20 + src.below(50),
            _ => 100 + src.below(25),
        };
        for i in 0..depth {
            if (i + src.below(2)) % 2 == 0 {
                l = J::Arr(vec![l]);
                r = J::Arr(vec![r]);
            } else {
                let mut ml = std::collections::BTreeMap::new();
                ml.insert("k".to_string(), l);
                let mut mr = std::collections::BTreeMap::new();
                mr.insert("k".to_string(), r);
                l = J::Obj(ml);
                r = J::Obj(mr);
            }
        }
        st.class("deep");
    } else {
        // wide container with the difference at a random position
        let n = src.size(400).max(1);
        let pos = src.below(n);
        let as_obj = src.flip();
        let mk = |x: J, n: usize, pos: usize, as_obj: bool| -> J {
            if as_obj {
                J::Obj((0..n).map(|i| (format!("k{:04}", i), if i == pos { x.clone() } else { J::int(i as i64) })).collect())
            } else {
                J::Arr((0..n).map(|i| if i == pos { x.clone() } else { J::int(i as i64) }).collect())
            }
        };
        l = mk(l, n, pos, as_obj);
        r = mk(r, n, pos, as_obj);
        st.class("wide");
    }
    let (lt, rt) = (l.to_json(), r.to_json());
    if has_near_tie(&l, &r) {
        return laws_only("deep-wide", &lt, &rt, false, st);
    }
    check_pair("deep-wide", &l, &lt, &r, &rt, st)?;
    if st.nontrivial(&format!("{}\u{0}{}", lt, rt)) {
        st.sample(|| json!({"l_bytes": lt.len(), "r_bytes": rt.len(), "equal": l.deep_eq(&r), "l_prefix": lt.chars().take(60).collect::<String>()}));
    }
    Ok(())
}

fn case_pair(lt: &str, rt: &str, st: &mut Stats) -> CaseResult {
    let l = J::Num(numeral_value(lt));
    let r = J::Num(numeral_value(rt));
    let (l, r) = (J::parse(lt).unwrap_or(l), J::parse(rt).unwrap_or(r));
    let both = matches!((&l, &r), (J::Num(_), J::Num(_)));
    laws_only("cases", lt, rt, both, st)?;
    if let (J::Num(a), J::Num(b2)) = (&l, &r) {
        // distinct numbers that are the same (or nearly the same) double: only the laws apply
        if !well_separated(a.f(), b2.f()) || (a.f() == b2.f() && !a.same_value(b2)) {
            return Ok(());
        }
    }
    if has_near_tie(&l, &r) {
        return Ok(());
    }
    check_pair("cases", &l, lt, &r, rt, st)
}

fn fixed_cases(_env: &Env, st: &mut Stats) -> Vec<Failure> {
    let mut out = vec![];
    for (l, r) in [("1.5e308", "1.6e308"), ("1.7e308", "-1.7e308"), ("1", "1.0"), ("5e-324", "1e-323"), ("0", "-0.0"), ("[1,{\"a\":2}]", "[1.0,{\"a\":2e0}]"), ("1", "\"1\""), ("0.30000000000000004", "0.3"), ("9007199254740993", "9007199254740992"), ("[0.30000000000000004]", "[0.3]")] {
        if let Err(f) = case_pair(l, r, st) {
            out.push(f);
        }
    }
    out
}

fn replay_case(case: &serde_json::Value, _env: &Env) -> CaseResult {
    let mut st = Stats::new();
    case_pair(case["l"].as_str().unwrap_or("null"), case["r"].as_str().unwrap_or("null"), &mut st)
}

pub fn property() -> Property {
    Property {
        id: "C10",
        rule: RULE,
        assumptions: vec![
            "numbers are identical or differ by more than 1e-9 relatively (the statement's 'well-separated'); the same value in different spellings is only generated inside the numeral domain the JSON parser reads exactly (<= 15 digits, |exponent| <= 22)".into(),
            "the model value of a numeral is std's correctly rounded parse".into(),
        ],
        minimise: None,
        subs: vec![
            Sub::Custom(CustomSub { name: "cases", run: fixed_cases, replay: replay_case }),
            Sub::Bytes(BytesSub { name: "deep-wide", f: deep_wide, max_len: 64, quick: Budget { threads: 4, cases: 1500 }, thorough: Budget { threads: 16, cases: 60_000 }, keep_unreproducible: false }),
            Sub::Bytes(BytesSub { name: "near-ties", f: near_ties, max_len: 48, quick: Budget { threads: 4, cases: 4000 }, thorough: Budget { threads: 16, cases: 200_000 }, keep_unreproducible: false }),
            Sub::Bytes(BytesSub { name: "pairs", f: pairs, max_len: 600, quick: Budget { threads: 8, cases: 6000 }, thorough: Budget { threads: 16, cases: 300_000 }, keep_unreproducible: false }),
        ],
    }
}
