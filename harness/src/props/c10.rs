//! C10 — equality and ordering operators.

use serde_json::json;

use crate::gen_text::*;
use crate::imp::{search_text, ImpOut};
use crate::model::{J, N};
use crate::print::spell_backtick;
use crate::refeval::compare;
use crate::refast::CmpOp;
use crate::runner::*;
use crate::src::Src;

pub const RULE: &str = "pairs (l, r) of JSON values given as text: independent values of all type pairings, number pairs (same value in different spellings inside the exactly-parsed domain, identical text or well-separated values across the whole exponent range incl. subnormals and > 9e307), containers and their one-step mutants (leaf changed, element order, key set, type), identical values re-spelled; evaluated through fields of a {l, r} document and through backtick literals; oracle = own deep equality / numeric order on the model, with != the negation, symmetry, reflexivity, trichotomy and null for non-numeric ordering; non-trivial = operands of equal type that are not textually identical, or number/number (distinct by texts)";

fn spell_value(v: &J, src: &mut Src, out: &mut String) {
    match v {
        J::Num(N::Int(i)) => out.push_str(&respell_numeral(&i.to_string(), src)),
        J::Num(N::F(f)) => {
            let base = format!("{}", f);
            if numeral_is_exact_domain(&base) {
                out.push_str(&respell_numeral(&base, src))
            } else {
                out.push_str(&format!("{:?}", f))
            }
        }
        J::Str(s) => out.push_str(&spell_string(s, src, true)),
        J::Arr(a) => {
            out.push('[');
            for (i, x) in a.iter().enumerate() {
                if i > 0 {
                    out.push(',');
                }
                if src.chance(30) {
                    out.push(' ');
                }
                spell_value(x, src, out);
            }
            out.push(']');
        }
        J::Obj(o) => {
            // random member order
            let mut ks: Vec<&String> = o.keys().collect();
            for i in (1..ks.len()).rev() {
                let j = src.below(i + 1);
                ks.swap(i, j);
            }
            out.push('{');
            for (i, k) in ks.iter().enumerate() {
                if i > 0 {
                    out.push(',');
                }
                out.push_str(&spell_string(k, src, true));
                out.push(':');
                spell_value(&o[*k], src, out);
            }
            out.push('}');
        }
        other => other.write_json(out),
    }
}

fn mutate_value(v: &J, src: &mut Src) -> J {
    match v {
        J::Arr(a) if !a.is_empty() && src.chance(170) => {
            let mut b2 = a.clone();
            match src.below(5) {
                0 => {
                    let i = src.below(b2.len());
                    b2[i] = mutate_value(&b2[i], src);
                }
                1 => {
                    let i = src.below(b2.len());
                    b2.remove(i);
                }
                2 => {
                    let i = src.below(b2.len());
                    let j = src.below(b2.len());
                    b2.swap(i, j);
                }
                3 => b2.push(J::Null),
                _ => b2.reverse(),
            }
            J::Arr(b2)
        }
        J::Obj(o) if !o.is_empty() && src.chance(170) => {
            let mut m = o.clone();
            let ks: Vec<String> = m.keys().cloned().collect();
            let k = ks[src.below(ks.len())].clone();
            match src.below(4) {
                0 => {
                    let nv = mutate_value(&m[&k], src);
                    m.insert(k, nv);
                }
                1 => {
                    m.remove(&k);
                }
                2 => {
                    let v = m.remove(&k).unwrap();
                    m.insert(format!("{}x", k), v);
                }
                _ => {
                    m.insert("zz".into(), J::Null);
                }
            }
            J::Obj(m)
        }
        J::Num(n) => match src.below(4) {
            0 => J::Str(J::Num(n.clone()).to_json()),
            1 => J::Num(N::F(n.f() + 0.5)),
            2 => J::Num(N::F(-n.f())),
            _ => J::Num(N::F(n.f() * 2.0 + 1.0)),
        },
        J::Str(s) => match src.below(3) {
            0 => J::Str(format!("{}a", s)),
            1 => J::Str(s.to_uppercase()),
            _ => J::Arr(vec![J::Str(s.clone())]),
        },
        J::Bool(b) => {
            if src.flip() {
                J::Bool(!b)
            } else {
                J::Null
            }
        }
        J::Null => src.pick(&[J::Bool(false), J::int(0), J::s(""), J::Arr(vec![]), J::Obj(Default::default())]).clone(),
        J::Arr(_) => src.pick(&[J::Obj(Default::default()), J::Null, J::Arr(vec![J::Null])]).clone(),
        J::Obj(_) => src.pick(&[J::Arr(vec![]), J::Null, J::s("{}")]).clone(),
        J::Expref(_) => J::Null,
    }
}

fn wide_numeral(src: &mut Src) -> String {
    loop {
        let m = 1 + src.below(9999);
        let e = match src.below(4) {
            0 => src.range(300, 308),
            1 => src.range(-330, -300),
            _ => src.range(-300, 300),
        };
        let neg = src.chance(60);
        let s = format!("{}{}e{}", if neg { "-" } else { "" }, m, e);
        if let Ok(f) = s.parse::<f64>() {
            if f.is_finite() {
                return s;
            }
        }
    }
}

/// identical, or relative difference above 1e-9
fn well_separated(a: f64, b2: f64) -> bool {
    if a == b2 {
        return true;
    }
    let d = (a - b2).abs();
    let m = a.abs().max(b2.abs());
    d > 1e-9 * m && d > 1e-300
}

fn gen_pair(src: &mut Src, st: &mut Stats) -> Option<((J, String), (J, String), &'static str)> {
    let o = TextOpts::c10();
    match src.weighted(&[4, 5, 4, 3]) {
        0 => {
            let (l, lt) = gen_text(src, &o);
            let (r, rt) = gen_text(src, &o);
            Some(((l, lt), (r, rt), "independent"))
        }
        1 => {
            // number / number
            match src.below(4) {
                0 => {
                    let base = gen_numeral(src, &o);
                    let a = respell_numeral(&base, src);
                    let b2 = respell_numeral(&base, src);
                    Some(((J::Num(numeral_value(&a)), a), (J::Num(numeral_value(&b2)), b2), "number-respelled"))
                }
                1 => {
                    let a = wide_numeral(src);
                    let b2 = if src.chance(90) { a.clone() } else { wide_numeral(src) };
                    let (x, y) = (a.parse::<f64>().unwrap(), b2.parse::<f64>().unwrap());
                    if !well_separated(x, y) {
                        st.discard();
                        return None;
                    }
                    Some(((J::Num(numeral_value(&a)), a), (J::Num(numeral_value(&b2)), b2), "number-wide"))
                }
                2 => {
                    // neighbours: x and x*(1 + 2^-k)
                    let a = wide_numeral(src);
                    let x: f64 = a.parse().unwrap();
                    let k = 8 + src.below(18) as i32;
                    let y = x * (1.0 + 2f64.powi(-k));
                    if !y.is_finite() || !well_separated(x, y) {
                        st.discard();
                        return None;
                    }
                    // 17 significant digits denote y exactly enough (>> 2 ulp apart from x)
                    let b2 = format!("{:e}", y);
                    Some(((J::Num(numeral_value(&a)), a), (J::Num(numeral_value(&b2)), b2), "number-neighbour"))
                }
                _ => {
                    let a = gen_numeral(src, &o);
                    let b2 = gen_numeral(src, &o);
                    Some(((J::Num(numeral_value(&a)), a), (J::Num(numeral_value(&b2)), b2), "number-small"))
                }
            }
        }
        2 => {
            let (l, lt) = gen_text(src, &o);
            let r = mutate_value(&l, src);
            let mut rt = String::new();
            spell_value(&r, src, &mut rt);
            Some(((l, lt), (r, rt), "mutant"))
        }
        _ => {
            let (l, lt) = gen_text(src, &o);
            let mut rt = String::new();
            spell_value(&l, src, &mut rt);
            let r = J::parse(&rt).ok()?;
            // the re-spelled text must denote the same model value (self-check)
            if !r.deep_eq(&l) {
                st.class("harness:respell-changed-value");
                return None;
            }
            Some(((l, lt), (r, rt), "respelled"))
        }
    }
}

fn expected(l: &J, r: &J) -> J {
    let mut out = vec![];
    for (a, b2) in [(l, r), (r, l)] {
        for op in CmpOp::ALL {
            out.push(compare(op, a, b2));
        }
    }
    out.push(J::Bool(true));
    out.push(J::Bool(true));
    out.push(J::Bool(false));
    J::Arr(out)
}

const OPS: [&str; 6] = ["==", "!=", "<", "<=", ">", ">="];

fn build_expr(l: &str, r: &str) -> String {
    let mut parts = vec![];
    for (a, b2) in [(l, r), (r, l)] {
        for op in OPS {
            parts.push(format!("{} {} {}", a, op, b2));
        }
    }
    parts.push(format!("{} == {}", l, l));
    parts.push(format!("{} == {}", r, r));
    parts.push(format!("{} != {}", l, l));
    format!("[{}]", parts.join(", "))
}

fn check_pair(sub: &str, l: &J, lt: &str, r: &J, rt: &str, st: &mut Stats) -> CaseResult {
    // internal consistency of the oracle itself (trichotomy in the model)
    let want = expected(l, r);
    let doc = format!("{{\"l\":{},\"r\":{}}}", lt, rt);
    let routes = [
        ("fields", build_expr("l", "r"), doc.clone()),
        ("literals", build_expr(&spell_backtick(lt), &spell_backtick(rt)), "0".to_string()),
    ];
    for (route, expr, d) in routes.iter() {
        st.eval();
        let case = json!({"l": lt, "r": rt, "route": route, "expression": expr, "document": d});
        match search_text(expr, d) {
            ImpOut::Ok(g) => {
                if !g.deep_eq(&want) {
                    // name the first differing operator
                    let (ga, wa) = (g.as_arr().cloned().unwrap_or_default(), want.as_arr().cloned().unwrap_or_default());
                    let names = ["l==r", "l!=r", "l<r", "l<=r", "l>r", "l>=r", "r==l", "r!=l", "r<l", "r<=l", "r>l", "r>=l", "l==l", "r==r", "l!=l"];
                    let mut which = "?".to_string();
                    for i in 0..wa.len().min(ga.len()) {
                        if !ga[i].deep_eq(&wa[i]) {
                            which = format!("{} gave {} expected {}", names[i], ga[i].to_json(), wa[i].to_json());
                            break;
                        }
                    }
                    let sig = if which.starts_with("l==") || which.starts_with("r==") || which.starts_with("l!=") || which.starts_with("r!=") {
                        "equality-wrong"
                    } else {
                        "ordering-wrong"
                    };
                    return Err(Failure::new(sub, sig, format!("{} ({} route)", which, route), case));
                }
            }
            other => return Err(Failure::new(sub, "comparison-failed", other.brief(), case)),
        }
    }
    Ok(())
}

fn pairs(src: &mut Src, st: &mut Stats, _env: &Env) -> CaseResult {
    let ((l, lt), (r, rt), kind) = match gen_pair(src, st) {
        Some(x) => x,
        None => return Ok(()),
    };
    // near ties between distinct numbers are outside the statement
    if let (J::Num(a), J::Num(b2)) = (&l, &r) {
        if !well_separated(a.f(), b2.f()) {
            st.discard();
            return Ok(());
        }
    }
    if has_near_tie(&l, &r) {
        st.discard();
        return Ok(());
    }
    check_pair("pairs", &l, &lt, &r, &rt, st)?;
    st.class(&format!("pair:{}", kind));
    st.class(&format!("types:{}/{}", l.type_name(), r.type_name()));
    if l.deep_eq(&r) {
        st.class("equal-pairs");
    }
    let nt = (l.type_name() == r.type_name() && lt != rt) || (matches!(l, J::Num(_)) && matches!(r, J::Num(_)));
    if nt && st.nontrivial(&format!("{}\u{0}{}", lt, rt)) {
        st.sample(|| json!({"l": lt, "r": rt, "kind": kind, "equal": l.deep_eq(&r)}));
    }
    Ok(())
}

/// Any pair of corresponding numeric leaves that are distinct but closer than
/// the well-separated bound.
fn has_near_tie(l: &J, r: &J) -> bool {
    match (l, r) {
        (J::Num(a), J::Num(b2)) => !well_separated(a.f(), b2.f()),
        (J::Arr(a), J::Arr(b2)) => a.iter().zip(b2.iter()).any(|(x, y)| has_near_tie(x, y)),
        (J::Obj(a), J::Obj(b2)) => a.iter().any(|(k, x)| b2.get(k).map(|y| has_near_tie(x, y)).unwrap_or(false)),
        _ => false,
    }
}

fn case_pair(lt: &str, rt: &str, st: &mut Stats) -> CaseResult {
    let l = J::Num(numeral_value(lt));
    let r = J::Num(numeral_value(rt));
    let (l, r) = (J::parse(lt).unwrap_or(l), J::parse(rt).unwrap_or(r));
    check_pair("cases", &l, lt, &r, rt, st)
}

fn fixed_cases(_env: &Env, st: &mut Stats) -> Vec<Failure> {
    let mut out = vec![];
    for (l, r) in [("1.5e308", "1.6e308"), ("1.7e308", "-1.7e308"), ("1", "1.0"), ("5e-324", "1e-323"), ("0", "-0.0"), ("[1,{\"a\":2}]", "[1.0,{\"a\":2e0}]"), ("1", "\"1\"")] {
        if let Err(f) = case_pair(l, r, st) {
            out.push(f);
        }
    }
    out
}

fn replay_case(case: &serde_json::Value, _env: &Env) -> CaseResult {
    let mut st = Stats::new();
    case_pair(case["l"].as_str().unwrap_or("null"), case["r"].as_str().unwrap_or("null"), &mut st)
}

pub fn property() -> Property {
    Property {
        id: "C10",
        rule: RULE,
        assumptions: vec![
            "numbers are identical or differ by more than 1e-9 relatively (the statement's 'well-separated'); the same value in different spellings is only generated inside the numeral domain the JSON parser reads exactly (<= 15 digits, |exponent| <= 22)".into(),
            "the model value of a numeral is std's correctly rounded parse".into(),
        ],
        minimise: None,
        subs: vec![
            Sub::Custom(CustomSub { name: "cases", run: fixed_cases, replay: replay_case }),
            Sub::Bytes(BytesSub { name: "pairs", f: pairs, max_len: 600, quick: Budget { threads: 8, cases: 6000 }, thorough: Budget { threads: 16, cases: 300_000 }, keep_unreproducible: false }),
        ],
    }
}
