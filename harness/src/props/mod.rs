use crate::runner::Property;

pub mod c01;

pub fn all() -> Vec<Property> {
    vec![c01::property()]
}

pub fn by_id(id: &str) -> Option<Property> {
    all().into_iter().find(|p| p.id == id)
}
