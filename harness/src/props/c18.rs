//! C18 — the `jp` command reports exactly what the library computes.

use std::io::Write;
use std::path::PathBuf;
use std::process::{Command, Stdio};

use serde_json::json;

use crate::gen_doc::{gen_doc, DocOpts};
use crate::gen_text::{gen_text, TextOpts};
use crate::gen_typed::{gen_typed, schema_doc};
use crate::props::c01::spell_tree;
use crate::runner::*;
use crate::src::Src;
use crate::syn::{gen_sentence, mutate};

pub const RULE: &str = "jp process runs with independently drawn expression (valid core / typed-function / non-sentence / failing at run time / non-ASCII / leading '-'), input text (generated JSON incl. non-ASCII strings, numbers beyond 2^63 and odd spellings, malformed JSON, JSON with line terminators inserted at generated places (inside or between tokens), invalid UTF-8, empty), delivery (stdin or -f file, positional or -e file, missing files) and flags (-u, --ast); oracle = the library called in-process on the same texts: exit 0 and stdout = pretty-printed result + newline (bare string with -u), --ast prints the debug tree without touching the input, any failure => non-zero exit, empty stdout, non-empty stderr, no panic text, no signal; non-trivial = a successful run with a non-ASCII or multi-line result, or a failure after the expression compiled (distinct by argument vector + input)";

fn jp_path() -> Option<PathBuf> {
    std::env::var("JMV_JP").ok().map(PathBuf::from).filter(|p| p.exists())
}

fn tmp_dir() -> PathBuf {
    let base = std::env::var("JMV_TMP").map(PathBuf::from).unwrap_or_else(|_| verif_dir().join("target/tmp"));
    let d = base.join(format!("c18-{}", std::process::id()));
    let _ = std::fs::create_dir_all(&d);
    d
}

struct Run {
    code: Option<i32>,
    stdout: Vec<u8>,
    stderr: Vec<u8>,
}

fn run_jp(jp: &PathBuf, args: &[String], stdin: &[u8]) -> Result<Run, String> {
    let mut child = Command::new(jp)
        .args(args)
        .stdin(Stdio::piped())
        .stdout(Stdio::piped())
        .stderr(Stdio::piped())
        .spawn()
        .map_err(|e| format!("cannot spawn jp: {}", e))?;
    {
        let mut si = child.stdin.take().unwrap();
        let _ = si.write_all(stdin);
    }
    let out = child.wait_with_output().map_err(|e| e.to_string())?;
    Ok(Run { code: out.status.code(), stdout: out.stdout, stderr: out.stderr })
}

fn case_run(src: &mut Src, st: &mut Stats, _env: &Env) -> CaseResult {
    let jp = match jp_path() {
        Some(p) => p,
        None => return Err(Failure::new("runs", "harness-no-jp", "JMV_JP does not point at a jp binary (run through run.sh)".into(), json!({}))),
    };
    // expression
    let expr: String = match src.below(8) {
        0 | 1 => {
            let d = 1 + src.below(3);
            let t = gen_typed(src, d);
            spell_tree(&t, src, st).map(|x| x.0).unwrap_or_else(|| "@".into())
        }
        2 | 3 => gen_sentence(src, st, 3).unwrap_or_else(|| "@".into()),
        4 => {
            let a = gen_sentence(src, st, 2).unwrap_or_else(|| "a".into());
            mutate(&a, "b", src).0
        }
        5 => src.pick(&["&s", "not_null(z, &s)", "[&s]", "s || &s", "nope(@)", "abs('x')", "nums[::0]", "length(@)", "sum(strs)", "-1", "-", "--ast", "-u", "\"é\".\"日本\"", "'😀'", "s", "strs[0]", "objs[*].s | [0]", "@", "to_string(@)", "keys(@)"]).to_string(),
        6 => src.pick(&["'tail\n'", "'\n'", "'cr lf\r\n'", "'\n\n'", "['a\n']", "join('', ['x', '\n'])", "' '", "''", "s", "s2", "strs[-1]", "objs[0].s", "join('\n', strs)", "to_string(nums)", "type(@)", "'a b'", "['a b', s]", "s == 'a b' || 'x y z'", "length('a b c')", "contains('a b', ' ')", "{k: 'p q'}"]).to_string(),
        _ => "@".to_string(),
    };
    let expr = if src.chance(60) { src.pick(&["s", "strs[1]", "rows[-1].name", "@", "length(rows)", "rows[*].name | [0]", "join('\n', strs)", "pad"]).to_string() } else { expr };
    let expr = expr.replace('\u{0}', "0");
    // sometimes every blank of the expression (inside quoted forms too) becomes a line break
    // of some kind: an expression file is read byte for byte
    let expr = if src.chance(40) {
        let nl = *src.pick(&["\r\n", "\n", "\r", "\n\r", "\t", "\r\n\r\n"]);
        let e2 = expr.replace(' ', nl);
        if e2 == expr { format!("{}{}", expr, nl) } else { e2 }
    } else {
        expr
    };
    // input
    let big = src.chance(40);
    let (input, input_is_json): (Vec<u8>, bool) = if big {
        // large inputs: read-block boundaries inside multi-byte characters, long string results
        let pad = src.below(64);
        let unit = *src.pick(&["é", "日本", "😀", "€", "x"]);
        let mut rows = vec![];
        let target = 15_000 + src.below(60_000);
        let mut size = 0usize;
        let mut i = 0;
        while size < target {
            let name = format!("{}{}", unit.repeat(1 + i % 9), i);
            size += name.len() + 30;
            rows.push(json!({"id": i, "name": name}));
            i += 1;
        }
        let tail_len = *src.pick(&[10usize, 1000, 1023, 1024, 1025, 2048, 5000]);
        let long_s = format!("first line\nsecond {}\n{}", unit, "t".repeat(tail_len));
        let doc = json!({"pad": "p".repeat(pad), "rows": rows, "s": long_s, "strs": ["a\nb", long_s.clone()], "nums": [1, 2]});
        (doc.to_string().into_bytes(), true)
    } else {
        match src.below(10) {
        8 | 9 => {
            // a document with line terminators (or other blanks) inserted at generated places:
            // between tokens they are blanks, inside a string, number or keyword they make the
            // text invalid (the library, called on the same bytes, says which)
            let t = if src.flip() { schema_doc(src).to_json() } else { src.pick(&["\"ab cd\"", "12", "[1, 2]", "true", "{\"a b\": null}", "\"a\\nb\"", "1.5e3", "[\"x\", -1]"]).to_string() };
            let mut out = String::new();
            let n_chars = t.chars().count().max(1);
            let k = 1 + src.below(3);
            let at: Vec<usize> = (0..k).map(|_| src.below(n_chars + 1)).collect();
            let nl = *src.pick(&["\n", "\r\n", "\r", "\n\n", "\t", " "]);
            for (i, c) in t.chars().enumerate() {
                if at.contains(&i) {
                    out.push_str(nl);
                }
                out.push(c);
            }
            if at.contains(&n_chars) {
                out.push_str(nl);
            }
            (out.into_bytes(), false)
        }
        0 | 1 | 2 => (schema_doc(src).to_json().into_bytes(), true),
        3 => (gen_doc(src, &DocOpts::default()).to_json().into_bytes(), true),
        4 => {
            let (_, t) = gen_text(src, &TextOpts::c08());
            (t.into_bytes(), true)
        }
        5 => (src.pick(&["", " ", "{", "[1,", "nul", "{\"a\":}", "[1 2]", "'x'", "{\"a\":1}}", "01", "1e999", "\"\\ud800\""]).as_bytes().to_vec(), false),
        6 => (vec![b'"', 0xff, 0xfe, b'"'], false),
        _ => (b"{\"s\":\"\\u00e9\\n\\ud83d\\ude00\",\"n\":18446744073709551615,\"big\":123456789012345678901234567890,\"f\":1.0,\"neg\":-0.0}".to_vec(), true),
        }
    };
    let _ = input_is_json;
    // sometimes a blank-like character that the grammar does not know at an end of the expression
    let expr = if src.chance(30) {
        let c = *src.pick(crate::syn::WS_LIKE);
        let c = if c == '\u{0}' { '\u{a0}' } else { c };
        if src.flip() { format!("{}{}", expr, c) } else { format!("{}{}", c, expr) }
    } else {
        expr
    };
    let dir = tmp_dir();
    let tid = format!("{:?}", std::thread::current().id()).replace(|c: char| !c.is_ascii_digit(), "");
    let unquoted = src.chance(80);
    let ast = src.chance(40);
    let expr_via_file = src.chance(70);
    let input_via_file = src.chance(100);
    let missing_input_file = input_via_file && src.chance(40);
    let missing_expr_file = expr_via_file && src.chance(20);
    let mut args: Vec<String> = vec![];
    if unquoted {
        args.push(if src.flip() { "-u".into() } else { "--unquoted".into() });
    }
    if ast {
        args.push("--ast".into());
    }
    let mut input_file: Option<PathBuf> = None;
    // sometimes the "file" is not a regular file: /dev/stdin carries the input
    let via_dev_stdin = input_via_file && !missing_input_file && src.chance(50);
    if via_dev_stdin {
        args.push("-f".into());
        args.push("/dev/stdin".into());
    } else if input_via_file {
        let p = dir.join(format!("in-{}.json", tid));
        if missing_input_file {
            let _ = std::fs::remove_file(&p);
        } else {
            std::fs::write(&p, &input).map_err(|e| Failure::new("runs", "harness-io", e.to_string(), json!({})))?;
        }
        args.push(if src.flip() { "-f".into() } else { "--filename".into() });
        args.push(p.to_string_lossy().to_string());
        input_file = Some(p);
    }
    if expr_via_file {
        let p = dir.join(format!("expr-{}.jmes", tid));
        if missing_expr_file {
            let _ = std::fs::remove_file(&p);
        } else {
            std::fs::write(&p, expr.as_bytes()).map_err(|e| Failure::new("runs", "harness-io", e.to_string(), json!({})))?;
        }
        args.push(if src.flip() { "-e".into() } else { "--expr-file".into() });
        args.push(p.to_string_lossy().to_string());
    } else {
        args.push("--".into());
        args.push(expr.clone());
    }
    st.eval();
    let stdin_bytes: &[u8] = if input_via_file && !via_dev_stdin { b"" } else { &input };
    let run = run_jp(&jp, &args, stdin_bytes).map_err(|m| Failure::new("runs", "harness-spawn", m, json!({"args": args})))?;
    let case = json!({"args": args, "expression": expr, "input": String::from_utf8_lossy(&input), "stdout": String::from_utf8_lossy(&run.stdout), "stderr": String::from_utf8_lossy(&run.stderr), "exit": run.code});
    let _ = input_file;
    if run.code.is_none() {
        return Err(Failure::new("runs", "jp-killed-by-signal", "jp did not exit normally".into(), case));
    }
    let stderr_text = String::from_utf8_lossy(&run.stderr).to_string();
    if stderr_text.contains("panicked at") || stderr_text.contains("RUST_BACKTRACE") {
        return Err(Failure::new("runs", "jp-panicked", stderr_text, case));
    }
    // what the library says
    // (several byte strings are acceptable where the statement does not fix the layout: the
    // indentation unit of the pretty-printed JSON, the pretty or plain form of the tree)
    enum Want {
        Out(Vec<Vec<u8>>),
        Fail(&'static str),
    }
    fn pretty_forms(v: &jmespath::Variable) -> Vec<Vec<u8>> {
        use serde::Serialize;
        ["  ", "    ", " ", "   ", "\t", "        "]
            .iter()
            .map(|indent| {
                let mut out = Vec::new();
                let fmt = serde_json::ser::PrettyFormatter::with_indent(indent.as_bytes());
                let mut ser = serde_json::Serializer::with_formatter(&mut out, fmt);
                v.serialize(&mut ser).expect("serialise");
                out.push(b'\n');
                out
            })
            .collect()
    }
    let want = if missing_expr_file {
        Want::Fail("missing expression file")
    } else {
        match jmespath::compile(&expr) {
            Err(_) => Want::Fail("expression does not compile"),
            Ok(c) => {
                if ast {
                    Want::Out(vec![format!("{:#?}\n", c.as_ast()).into_bytes(), format!("{:?}\n", c.as_ast()).into_bytes()])
                } else if missing_input_file {
                    Want::Fail("missing input file")
                } else {
                    match std::str::from_utf8(&input).ok().and_then(|t| jmespath::Variable::from_json(t).ok()) {
                        None => Want::Fail("input is not JSON"),
                        Some(v) => match c.search(v) {
                            Err(_) => Want::Fail("search fails"),
                            Ok(r) => {
                                if unquoted && r.is_string() {
                                    Want::Out(vec![format!("{}\n", r.as_string().unwrap()).into_bytes()])
                                } else {
                                    Want::Out(pretty_forms(&r))
                                }
                            }
                        },
                    }
                }
            }
        }
    };
    match want {
        Want::Out(forms) => {
            if run.code != Some(0) {
                return Err(Failure::new("runs", "jp-fails-where-library-succeeds", format!("exit {:?}, stderr {}", run.code, stderr_text), case));
            }
            let bytes = forms[0].clone();
            if !forms.iter().any(|f| f == &run.stdout) {
                return Err(Failure::new("runs", "jp-output-differs-from-library", format!("expected {:?}", String::from_utf8_lossy(&bytes)), case));
            }
            st.class(if ast { "ok:ast" } else if unquoted { "ok:unquoted" } else { "ok:plain" });
            let text = String::from_utf8_lossy(&bytes).to_string();
            if (!text.is_ascii() || text.trim_end().contains('\n')) && st.nontrivial(&format!("{:?}{}", args, String::from_utf8_lossy(&input))) {
                st.sample(|| json!({"args": args, "stdout": text}));
            }
        }
        Want::Fail(why) => {
            if run.code == Some(0) {
                return Err(Failure::new("runs", "jp-exit-0-on-failure", format!("the library fails ({}) but jp exited 0", why), case));
            }
            if !run.stdout.is_empty() {
                return Err(Failure::new("runs", "jp-writes-stdout-on-failure", format!("the library fails ({}) but jp wrote to stdout", why), case));
            }
            if run.stderr.is_empty() {
                return Err(Failure::new("runs", "jp-silent-failure", format!("the library fails ({}) and jp printed no diagnosis", why), case));
            }
            st.class(&format!("fail:{}", why));
            if (why == "search fails" || why == "input is not JSON" || why == "missing input file") && st.nontrivial(&format!("{:?}{}", args, String::from_utf8_lossy(&input))) {
                st.sample(|| json!({"args": args, "why": why, "stderr": stderr_text}));
            }
        }
    }
    Ok(())
}

pub fn property() -> Property {
    Property {
        id: "C18",
        rule: RULE,
        assumptions: vec![
            "jp is built from /repo/jmespath-cli/src/main.rs by a wrapper manifest with the same dependencies (the CLI's own Cargo.lock pins crate versions that are not available offline)".into(),
            "expressions are passed as one argument after `--` or through -e; NUL bytes and non-UTF-8 arguments are not generated".into(),
        ],
        minimise: None,
        subs: vec![Sub::Bytes(BytesSub { name: "runs", f: case_run, max_len: 1500, quick: Budget { threads: 8, cases: 1200 }, thorough: Budget { threads: 16, cases: 12_000 }, keep_unreproducible: false })],
    }
}
