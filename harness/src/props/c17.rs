//! C17 — cargo features change representation, not meaning.
//!
//! The same driver (`check c17-serve`) is built as default, sync, spec
//! (specialized, nightly) and spec+sync; the coordinator feeds all four the
//! same generated cases and compares the answers.

use std::io::{BufRead, Write};
use std::process::{Command, Stdio};

use serde::Serialize;
use serde_json::{json, Value};

use jmespath::{ToJmespath, Variable};

use crate::gen_doc::{gen_doc, gen_string, DocOpts};
use crate::gen_typed::{gen_typed, schema_doc};
use crate::imp::classify;
use crate::model::J;
use crate::props::c01::{seeded_bytes, spell_tree};
use crate::runner::*;
use crate::src::Src;
use crate::syn::{gen_sentence, mutate};

pub const RULE: &str = "cases (expression, typed input) answered by the same driver built under {default, sync, specialized, specialized+sync}: expressions from the core, typed-function and mutation generators (valid, invalid, failing) and expressions nested 20..120 levels deep; inputs of every specially handled type (serde_json::Value / &Value, Variable / &Variable, Rcvar / &Rcvar, String, &str, every integer width at its extremes, isize / usize, f32, f64, bool, unit) and generic Serialize types (struct, Vec, tuple, Option, map); oracle = all four answers identical (converted value, compile outcome, search value or error class + offset) and, inside each build, to_jmespath equal to Variable::from_serializable of the same input; non-trivial = the input goes through a specialised scalar / string / Variable / Value conversion or contains an integer outside i64 (distinct by case line)";

#[derive(Serialize)]
struct Gen {
    a: i32,
    b: String,
    c: Option<u64>,
    d: Vec<(i8, bool)>,
}

fn conv<T: ToJmespath>(x: T) -> String {
    match x.to_jmespath() {
        Ok(v) => format!("ok:{}", v),
        Err(e) => format!("err:{}", classify(&e).class),
    }
}

fn generic<T: Serialize>(x: T) -> String {
    match Variable::from_serializable(x) {
        Ok(v) => format!("ok:{}", v),
        Err(e) => format!("err:{}", classify(&e).class),
    }
}

fn search_with<T: ToJmespath>(e: &jmespath::Expression<'static>, x: T) -> String {
    match e.search(x) {
        Ok(v) => format!("ok:{}", v),
        Err(er) => {
            let c = classify(&er);
            format!("err:{}@{}", c.class, c.offset)
        }
    }
}

macro_rules! answer {
    ($e:expr, $mk:expr) => {{
        let c = conv($mk);
        let g = generic($mk);
        let s = match $e {
            Some(ex) => search_with(ex, $mk),
            None => "nocompile".to_string(),
        };
        (c, g, s)
    }};
}

/// One case -> answer line (runs inside every build variant).
pub fn answer_case(case: &Value) -> Value {
    let expr = case["expr"].as_str().unwrap_or("@");
    let kind = case["kind"].as_str().unwrap_or("value");
    let data = &case["data"];
    let compiled = jmespath::compile(expr);
    let compile_out = match &compiled {
        Ok(_) => "ok".to_string(),
        Err(e) => format!("err:{}@{}", classify(e).class, classify(e).offset),
    };
    let e = compiled.as_ref().ok();
    let int = |d: &Value| -> i128 { d.as_str().and_then(|s| s.parse::<i128>().ok()).unwrap_or(0) };
    let (c, g, s) = match kind {
        "value" => answer!(e, data.clone()),
        "&value" => answer!(e, data),
        "variable" => {
            let v = Variable::from_json(&data.to_string()).unwrap();
            answer!(e, v.clone())
        }
        "&variable" => {
            let v = Variable::from_json(&data.to_string()).unwrap();
            answer!(e, &v)
        }
        "rcvar" => {
            let v = jmespath::Rcvar::new(Variable::from_json(&data.to_string()).unwrap());
            answer!(e, v.clone())
        }
        "&rcvar" => {
            let v = jmespath::Rcvar::new(Variable::from_json(&data.to_string()).unwrap());
            answer!(e, &v)
        }
        "deep-value" | "&deep-value" => {
            // a document built in memory, nested deeper than any JSON text parser would accept
            let d = data["depth"].as_u64().unwrap_or(1) as usize;
            let shape = data["shape"].as_u64().unwrap_or(0);
            let mut v = json!(1);
            for i in 0..d {
                v = match (shape, i % 2) {
                    (0, _) | (2, 0) => json!([v]),
                    _ => json!({ "k": v }),
                };
            }
            if kind == "deep-value" {
                answer!(e, v.clone())
            } else {
                answer!(e, &v)
            }
        }
        "string" => {
            let v = data.as_str().unwrap_or("").to_string();
            answer!(e, v.clone())
        }
        "&str" => {
            let v = data.as_str().unwrap_or("").to_string();
            answer!(e, v.as_str())
        }
        "i8" => answer!(e, int(data) as i8),
        "i16" => answer!(e, int(data) as i16),
        "i32" => answer!(e, int(data) as i32),
        "i64" => answer!(e, int(data) as i64),
        "u8" => answer!(e, int(data) as u8),
        "u16" => answer!(e, int(data) as u16),
        "u32" => answer!(e, int(data) as u32),
        "u64" => answer!(e, int(data) as u64),
        "i128" => answer!(e, int(data)),
        "u128" => answer!(e, int(data) as u128),
        "isize" => answer!(e, int(data) as isize),
        "usize" => answer!(e, int(data) as usize),
        "f32" => answer!(e, f32::from_bits(int(data) as u32)),
        "f64" => answer!(e, f64::from_bits(int(data) as u64)),
        "bool" => answer!(e, data.as_bool().unwrap_or(false)),
        "unit" => answer!(e, ()),
        "struct" => {
            let mk = || Gen { a: int(&data["a"]) as i32, b: data["b"].as_str().unwrap_or("").to_string(), c: data["c"].as_str().map(|s| s.parse::<u64>().unwrap_or(0)), d: vec![(int(&data["a"]) as i8, true), (1, false)] };
            answer!(e, mk())
        }
        "vec" => {
            let mk = || -> Vec<Option<u64>> { data.as_array().cloned().unwrap_or_default().iter().map(|x| x.as_str().and_then(|s| s.parse().ok())).collect() };
            answer!(e, mk())
        }
        "tuple" => answer!(e, (int(&data["a"]) as i64, data["b"].as_str().unwrap_or("").to_string(), data["c"].as_bool())),
        "map" => {
            let mk = || -> std::collections::BTreeMap<String, i64> { data.as_object().cloned().unwrap_or_default().iter().map(|(k, v)| (k.clone(), int(v) as i64)).collect() };
            answer!(e, mk())
        }
        _ => ("?".to_string(), "?".to_string(), "?".to_string()),
    };
    json!({"compile": compile_out, "to_jmespath": c, "from_serializable": g, "search": s})
}

pub fn serve() {
    let stdin = std::io::stdin();
    let stdout = std::io::stdout();
    let mut out = stdout.lock();
    for line in stdin.lock().lines() {
        let line = match line {
            Ok(l) => l,
            Err(_) => break,
        };
        if line.trim().is_empty() {
            continue;
        }
        let case: Value = match serde_json::from_str(&line) {
            Ok(v) => v,
            Err(e) => {
                let _ = writeln!(out, "{}", json!({"error": e.to_string()}));
                continue;
            }
        };
        let ans = match catch(std::panic::AssertUnwindSafe(|| answer_case(&case))) {
            Ok(a) => a,
            Err(p) => json!({"panic": p}),
        };
        let _ = writeln!(out, "{}", ans);
    }
}

fn gen_case(src: &mut Src, st: &mut Stats) -> Value {
    let deep_exprs = ["@", "type(@)", "[0]", "k", "[0].k", "k[0]", "[0][0][0]", "not_null(@)", "length(@)", "to_array(@)[0]", "[@]", "@ == @", "length(to_string(@))", "*", "[]", "[][][]", "k.k.k"];
    let scalar_exprs = ["@", "abs(@)", "to_string(@)", "type(@)", "[@, @]", "@ == `1`", "length(@)", "@ > `0`", "to_number(@)", "not_null(@)", "{a: @}", "!@", "@ || `0`", "ceil(@)", "reverse(@)", "nope(@)", "@[0]", "@.a"];
    let kind = *src.pick(&[
        "value", "&value", "variable", "&variable", "rcvar", "&rcvar", "string", "&str", "i8", "i16", "i32", "i64", "u8", "u16", "u32", "u64", "isize", "usize", "f32", "f64", "bool", "unit", "struct", "vec", "tuple", "map", "deep-value", "&deep-value", "i128", "u128",
    ]);
    let doc_kind = matches!(kind, "value" | "&value" | "variable" | "&variable" | "rcvar" | "&rcvar");
    let expr: String = if doc_kind {
        match src.below(5) {
            0 | 1 => {
                let d = 1 + src.below(3);
                let t = gen_typed(src, d);
                spell_tree(&t, src, st).map(|x| x.0).unwrap_or_else(|| "@".into())
            }
            2 => gen_sentence(src, st, 3).unwrap_or_else(|| "@".into()),
            3 => {
                let a = gen_sentence(src, st, 2).unwrap_or_else(|| "a".into());
                mutate(&a, "b", src).0
            }
            _ => src.pick(&["@", "length(@)", "[*][0]", "[-1]", "[][]", "rows[*][1]", "s == 'a b'", "o.\"k k\"", "strs[?@ == 'a b']", "`{\"a b\": 1}`.\"a b\"", "join(' , ', strs)", "'x  y'"]).to_string(),
        }
    } else if kind.ends_with("deep-value") {
        src.pick(&deep_exprs).to_string()
    } else {
        src.pick(&scalar_exprs).to_string()
    };
    let int_in = |src: &mut Src, lo: i128, hi: i128| -> String {
        match src.below(4) {
            0 => lo.to_string(),
            1 => hi.to_string(),
            2 => (lo + (src.u64() as i128 % (hi - lo + 1))).to_string(),
            _ => src.range(-3, 3).clamp(lo.max(-3) as i64, hi.min(3) as i64).to_string(),
        }
    };
    // numerals with 17 significant digits: how they are read must not depend on the build
    let long_numeral = |src: &mut Src| -> String {
        let f = f64::from_bits(src.u64());
        let f = if f.is_finite() && f.abs() > 1e-300 && f.abs() < 1e300 { f } else { 1.9999999999999998 };
        if src.flip() {
            format!("{:e}", f)
        } else {
            src.pick(&["1.9999999999999998", "100.99999999999999", "0.30000000000000004", "9007199254740993.5", "2.2250738585072011e-308", "123456789.12345678", "5e-324"]).to_string()
        }
    };
    // a table whose neighbouring rows are equal or differ in one leaf only
    let near_rows = doc_kind && src.chance(28);
    let expr = if near_rows {
        src.pick(&["@", "rows", "rows[*]", "to_string(@)", "rows[?@]", "rows[*].*", "rows[*][*]", "[rows, rows]", "rows[::-1]", "rows[*].to_string(@)", "rows[1:]", "rows[-1]", "rows[*].n", "rows[*].[n, @]", "length(rows)"]).to_string()
    } else {
        expr
    };
    // deep nesting (well below the depth at which the recursive parser runs out of stack):
    // what is accepted, and how deep, must not depend on the build
    let expr = if doc_kind && src.chance(20) {
        let d = 20 + src.below(100);
        match src.below(7) {
            0 => format!("{}nums{}", "(".repeat(d), ")".repeat(d)),
            1 => format!("{}s", "!".repeat(d)),
            2 => format!("{}n{}", "[".repeat(d), "]".repeat(d)),
            3 => format!("{}n{}", "abs(".repeat(d), ")".repeat(d)),
            4 => format!("{}s{}", "{a: ".repeat(d), "}".repeat(d)),
            5 => format!("{}s{}", "z || (".repeat(d), ")".repeat(d)),
            _ => format!("{}objs{}", "not_null(z, ".repeat(d), ")".repeat(d)),
        }
    } else {
        expr
    };
    let expr = if src.chance(24) {
        let n = long_numeral(src);
        match src.below(4) {
            0 => format!("floor(`{}`)", n),
            1 => format!("to_number('{}')", n),
            2 => format!("`{}` == `{}`", n, long_numeral(src)),
            _ => format!("to_string(`[{}, {}]`)", n, long_numeral(src)),
        }
    } else {
        expr
    };
    let data: Value = match kind {
        k if near_rows => {
            let _ = k;
            let o = DocOpts { max_depth: 3, max_width: 3, ..DocOpts::default() };
            let n = 2 + src.size(60);
            let mut rows: Vec<J> = vec![];
            for _ in 0..n {
                if rows.is_empty() || src.chance(50) {
                    rows.push(if src.flip() { crate::gen_doc::gen_object(src, 1, &o) } else { crate::gen_doc::gen_array(src, 1, &o) });
                } else {
                    let prev = rows[rows.len() - 1].clone();
                    rows.push(if src.chance(100) { prev } else { crate::gen_doc::near_value(&prev, src) });
                }
            }
            st.class("near-equal-neighbouring-rows");
            json!({"rows": J::Arr(rows).to_value(), "n": 0})
        }
        k if doc_kind && src.chance(30) => {
            // a big table: many array nodes, long rows
            let _ = k;
            let n = src.size(400);
            let rows: Vec<Value> = (0..n).map(|i| json!([i, i + 1, {"k": [i]}])).collect();
            match src.below(3) {
                0 => json!({"rows": rows, "nums": (0..n).collect::<Vec<usize>>(), "s": "x"}),
                1 => Value::Array(rows),
                _ => json!([rows.clone(), [rows], {"rows": [[1], [2]]}]),
            }
        }
        k if doc_kind && src.chance(20) => {
            let _ = k;
            let a: Value = serde_json::from_str(&long_numeral(src)).unwrap_or(json!(1.5));
            let b: Value = serde_json::from_str(&long_numeral(src)).unwrap_or(json!(2.5));
            json!({"n": a, "nums": [b, 1, 2.5], "s": "x"})
        }
        k if doc_kind => {
            let _ = k;
            match src.below(3) {
                0 => schema_doc(src).to_value(),
                1 => gen_doc(src, &DocOpts::default()).to_value(),
                _ => json!({"big": 18446744073709551615u64, "neg": i64::MIN, "f": 1.5, "s": "é😀", "n": null}),
            }
        }
        "deep-value" | "&deep-value" => {
            let depth = match src.below(4) {
                0 => src.below(20),
                1 => 120 + src.below(20),
                2 => 100 + src.below(200),
                _ => src.size(300),
            };
            json!({"depth": depth, "shape": src.below(3)})
        }
        "string" | "&str" => json!(gen_string(src)),
        "i8" => json!(int_in(src, i8::MIN as i128, i8::MAX as i128)),
        "i16" => json!(int_in(src, i16::MIN as i128, i16::MAX as i128)),
        "i32" => json!(int_in(src, i32::MIN as i128, i32::MAX as i128)),
        "i64" | "isize" => json!(int_in(src, i64::MIN as i128, i64::MAX as i128)),
        "u8" => json!(int_in(src, 0, u8::MAX as i128)),
        "u16" => json!(int_in(src, 0, u16::MAX as i128)),
        "u32" => json!(int_in(src, 0, u32::MAX as i128)),
        "u64" | "usize" => json!(int_in(src, 0, u64::MAX as i128)),
        // (128-bit integers: every build answers alike, whether it accepts them or not)
        "i128" => json!(int_in(src, i64::MIN as i128 - 2, u64::MAX as i128 + 2)),
        "u128" => json!(int_in(src, 0, u64::MAX as i128 + 2)),
        "f32" => {
            let mut f = f32::from_bits(src.u32());
            if !f.is_finite() {
                f = 1.5;
            }
            if src.flip() {
                f = src.range(-40, 40) as f32 / 8.0;
            }
            if src.chance(40) {
                f = *src.pick(&[f32::MAX, -f32::MAX, f32::MIN_POSITIVE, 1e-45, -1e-45, 0.0, -0.0, 0.1, 16777217.0, f32::EPSILON]);
            }
            json!((f.to_bits() as u64).to_string())
        }
        "f64" => {
            let mut f = f64::from_bits(src.u64());
            if !f.is_finite() {
                f = -2.25;
            }
            if src.flip() {
                f = src.range(-40, 40) as f64 / 8.0;
            }
            if src.chance(40) {
                // the edges of the finite range
                f = *src.pick(&[f64::MAX, -f64::MAX, f64::MIN_POSITIVE, -f64::MIN_POSITIVE, 5e-324, -5e-324, 0.0, -0.0, 1e308, 9007199254740993.0, f64::EPSILON]);
            }
            json!(f.to_bits().to_string())
        }
        "bool" => json!(src.flip()),
        "unit" => json!(null),
        "struct" => json!({"a": src.range(-200, 200).to_string(), "b": gen_string(src), "c": if src.flip() { json!(int_in(src, 0, u64::MAX as i128)) } else { json!(null) }}),
        "vec" => json!((0..src.below(4)).map(|_| if src.flip() { json!(int_in(src, 0, u64::MAX as i128)) } else { json!(null) }).collect::<Vec<_>>()),
        "tuple" => json!({"a": int_in(src, i64::MIN as i128, i64::MAX as i128), "b": gen_string(src), "c": if src.flip() { json!(src.flip()) } else { json!(null) }}),
        _ => {
            let mut m = serde_json::Map::new();
            for _ in 0..src.below(4) {
                m.insert(gen_string(src), json!(int_in(src, i64::MIN as i128, i64::MAX as i128)));
            }
            Value::Object(m)
        }
    };
    json!({"expr": expr, "kind": kind, "data": data})
}

fn run_server(bin: &str, input: &str) -> Result<Vec<String>, String> {
    let mut child = Command::new(bin).arg("c17-serve").stdin(Stdio::piped()).stdout(Stdio::piped()).stderr(Stdio::null()).spawn().map_err(|e| format!("{}: {}", bin, e))?;
    let mut si = child.stdin.take().unwrap();
    let data = input.to_string();
    let w = std::thread::spawn(move || {
        let _ = si.write_all(data.as_bytes());
    });
    let out = child.wait_with_output().map_err(|e| e.to_string())?;
    let _ = w.join();
    if !out.status.success() {
        return Err(format!("{} exited with {}", bin, out.status));
    }
    Ok(String::from_utf8_lossy(&out.stdout).lines().map(|l| l.to_string()).collect())
}

fn variants() -> Result<Vec<(&'static str, String)>, String> {
    let mut v = vec![];
    for (name, var) in [("default", "JMV_BIN_DEFAULT"), ("sync", "JMV_BIN_SYNC"), ("specialized", "JMV_BIN_SPEC"), ("specialized+sync", "JMV_BIN_SPECSYNC")] {
        let p = std::env::var(var).map_err(|_| format!("{} not set (run through run.sh)", var))?;
        if !std::path::Path::new(&p).exists() {
            return Err(format!("{} does not exist", p));
        }
        v.push((name, p));
    }
    Ok(v)
}

fn compare_lines(case: &Value, answers: &[(&str, Value)]) -> Option<Failure> {
    let c = json!({"case": case, "answers": answers.iter().map(|(n, a)| json!({"build": n, "answer": a})).collect::<Vec<_>>()});
    for (n, a) in answers {
        if a.get("panic").is_some() {
            return Some(Failure::new("features", "panic", format!("build {} panicked: {}", n, a["panic"]), c));
        }
        if a["to_jmespath"] != a["from_serializable"] {
            return Some(Failure::new(
                "features",
                "specialised-conversion-differs-from-generic",
                format!("build {}: to_jmespath {} but from_serializable {}", n, a["to_jmespath"], a["from_serializable"]),
                c,
            ));
        }
    }
    let first = &answers[0].1;
    for (n, a) in &answers[1..] {
        if a != first {
            return Some(Failure::new("features", "builds-disagree", format!("build {} answers {} but {} answers {}", n, a, answers[0].0, first), c));
        }
    }
    None
}

fn features(env: &Env, st: &mut Stats) -> Vec<Failure> {
    let vs = match variants() {
        Ok(v) => v,
        Err(m) => return vec![Failure::new("features", "harness-variants", m, json!({}))],
    };
    let n = if env.tier == Tier::Thorough { 120_000 } else { 16_000 };
    let mut cases: Vec<Value> = vec![];
    for i in 0..n {
        let bytes = seeded_bytes(env.seed, 0xC17_0000 + i as u64, 1200);
        let mut src = Src::new(&bytes);
        let case = gen_case(&mut src, st);
        // every fourth case is followed by near-duplicates of its expression on the same input
        // (each driver answers all cases in one process, so anything keyed too coarsely shows)
        if i % 4 == 0 {
            let base = case["expr"].as_str().unwrap_or("@").to_string();
            cases.push(case.clone());
            for _ in 0..2 {
                let mut c2 = case.clone();
                c2["expr"] = json!(crate::syn::near_duplicate(&base, &mut src));
                cases.push(c2);
            }
        } else {
            cases.push(case);
        }
    }
    let input: String = cases.iter().map(|c| c.to_string() + "\n").collect();
    let mut outs: Vec<(&str, Vec<String>)> = vec![];
    let results: Vec<Result<Vec<String>, String>> = std::thread::scope(|sc| {
        let hs: Vec<_> = vs.iter().map(|(_, bin)| sc.spawn(|| run_server(bin, &input))).collect();
        hs.into_iter().map(|h| h.join().unwrap_or_else(|_| Err("server thread panicked".into()))).collect()
    });
    for ((name, _), r) in vs.iter().zip(results) {
        match r {
            Ok(lines) => {
                if lines.len() != cases.len() {
                    return vec![Failure::new("features", "harness-server", format!("build {} answered {} of {} cases", name, lines.len(), cases.len()), json!({}))];
                }
                outs.push((name, lines));
            }
            Err(m) => return vec![Failure::new("features", "harness-server", m, json!({}))],
        }
    }
    let mut fails = vec![];
    for (i, case) in cases.iter().enumerate() {
        st.eval();
        let answers: Vec<(&str, Value)> = outs.iter().map(|(n, lines)| (*n, serde_json::from_str(&lines[i]).unwrap_or(json!({"unparsable": lines[i]})))).collect();
        if let Some(f) = compare_lines(case, &answers) {
            if fails.len() < 10 {
                fails.push(f);
            }
            continue;
        }
        let kind = case["kind"].as_str().unwrap_or("");
        st.class(&format!("kind:{}", kind));
        let a = &answers[0].1;
        st.class(if a["compile"] == "ok" {
            if a["search"].as_str().map(|s| s.starts_with("ok")).unwrap_or(false) {
                "outcome:value"
            } else {
                "outcome:search-error"
            }
        } else {
            "outcome:compile-error"
        });
        if !matches!(kind, "struct" | "vec" | "tuple" | "map") && st.nontrivial(&case.to_string()) {
            st.sample(|| json!({"case": case, "answer": a}));
        }
    }
    fails
}

fn replay_case(case: &Value, _env: &Env) -> CaseResult {
    let vs = variants().map_err(|m| Failure::new("features", "harness-variants", m, json!({})))?;
    let c = &case["case"];
    let input = c.to_string() + "\n";
    let mut answers = vec![];
    for (name, bin) in &vs {
        let lines = run_server(bin, &input).map_err(|m| Failure::new("features", "harness-server", m, json!({})))?;
        answers.push((*name, serde_json::from_str(lines.first().map(|s| s.as_str()).unwrap_or("{}")).unwrap_or(json!({}))));
    }
    match compare_lines(c, &answers) {
        None => Ok(()),
        Some(f) => Err(f),
    }
}

pub fn property() -> Property {
    Property {
        id: "C17",
        rule: RULE,
        assumptions: vec![
            "non-finite floats and Variables containing expression references are not JSON-representable and are outside the domain".into(),
            "answers are compared as the canonical JSON text of the value, or error class + offset".into(),
            "the `specialized` variants need the nightly toolchain that is installed in this sandbox".into(),
        ],
        minimise: None,
        subs: vec![Sub::Custom(CustomSub { name: "features", run: features, replay: replay_case })],
    }
}
