//! C04 — precedence, associativity, projection extent.

use serde_json::{json, Value};

use crate::corpus::corpus;
use crate::gen_doc::{gen_doc, DocOpts};
use crate::gen_expr::{gen_expr, ExprOpts};
use crate::imp::{search_text, ImpOut};
use crate::print::{full_text, render, to_pieces, Spell, Ws};
use crate::props::c01::{cross_documents, spell_tree};
use crate::refast::{lower, RefExpr, Shape};
use crate::refparse::{self, Mode};
use crate::runner::*;
use crate::shape::{normal_eq, strip};
use crate::src::Src;
use crate::syn::*;

pub const RULE: &str = "sentences from (a) generated trees in every parenthesisation (full / minimal / random), (b) fully parenthesised trees with a random subset of parentheses deleted (re-grouped by the rules), (c) one-edit mutants of sentences and token soup that happen to be sentences, (d) all compliance expressions; oracles = public Ast (offsets stripped, Subexpr chains compared as pipelines) equals lower(tree) by construction, equals lower(reference parse), and the explicitly parenthesised form has the same Ast and the same search results; non-trivial = sentence containing >= 2 operator tokens of different binding power (distinct by text)";

const OPS: &[&str] = &["|", "||", "&&", "==", "!=", "<", "<=", ">", ">=", "[]", "*", "[?", ".", "!", "{", "[", "(", "&"];

fn power(c: &str) -> u32 {
    match c {
        "|" => 1,
        "||" => 2,
        "&&" => 3,
        "==" | "!=" | "<" | "<=" | ">" | ">=" => 5,
        "[]" => 9,
        "*" => 20,
        "[?" => 21,
        "." => 40,
        "!" => 45,
        "{" => 50,
        "[" => 55,
        "(" => 60,
        "&" => 0,
        _ => 99,
    }
}

fn record(st: &mut Stats, text: &str) {
    if st.frozen {
        return;
    }
    if let Some(cl) = token_classes(text) {
        let ops: Vec<&str> = cl.iter().copied().filter(|c| OPS.contains(c)).collect();
        let mut powers: Vec<u32> = ops.iter().map(|o| power(o)).collect();
        powers.sort();
        powers.dedup();
        for w in ops.windows(2) {
            st.class(&format!("adjacent:{} {}", w[0], w[1]));
        }
        if powers.len() >= 2 && st.nontrivial(text) {
            st.sample(|| json!({"expression": text}));
        }
    }
}

fn parse_shape(sub: &str, text: &str) -> Result<Shape, Failure> {
    let r = catch(std::panic::AssertUnwindSafe(|| jmespath::parse(text)));
    match r {
        Err(p) => Err(Failure::new(sub, "panic", format!("parse panicked: {}", p), json!({"expression": text}))),
        Ok(Err(e)) => Err(Failure::new(sub, "sentence-rejected", format!("parse failed: {:?}", e.reason), json!({"expression": text}))),
        Ok(Ok(ast)) => {
            // as_ast() of the compiled expression must expose the same tree
            if let Ok(c) = jmespath::compile(text) {
                if c.as_ast() != &ast {
                    return Err(Failure::new(sub, "as_ast-differs-from-parse", "compile().as_ast() != parse()".into(), json!({"expression": text})));
                }
            }
            Ok(strip(&ast))
        }
    }
}

fn expect_shape(sub: &str, sig: &str, text: &str, want: &Shape) -> CaseResult {
    let got = parse_shape(sub, text)?;
    if !normal_eq(&got, want) {
        return Err(Failure::new(
            sub,
            sig,
            format!("public Ast {:?} but the rules give {:?}", got, want),
            json!({"expression": text}),
        ));
    }
    Ok(())
}

/// (a) tree-first: the expected shape is lower(tree) itself.
fn tree_shape(src: &mut Src, st: &mut Stats, _env: &Env) -> CaseResult {
    let doc = gen_doc(src, &DocOpts { max_depth: 2, max_width: 3, ..DocOpts::default() });
    let o = ExprOpts { max_depth: 2 + src.below(4), funcs: true, ..ExprOpts::default() };
    let tree = gen_expr(src, 0, Some(&doc), &o);
    let (text, _, _) = match spell_tree(&tree, src, st) {
        Some(x) => x,
        None => {
            st.discard();
            return Ok(());
        }
    };
    // failed compilations just before must leave nothing behind
    let before = disturb(src, st);
    st.eval();
    expect_shape("tree-shape", "ast-differs-from-constructed-tree", &text, &lower(&tree)).map_err(|mut f| {
        f.case["preceded_by_failing_compiles"] = json!(before);
        f
    })?;
    record(st, &text);
    Ok(())
}

/// Reference reading of `text`, its explicit parenthesisation, and the
/// equalities the statement demands.
fn check_sentence(sub: &str, text: &str, docs: &[(String, String)], st: &mut Stats) -> Result<bool, Failure> {
    let t = match refparse::parse(text, Mode::RelaxedExpref) {
        Ok(t) => t,
        Err(_) => return Ok(false),
    };
    let want = lower(&t);
    expect_shape(sub, "ast-differs-from-rules", text, &want)?;
    // the explicitly parenthesised form
    let full = match full_text(&t) {
        Ok(f) => f,
        Err(_) => {
            st.class("skip:no-full-form");
            return Ok(true);
        }
    };
    // (harness self-check: the explicit form denotes the same tree in the reference)
    match refparse::parse(&full, Mode::RelaxedExpref) {
        Ok(t2) if normal_eq(&lower(&t2), &want) => {}
        _ => {
            st.class("harness:full-form-roundtrip-mismatch");
            return Ok(true);
        }
    }
    expect_shape(sub, "parenthesised-form-parses-differently", &full, &want)?;
    for (_, dt) in docs {
        let a = search_text(text, dt);
        let b2 = search_text(&full, dt);
        // (a rendered expression reference -- to_string of `[&e]` -- spells out the offsets of
        // its tree, which differ between two spellings of one expression and are not part of
        // the claim)
        let renders_expref = |o: &ImpOut| matches!(o, ImpOut::Ok(j) if j.to_json().contains("<expression: "));
        if renders_expref(&a) && renders_expref(&b2) {
            st.class("skip:result-renders-an-expression-reference");
            continue;
        }
        let same = match (&a, &b2) {
            (ImpOut::Ok(x), ImpOut::Ok(y)) => x.deep_eq(y),
            (ImpOut::SearchErr(x), ImpOut::SearchErr(y)) => x.class == y.class,
            (ImpOut::Panic(_), _) | (_, ImpOut::Panic(_)) => false,
            _ => false,
        };
        if !same {
            return Err(Failure::new(
                sub,
                "parenthesised-form-evaluates-differently",
                format!("{} vs {}", a.brief(), b2.brief()),
                json!({"expression": text, "parenthesised": full, "document": dt}),
            ));
        }
    }
    Ok(true)
}

/// (b) delete a random subset of the parentheses of a fully parenthesised
/// tree: the rules re-group it; reference and implementation must agree.
fn unparen(src: &mut Src, st: &mut Stats, _env: &Env) -> CaseResult {
    let doc = gen_doc(src, &DocOpts { max_depth: 3, max_width: 4, ..DocOpts::default() });
    let o = ExprOpts { max_depth: 2 + src.below(4), funcs: src.flip(), extremes: false, ..ExprOpts::default() };
    let tree = gen_expr(src, 0, Some(&doc), &o);
    let printed = match to_pieces(&tree, &mut Spell::with(src)) {
        Ok(p) => p,
        Err(_) => {
            st.discard();
            return Ok(());
        }
    };
    let mut keep = vec![true; printed.parens as usize];
    let p_drop = 40 + src.below(200) as u32;
    for k in keep.iter_mut() {
        if src.chance(p_drop) {
            *k = false;
        }
    }
    let (text, _) = render(&printed, &keep, Ws::None, None);
    st.eval();
    let docs = vec![(String::new(), doc.to_json())];
    if check_sentence("unparen", &text, &docs, st)? {
        record(st, &text);
    } else {
        st.class("unparen:not-a-sentence");
        // then the implementation must reject it too
        compare_accept("unparen", &text)?;
    }
    Ok(())
}

/// (c) mutants and soup that are sentences.
fn mutant_sentences(src: &mut Src, st: &mut Stats, _env: &Env) -> CaseResult {
    let text = if src.chance(170) {
        let depth = 1 + src.below(4);
        let a = match gen_sentence(src, st, depth) {
            Some(t) => t,
            None => {
                st.discard();
                return Ok(());
            }
        };
        let b2 = gen_sentence(src, st, 2).unwrap_or_else(|| "a".to_string());
        mutate(&a, &b2, src).0
    } else {
        gen_soup(src)
    };
    st.eval();
    let docs = vec![(String::new(), "{\"a\":[{\"a\":1,\"b\":[1,2]},{\"a\":2,\"b\":[3]}],\"b\":{\"a\":[0,1],\"b\":\"x\"},\"foo\":[[1,2],[3]],\"k\":1}".to_string())];
    if check_sentence("mutant-sentences", &text, &docs, st)? {
        record(st, &text);
    } else {
        st.class("not-a-sentence");
        // a projection's right-hand side ends where the rules say: what is left over is an error
        compare_accept("mutant-sentences", &text)?;
    }
    Ok(())
}

/// Chains of one binary operator are left-nested in the public Ast, exactly
/// (no flattening of sub-expression chains here): `A | B | C` is
/// `Subexpr(Subexpr(A, B), C)`, and likewise for `||`, `&&`, comparators and
/// dots, where A, B, C are generated sentences parsed on their own.
fn chains(src: &mut Src, st: &mut Stats, _env: &Env) -> CaseResult {
    use crate::refast::Shape;
    let op = *src.pick(&["|", "||", "&&", "==", "<", "."]);
    let n = 3 + src.below(3);
    let mut parts: Vec<String> = vec![];
    for _ in 0..n {
        // operands that cannot absorb or be absorbed by the operator: parenthesised or atomic
        let t = if op == "." {
            src.pick(&["a", "b", "foo", "\"k k\"", "length(@)", "[a, b]", "{k: a}"]).to_string()
        } else {
            match gen_sentence(src, st, 2) {
                Some(t) => format!("({})", t),
                None => "a".to_string(),
            }
        };
        parts.push(t);
    }
    let sep = if op == "." { ".".to_string() } else { format!(" {} ", op) };
    let text = parts.join(&sep);
    st.eval();
    let whole = match parse_shape("chains", &text) {
        Ok(s) => s,
        Err(f) => return Err(f),
    };
    let mut want: Option<Shape> = None;
    for ptxt in &parts {
        let ps = parse_shape("chains", ptxt)?;
        want = Some(match want {
            None => ps,
            Some(acc) => match op {
                "|" | "." => Shape::Subexpr(Box::new(acc), Box::new(ps)),
                "||" => Shape::Or(Box::new(acc), Box::new(ps)),
                "&&" => Shape::And(Box::new(acc), Box::new(ps)),
                "==" => Shape::Comparison(crate::refast::CmpOp::Eq, Box::new(acc), Box::new(ps)),
                _ => Shape::Comparison(crate::refast::CmpOp::Lt, Box::new(acc), Box::new(ps)),
            },
        });
    }
    let want = want.unwrap();
    if !whole.same(&want) {
        return Err(Failure::new(
            "chains",
            "chain-not-left-nested",
            format!("public Ast {:?} but a chain of `{}` is left-associative: {:?}", whole, op, want),
            json!({"expression": text}),
        ));
    }
    st.class(&format!("chain:{}", op));
    if st.nontrivial(&text) {
        st.sample(|| json!({"expression": text, "operator": op, "operands": n}));
    }
    Ok(())
}

const ENUM_DOC: &str = "{\"a\":[{\"a\":[[1,2],[3]],\"b\":[1,2]},{\"a\":{\"a\":5},\"b\":[3]},[4,[5]]],\"x\":1}";

/// Exhaustive small scope: every token sequence up to a length bound; the
/// sentences among them must have the tree the rules give, the others are
/// rejected.
fn enumerate(env: &Env, st: &mut Stats) -> Vec<Failure> {
    let thorough = env.tier == Tier::Thorough;
    let mut plan: Vec<(&[&str], usize)> = vec![];
    for l in 1..=(if thorough { 6 } else { 5 }) {
        plan.push((ENUM_WIDE, l));
    }
    plan.push((ENUM_NARROW, 6));
    if thorough {
        plan.push((ENUM_NARROW, 7));
    }
    let docs = vec![(String::new(), ENUM_DOC.to_string())];
    let mut fails = vec![];
    for (alphabet, len) in plan {
        let fs = enumerate_tokens(alphabet, len, 16, env, st, |text, local| {
            if check_sentence("enumerate", text, &docs, local)? {
                local.class("enumerate:sentence");
                record(local, text);
            } else {
                compare_accept("enumerate", text)?;
            }
            Ok(())
        });
        fails.extend(fs);
        if !fails.is_empty() {
            break;
        }
    }
    fails
}

fn replay_enumerated(case: &Value, _env: &Env) -> CaseResult {
    for t in case["preceded_by_failing_compiles"].as_array().cloned().unwrap_or_default() {
        replay_disturbance(t.as_str().unwrap_or(""));
    }
    let text = case["expression"].as_str().unwrap_or("");
    let mut st = Stats::new();
    let doc = case["document"].as_str().unwrap_or(ENUM_DOC).to_string();
    if !check_sentence("enumerate", text, &[(String::new(), doc)], &mut st)? {
        compare_accept("enumerate", text)?;
    }
    Ok(())
}

fn corpus_all(env: &Env, st: &mut Stats) -> Vec<Failure> {
    let mut fails = vec![];
    let docs: Vec<(String, String)> = cross_documents(env.seed).into_iter().take(12).map(|(_, t)| (String::new(), t)).collect();
    for e in corpus().valid_expressions() {
        st.eval();
        match check_sentence("corpus", e, &docs, st) {
            Ok(true) => record(st, e),
            Ok(false) => {}
            Err(f) => fails.push(f),
        }
    }
    fails
}

pub fn check_sentence_pub(sub: &str, text: &str, docs: &[(String, String)], st: &mut Stats) -> Result<bool, Failure> {
    check_sentence(sub, text, docs, st)
}

const REPEAT_DOC: &str = "{\"a\":[{\"a\":[[1,2],[3]],\"b\":[1,2]},{\"b\":[3]},[4,[5]]],\"b\":[[1],[2]],\"k\":1}";

/// Enumerated repeat family: shape and parenthesisation relations at every count.
fn repeats(env: &Env, st: &mut Stats) -> Vec<Failure> {
    let mut fails = vec![];
    let docs = vec![(String::new(), REPEAT_DOC.to_string())];
    for form in 0..REPEAT_FORMS.len() {
        // the explicit parenthesisation is quadratic in the count: sample the large counts
        for k in repeat_counts(env.tier == Tier::Thorough) {
            if k > 300 && k % 7 != 0 && !(k % 64 <= 2 || k % 64 >= 62) {
                continue;
            }
            let text = repeat_text(form, k);
            st.eval();
            match check_sentence("repeats", &text, &docs, st) {
                Ok(true) => {
                    if k >= 17 {
                        st.nontrivial(&format!("repeat:{}:{}", form, k));
                    }
                }
                Ok(false) => {}
                Err(mut f) => {
                    f.case = json!({"form": form, "count": k, "expression_prefix": repeat_text(form, 3)});
                    fails.push(f);
                    break;
                }
            }
        }
    }
    st.sample(|| json!({"repeat_form": repeat_text(8, 4), "counts": "0..=600"}));
    fails
}

fn replay_repeat(case: &Value, _env: &Env) -> CaseResult {
    let text = repeat_text(case["form"].as_u64().unwrap_or(0) as usize, case["count"].as_u64().unwrap_or(0) as usize);
    let mut st = Stats::new();
    check_sentence("repeats", &text, &[(String::new(), REPEAT_DOC.to_string())], &mut st).map(|_| ())
}

fn fuzz_run(env: &Env, st: &mut Stats) -> Vec<Failure> {
    crate::fuzzing::campaign("syntax_diff", env, st, 120)
}

fn fuzz_replay(case: &Value, env: &Env) -> CaseResult {
    crate::fuzzing::replay("syntax_diff", case, env)
}

fn replay_text(case: &Value, _env: &Env) -> CaseResult {
    let mut st = Stats::new();
    let docs = vec![(String::new(), case["document"].as_str().unwrap_or("null").to_string())];
    check_sentence("corpus", case["expression"].as_str().unwrap_or(""), &docs, &mut st).map(|_| ())
}

#[allow(dead_code)]
fn unused(_: &RefExpr) {}

pub fn property() -> Property {
    Property {
        id: "C04",
        rule: RULE,
        assumptions: vec![
            "the binding-power table quoted in the statement, applied by precedence climbing, defines the parse; the reference parser implements it independently of parser.rs".into(),
            "shapes are compared modulo associativity of Subexpr ((a.b).c and a.(b.c) are the same pipeline): the statement fixes grouping, not the nesting of a chain of sub-expressions".into(),
        ],
        minimise: None,
        subs: vec![
            Sub::Custom(CustomSub { name: "corpus", run: corpus_all, replay: replay_text }),
            Sub::Custom(CustomSub { name: "repeats", run: repeats, replay: replay_repeat }),
            Sub::Custom(CustomSub { name: "enumerate", run: enumerate, replay: replay_enumerated }),
            Sub::Bytes(BytesSub { name: "chains", f: chains, max_len: 1200, quick: Budget { threads: 8, cases: 3000 }, thorough: Budget { threads: 16, cases: 60_000 }, keep_unreproducible: false }),
            Sub::Bytes(BytesSub { name: "tree-shape", f: tree_shape, max_len: 1500, quick: Budget { threads: 16, cases: 8000 }, thorough: Budget { threads: 16, cases: 100_000 }, keep_unreproducible: false }),
            Sub::Bytes(BytesSub { name: "unparen", f: unparen, max_len: 1500, quick: Budget { threads: 16, cases: 8000 }, thorough: Budget { threads: 16, cases: 150_000 }, keep_unreproducible: false }),
            Sub::Custom(CustomSub { name: "fuzz-syntax_diff", run: fuzz_run, replay: fuzz_replay }),
            Sub::Bytes(BytesSub { name: "mutant-sentences", f: mutant_sentences, max_len: 1200, quick: Budget { threads: 16, cases: 8000 }, thorough: Budget { threads: 16, cases: 200_000 }, keep_unreproducible: false }),
        ],
    }
}
