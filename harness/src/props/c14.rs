//! C14 — serde bridge: typed values are searched as their JSON image and
//! decode back.

use std::collections::BTreeMap;
use std::fmt::Debug;

use serde::de::DeserializeOwned;
use serde::{Deserialize, Serialize};
use serde_json::json;

use jmespath::{ToJmespath, Variable};

use crate::gen_doc::gen_string;
use crate::model::J;
use crate::runner::*;
use crate::shape::var_to_j;
use crate::src::Src;

pub const RULE: &str = "values of a family of derive-d Rust types covering the serde data model (named / tuple / newtype / unit structs, enums with unit / newtype / tuple / struct variants incl. zero-field ones, nested Options, tuples, Vec, string-keyed maps, maps keyed by char and by unit enum, char, bytes through serialize_bytes / deserialize_byte_buf, every integer width at its extremes, f32 / f64 incl. non-finite) generated recursively; oracle = serde_json::to_value / from_value as the definition of the JSON image: to_jmespath and Variable::from_serializable equal the image, searching the typed value equals searching the image, T::deserialize(variable) agrees with serde_json::from_value::<T>(image) in success and value (also across types: the image of one type decoded as another), and x -> search('@') -> T gives x back; non-trivial = the value contains an enum variant with payload, an integer outside i32, a nested Option, or bytes (distinct by image text)";

#[derive(Serialize, Deserialize, Debug, Clone, PartialEq)]
pub struct Unit;

#[derive(Serialize, Deserialize, Debug, Clone, PartialEq)]
pub struct Newtype(pub i64);

#[derive(Serialize, Deserialize, Debug, Clone, PartialEq)]
pub struct TupleS(pub i8, pub String, pub Option<u16>);

#[derive(Serialize, Deserialize, Debug, Clone, PartialEq, Eq, PartialOrd, Ord)]
pub enum Key {
    Alpha,
    Beta,
    #[serde(rename = "g a m m a")]
    Gamma,
}

#[derive(Debug, Clone, PartialEq)]
pub struct Bytes(pub Vec<u8>);

impl Serialize for Bytes {
    fn serialize<S: serde::Serializer>(&self, s: S) -> Result<S::Ok, S::Error> {
        s.serialize_bytes(&self.0)
    }
}

impl<'de> Deserialize<'de> for Bytes {
    fn deserialize<D: serde::Deserializer<'de>>(d: D) -> Result<Self, D::Error> {
        struct V;
        impl<'de> serde::de::Visitor<'de> for V {
            type Value = Bytes;
            fn expecting(&self, f: &mut std::fmt::Formatter) -> std::fmt::Result {
                f.write_str("bytes")
            }
            fn visit_bytes<E: serde::de::Error>(self, v: &[u8]) -> Result<Bytes, E> {
                Ok(Bytes(v.to_vec()))
            }
            fn visit_byte_buf<E: serde::de::Error>(self, v: Vec<u8>) -> Result<Bytes, E> {
                Ok(Bytes(v))
            }
            fn visit_str<E: serde::de::Error>(self, v: &str) -> Result<Bytes, E> {
                Ok(Bytes(v.as_bytes().to_vec()))
            }
            fn visit_seq<A: serde::de::SeqAccess<'de>>(self, mut a: A) -> Result<Bytes, A::Error> {
                let mut out = vec![];
                while let Some(b) = a.next_element::<u8>()? {
                    out.push(b);
                }
                Ok(Bytes(out))
            }
        }
        d.deserialize_byte_buf(V)
    }
}

#[derive(Serialize, Deserialize, Debug, Clone, PartialEq)]
pub enum E {
    Unit,
    NewT(i64),
    Tup(i32, String),
    Tup0(),
    Tup1(u8),
    Struct { x: u64, y: Option<bool> },
    Struct0 {},
    Nested(Box<E>),
    Opt(Option<Option<i8>>),
    Seq(Vec<E>),
    #[serde(rename = "re named")]
    Renamed(Unit),
}

#[derive(Serialize, Deserialize, Debug, Clone, PartialEq)]
pub struct Ints {
    pub a: i8,
    pub b: i16,
    pub c: i32,
    pub d: i64,
    pub e: u8,
    pub f: u16,
    pub g: u32,
    pub h: u64,
    pub i: isize,
    pub j: usize,
}

#[derive(Serialize, Deserialize, Debug, Clone, PartialEq)]
pub struct Named {
    pub a: i32,
    pub b: String,
    pub c: Option<Box<Named>>,
    pub d: Vec<E>,
    pub e: BTreeMap<String, u8>,
    pub f: (bool, char),
    pub g: Unit,
    pub h: Newtype,
    pub u: (),
    pub f64v: f64,
    pub bytes: Bytes,
    pub ck: BTreeMap<char, i8>,
    pub ek: BTreeMap<Key, Option<u8>>,
    pub t: TupleS,
    pub oo: Option<Option<u8>>,
}

#[derive(Serialize, Deserialize, Debug, Clone, PartialEq)]
pub struct Floats {
    pub x: f32,
    pub y: f64,
    pub v: Vec<f64>,
    pub o: Option<f32>,
}

/// A map whose Serialize impl may emit the same key more than once
/// (what `#[serde(flatten)]` collisions and hand-written multimaps do).
#[derive(Debug, Clone, PartialEq)]
pub struct DupMap(pub Vec<(String, i64)>);

impl Serialize for DupMap {
    fn serialize<S: serde::Serializer>(&self, s: S) -> Result<S::Ok, S::Error> {
        use serde::ser::SerializeMap;
        let mut m = s.serialize_map(Some(self.0.len()))?;
        for (k, v) in &self.0 {
            m.serialize_entry(k, v)?;
        }
        m.end()
    }
}

impl<'de> Deserialize<'de> for DupMap {
    fn deserialize<D: serde::Deserializer<'de>>(d: D) -> Result<Self, D::Error> {
        let m = BTreeMap::<String, i64>::deserialize(d)?;
        Ok(DupMap(m.into_iter().collect()))
    }
}

#[derive(Serialize, Deserialize, Debug, Clone, PartialEq)]
pub struct Flat {
    pub id: i64,
    #[serde(flatten)]
    pub extra: BTreeMap<String, serde_json::Value>,
}

/// Long runs of numbers whose neighbours are equal, nearly equal or the same
/// value in another type (size and adjacency thresholds).
fn gen_run_u64(src: &mut Src) -> Vec<u64> {
    let n = src.size(300);
    let base = *src.pick(&[0u64, 5, (1 << 53) - 2, 1_700_000_000_000_000_000, u64::MAX - 400, i64::MAX as u64 - 3]);
    let mut v = vec![];
    let mut cur = base;
    for _ in 0..n {
        match src.below(4) {
            0 => {}
            1 => cur = cur.wrapping_add(1),
            2 => cur = cur.wrapping_add(src.below(3) as u64),
            _ => cur = base,
        }
        v.push(cur);
    }
    v
}

fn gen_run_f64(src: &mut Src) -> Vec<f64> {
    let n = src.size(300);
    let mut v = vec![];
    let mut cur = *src.pick(&[0.0f64, 1.0, 0.71, 1e15, -2.5]);
    for _ in 0..n {
        match src.below(5) {
            0 => {}
            1 => cur = f64::from_bits(cur.to_bits() ^ 1),
            2 => cur = -cur,
            3 => cur += 1.0,
            _ => cur = cur.trunc(),
        }
        v.push(cur);
    }
    v
}

fn gen_char_v(src: &mut Src) -> char {
    crate::gen_doc::gen_char(src)
}

fn gen_i64(src: &mut Src) -> i64 {
    match src.below(5) {
        0 => src.range(-5, 5),
        1 => *src.pick(&[i64::MAX, i64::MIN, i64::MAX - 1, i64::MIN + 1, i32::MAX as i64 + 1, i32::MIN as i64 - 1, (1 << 53) + 1]),
        2 => src.u64() as i64,
        _ => src.range(-1000, 1000),
    }
}

fn gen_u64(src: &mut Src) -> u64 {
    match src.below(4) {
        0 => src.below(10) as u64,
        1 => *src.pick(&[u64::MAX, u64::MAX - 1, i64::MAX as u64, i64::MAX as u64 + 1, u32::MAX as u64 + 1]),
        _ => src.u64(),
    }
}

pub fn gen_e(src: &mut Src, d: usize) -> E {
    let deep = d >= 3;
    match src.weighted(&[2, 3, 3, 2, 2, 3, 2, if deep { 0 } else { 3 }, 3, if deep { 0 } else { 2 }, 1]) {
        0 => E::Unit,
        1 => E::NewT(gen_i64(src)),
        2 => E::Tup(src.u32() as i32, gen_string(src)),
        3 => E::Tup0(),
        4 => E::Tup1(src.byte()),
        5 => E::Struct { x: gen_u64(src), y: *src.pick(&[None, Some(true), Some(false)]) },
        6 => E::Struct0 {},
        7 => E::Nested(Box::new(gen_e(src, d + 1))),
        8 => E::Opt(*src.pick(&[None, Some(None), Some(Some(0)), Some(Some(-128)), Some(Some(127))])),
        9 => E::Seq((0..src.below(3)).map(|_| gen_e(src, d + 1)).collect()),
        _ => E::Renamed(Unit),
    }
}

pub fn gen_ints(src: &mut Src) -> Ints {
    let ext = src.below(3);
    match ext {
        0 => Ints { a: i8::MIN, b: i16::MIN, c: i32::MIN, d: i64::MIN, e: 0, f: 0, g: 0, h: 0, i: isize::MIN, j: 0 },
        1 => Ints { a: i8::MAX, b: i16::MAX, c: i32::MAX, d: i64::MAX, e: u8::MAX, f: u16::MAX, g: u32::MAX, h: u64::MAX, i: isize::MAX, j: usize::MAX },
        _ => Ints {
            a: src.byte() as i8,
            b: src.u32() as i16,
            c: src.u32() as i32,
            d: gen_i64(src),
            e: src.byte(),
            f: src.u32() as u16,
            g: src.u32(),
            h: gen_u64(src),
            i: gen_i64(src) as isize,
            j: gen_u64(src) as usize,
        },
    }
}

pub fn gen_f64(src: &mut Src) -> f64 {
    match src.below(6) {
        0 => src.range(-10, 10) as f64,
        1 => src.range(-80, 80) as f64 / 8.0,
        2 => *src.pick(&[f64::NAN, f64::INFINITY, f64::NEG_INFINITY, -0.0, f64::MAX, f64::MIN_POSITIVE, 5e-324]),
        _ => {
            let f = f64::from_bits(src.u64());
            if f.is_nan() {
                1.5
            } else {
                f
            }
        }
    }
}

pub fn gen_named(src: &mut Src, d: usize) -> Named {
    let mut e = BTreeMap::new();
    for _ in 0..src.below(3) {
        e.insert(gen_string(src), src.byte());
    }
    let mut ck = BTreeMap::new();
    for _ in 0..src.below(3) {
        ck.insert(gen_char_v(src), src.byte() as i8);
    }
    let mut ek = BTreeMap::new();
    for _ in 0..src.below(3) {
        ek.insert(src.pick(&[Key::Alpha, Key::Beta, Key::Gamma]).clone(), if src.flip() { Some(src.byte()) } else { None });
    }
    Named {
        a: src.u32() as i32,
        b: gen_string(src),
        c: if d < 2 && src.chance(80) { Some(Box::new(gen_named(src, d + 1))) } else { None },
        d: (0..if src.chance(24) { 8 + src.size(80) } else { src.below(4) }).map(|_| gen_e(src, 0)).collect(),
        e,
        f: (src.flip(), gen_char_v(src)),
        g: Unit,
        h: Newtype(gen_i64(src)),
        u: (),
        f64v: {
            let f = gen_f64(src);
            if f.is_finite() {
                f
            } else {
                0.25
            }
        },
        bytes: Bytes((0..if src.chance(50) { src.size(300) } else { src.below(5) }).map(|_| src.byte()).collect()),
        ck,
        ek,
        t: TupleS(src.byte() as i8, gen_string(src), if src.flip() { Some(src.u32() as u16) } else { None }),
        oo: *src.pick(&[None, Some(None), Some(Some(7))]),
    }
}

fn image<T: Serialize>(x: &T) -> Result<serde_json::Value, String> {
    serde_json::to_value(x).map_err(|e| e.to_string())
}

fn img_text(v: &serde_json::Value) -> String {
    serde_json::to_string(v).unwrap_or_default()
}

/// All equalities of the statement for one typed value.
fn check_value<T: Serialize + DeserializeOwned + Debug>(sub: &str, tyname: &str, x: &T, st: &mut Stats) -> Result<String, Failure> {
    st.eval();
    let img = image(x).map_err(|e| Failure::new(sub, "harness-image", e, json!({"type": tyname, "value": format!("{:?}", x)})))?;
    let it = img_text(&img);
    let case = json!({"type": tyname, "value": format!("{:?}", x), "image": it});
    let jimg = J::from_value(&img);
    // a. conversion for searching == JSON image
    let v1 = Variable::from_serializable(x).map_err(|e| Failure::new(sub, "from_serializable-failed", e.to_string(), case.clone()))?;
    let v2 = x.to_jmespath().map_err(|e| Failure::new(sub, "to_jmespath-failed", e.to_string(), case.clone()))?;
    if !var_to_j(&v1).exact_eq(&jimg) || !var_to_j(&v2).exact_eq(&jimg) {
        return Err(Failure::new(sub, "searchable-value-differs-from-json-image", format!("from_serializable = {}, to_jmespath = {}, image = {}", v1, v2, it), case));
    }
    // b. searching the typed value == searching its image (value and text routes)
    for e in ["@", "*", "[*]", "@.*.*", "[0]", "a", "d[*]", "keys(@)", "to_string(@)"] {
        let ex = jmespath::compile(e).unwrap();
        let r1 = ex.search(x).map(|r| var_to_j(&r));
        let r2 = ex.search(&img).map(|r| var_to_j(&r));
        let same = match (&r1, &r2) {
            (Ok(a), Ok(b2)) => a.exact_eq(b2),
            (Err(a), Err(b2)) => a.reason == b2.reason,
            _ => false,
        };
        if !same {
            return Err(Failure::new(sub, "search-of-typed-value-differs-from-image", format!("{} on the typed value gave {:?}, on its image {:?}", e, r1.map(|j| j.to_json()), r2.map(|j| j.to_json())), case));
        }
    }
    // c. deserialisation agrees with serde_json::from_value
    let want: Result<T, String> = serde_json::from_value::<T>(img.clone()).map_err(|e| e.to_string());
    let got: Result<T, String> = catch(std::panic::AssertUnwindSafe(|| T::deserialize(v1.clone()).map_err(|e| e.to_string())))
        .map_err(|p| Failure::new(sub, "panic", p, case.clone()))?;
    compare_decoded(sub, "deserialize-differs-from-serde_json", &want, &got, &case)?;
    // d. the value survives the trip through the library
    let out = jmespath::compile("@").unwrap().search(x).map_err(|e| Failure::new(sub, "identity-search-failed", e.to_string(), case.clone()))?;
    let back: Result<T, String> = T::deserialize((*out).clone()).map_err(|e| e.to_string());
    compare_decoded(sub, "round-trip-changes-value", &want, &back, &case)?;
    if let Ok(b2) = &back {
        let bi = image(b2).unwrap_or(serde_json::Value::Null);
        if !J::from_value(&bi).exact_eq(&jimg) {
            return Err(Failure::new(sub, "round-trip-changes-value", format!("came back as {}", img_text(&bi)), case));
        }
    }
    Ok(it)
}

#[derive(Serialize, serde::Deserialize, Debug, Clone, PartialEq, Eq, PartialOrd, Ord)]
pub struct Id(pub String);

/// Values of types the statement does not cover (128-bit integers): refusing is
/// fine; producing a value that differs from serde_json's is not.
fn check_wide<T: Serialize + Debug>(sub: &str, tyname: &str, x: &T, st: &mut Stats) -> CaseResult {
    let want = serde_json::to_value(x);
    let case = json!({"type": tyname, "value": format!("{:?}", x)});
    for (route, got) in [("from_serializable", Variable::from_serializable(x).map(jmespath::Rcvar::new)), ("search", jmespath::compile("@").unwrap().search(x))] {
        match (&want, got) {
            (_, Err(_)) => st.class("wide-integer:refused"),
            (Ok(w), Ok(g)) => {
                if !var_to_j(&g).exact_eq(&J::from_value(w)) {
                    return Err(Failure::new(sub, "searchable-value-differs-from-json-image", format!("{} of {:?} gives {} but serde_json gives {}", route, x, g, w), case));
                }
                st.class("wide-integer:converted");
            }
            (Err(e), Ok(g)) => {
                return Err(Failure::new(sub, "searchable-value-differs-from-json-image", format!("{} of {:?} gives {} but serde_json refuses it ({})", route, x, g, e), case));
            }
        }
    }
    Ok(())
}

fn compare_decoded<T: Serialize + Debug>(sub: &str, sig: &str, want: &Result<T, String>, got: &Result<T, String>, case: &serde_json::Value) -> CaseResult {
    match (want, got) {
        (Ok(a), Ok(b2)) => {
            let (ia, ib) = (image(a).unwrap_or_default(), image(b2).unwrap_or_default());
            if !J::from_value(&ia).exact_eq(&J::from_value(&ib)) {
                return Err(Failure::new(sub, sig, format!("serde_json decodes {:?}, the library decodes {:?}", a, b2), case.clone()));
            }
            Ok(())
        }
        (Err(_), Err(_)) => Ok(()),
        (Ok(a), Err(e)) => Err(Failure::new(sub, sig, format!("serde_json decodes {:?}, the library fails: {}", a, e), case.clone())),
        (Err(e), Ok(b2)) => Err(Failure::new(sub, &format!("{}/accepts-what-serde_json-rejects", sig), format!("serde_json fails ({}), the library decodes {:?}", e, b2), case.clone())),
    }
}

/// Decode the image of one type as another type: same success and value as serde_json.
fn check_cross<B: DeserializeOwned + Serialize + Debug>(sub: &str, img: &serde_json::Value, target: &str, st: &mut Stats) -> CaseResult {
    st.eval();
    let case = json!({"image": img_text(img), "decode_as": target});
    let var = Variable::try_from_value(img);
    let want: Result<B, String> = serde_json::from_value::<B>(img.clone()).map_err(|e| e.to_string());
    let got: Result<B, String> = catch(std::panic::AssertUnwindSafe(|| B::deserialize(var).map_err(|e| e.to_string()))).map_err(|p| Failure::new(sub, "panic", p, case.clone()))?;
    st.class(if want.is_ok() { "cross:decodes" } else { "cross:rejected" });
    compare_decoded(sub, "deserialize-differs-from-serde_json", &want, &got, &case)
}

trait TryFromValue {
    fn try_from_value(v: &serde_json::Value) -> Variable;
}

impl TryFromValue for Variable {
    fn try_from_value(v: &serde_json::Value) -> Variable {
        use std::convert::TryFrom;
        Variable::try_from(v).expect("Value converts")
    }
}

fn interesting(it: &str) -> bool {
    it.contains("NewT") || it.contains("Tup") || it.contains("Struct") || it.contains("Nested") || it.contains("Opt") || it.len() > 40
}

fn typed(src: &mut Src, st: &mut Stats, _env: &Env) -> CaseResult {
    let it = match src.below(13) {
        9 => {
            if src.flip() {
                check_value("typed", "Vec<u64>", &gen_run_u64(src), st)?
            } else {
                check_value("typed", "Vec<f64>", &gen_run_f64(src), st)?
            }
        }
        10 => {
            // mixed integer / float neighbours through a tuple-of-vectors and a vector of pairs
            let a = gen_run_u64(src);
            let pairs: Vec<(u64, f64, i64)> = a.iter().map(|x| (*x, *x as f64, *x as i64)).collect();
            check_value("typed", "Vec<(u64, f64, i64)>", &pairs, st)?
        }
        12 => {
            // std types whose Serialize / Deserialize consult is_human_readable()
            use std::net::{IpAddr, Ipv4Addr, Ipv6Addr, SocketAddr};
            let ip4 = IpAddr::V4(Ipv4Addr::new(src.byte(), src.byte(), src.byte(), src.byte()));
            let ip6 = IpAddr::V6(Ipv6Addr::new(src.u32() as u16, 0, 0, 0, 0, 0, src.byte() as u16, 1));
            match src.below(4) {
                0 => check_value("typed", "IpAddr", &ip4, st)?,
                1 => check_value("typed", "IpAddr", &ip6, st)?,
                2 => check_value("typed", "SocketAddr", &SocketAddr::new(ip4, src.u32() as u16), st)?,
                _ => check_value("typed", "(Vec<IpAddr>, Option<SocketAddr>, std::time::Duration, std::path::PathBuf)", &(vec![ip4, ip6], Some(SocketAddr::new(ip6, 8080)), std::time::Duration::new(src.u32() as u64, src.u32() % 1_000_000_000), std::path::PathBuf::from(gen_string(src).replace('\u{0}', "0"))), st)?,
            }
        }
        11 => {
            if src.flip() {
                let keys = ["a", "b", "id", "a", "k"];
                let n = src.below(6);
                let d = DupMap((0..n).map(|i| (keys[src.below(keys.len())].to_string(), i as i64)).collect());
                check_value("typed", "DupMap", &d, st)?
            } else {
                let mut extra = BTreeMap::new();
                for _ in 0..src.below(4) {
                    extra.insert(src.pick(&["id", "x", "y", "é"]).to_string(), json!(gen_string(src)));
                }
                check_value("typed", "Flat", &Flat { id: gen_i64(src), extra }, st)?
            }
        }
        0 | 1 => check_value("typed", "Named", &gen_named(src, 0), st)?,
        2 | 3 => check_value("typed", "E", &gen_e(src, 0), st)?,
        4 => check_value("typed", "Ints", &gen_ints(src), st)?,
        5 => {
            let f = Floats { x: gen_f64(src) as f32, y: gen_f64(src), v: (0..src.below(3)).map(|_| gen_f64(src)).collect(), o: if src.flip() { Some(gen_f64(src) as f32) } else { None } };
            check_value("typed", "Floats", &f, st)?
        }
        6 => {
            let v: Vec<Option<(i8, Vec<E>)>> = (0..src.below(3)).map(|_| if src.flip() { Some((src.byte() as i8, vec![gen_e(src, 1)])) } else { None }).collect();
            check_value("typed", "Vec<Option<(i8, Vec<E>)>>", &v, st)?
        }
        7 => {
            let mut m: BTreeMap<String, E> = BTreeMap::new();
            for _ in 0..src.below(4) {
                m.insert(gen_string(src), gen_e(src, 1));
            }
            check_value("typed", "BTreeMap<String, E>", &m, st)?
        }
        _ => match src.below(8) {
            5 => {
                // map keys that are not plain strings on the Rust side: a newtype around String
                let mut m: BTreeMap<Id, i8> = BTreeMap::new();
                for _ in 0..src.below(4) {
                    m.insert(Id(gen_string(src)), src.byte() as i8);
                }
                check_value("typed", "BTreeMap<Id, i8>", &m, st)?
            }
            6 => {
                // (integer-keyed maps are outside the statement: "string-keyed maps"; the library refuses them)
                let mut m: BTreeMap<Id, Vec<Id>> = BTreeMap::new();
                for _ in 0..src.below(4) {
                    m.insert(Id(gen_string(src)), vec![Id(gen_string(src))]);
                }
                check_value("typed", "BTreeMap<Id, Vec<Id>>", &(m, Id(gen_string(src))), st)?
            }
            7 => {
                // 128-bit integers are outside the statement ("8..64-bit integers"): the library
                // may refuse them, but a value it does produce is the one serde_json produces
                let v: i128 = match src.below(6) {
                    0 => src.range(-5, 5) as i128,
                    1 => i64::MIN as i128 - src.below(3) as i128,
                    2 => u64::MAX as i128 + src.below(3) as i128 - 1,
                    3 => i128::MIN + src.below(2) as i128,
                    4 => -(1i128 << 64) + src.range(-1, 1) as i128,
                    _ => (src.u64() as i128) * if src.flip() { -3 } else { 1 },
                };
                st.eval();
                check_wide("typed", "i128", &v, st)?;
                if v >= 0 {
                    check_wide("typed", "u128", &(v as u128), st)?;
                }
                check_wide("typed", "(i128, String)", &(v, "x".to_string()), st)?;
                String::new()
            }
            0 => check_value("typed", "u64", &gen_u64(src), st)?,
            1 => check_value("typed", "i64", &gen_i64(src), st)?,
            2 => check_value("typed", "char", &gen_char_v(src), st)?,
            3 => check_value("typed", "Option<Option<()>>", src.pick(&[None, Some(None), Some(Some(()))]), st)?,
            4 => {
                // long byte strings and long homogeneous sequences (block-wise conversions)
                let n = src.size(400);
                let bytes = Bytes((0..n).map(|i| if src.chance(200) { (i % 251) as u8 } else { src.byte() }).collect());
                let r = check_value("typed", "Bytes", &bytes, st)?;
                let m = src.size(300);
                let v: Vec<u16> = (0..m).map(|i| (i as u16).wrapping_mul(257)).collect();
                check_value("typed", "Vec<u16>", &v, st)?;
                let w: Vec<Option<u8>> = (0..m).map(|i| if i % 7 == 3 { None } else { Some(i as u8) }).collect();
                check_value("typed", "Vec<Option<u8>>", &w, st)?;
                r
            }
            _ => check_value("typed", "(Unit, Newtype, Bytes, Key)", &(Unit, Newtype(gen_i64(src)), Bytes(vec![src.byte(), src.byte()]), src.pick(&[Key::Alpha, Key::Gamma]).clone()), st)?,
        },
    };
    if interesting(&it) && st.nontrivial(&it) {
        st.sample(|| json!({"image": it}));
    }
    Ok(())
}

fn cross(src: &mut Src, st: &mut Stats, _env: &Env) -> CaseResult {
    // an image of some type (sometimes perturbed) decoded as several other types
    let mut img = match src.below(6) {
        0 => image(&gen_e(src, 0)),
        1 => image(&gen_named(src, 1)),
        2 => image(&gen_ints(src)),
        3 => image(&(src.byte() as i8, gen_string(src), Some(1u16), gen_e(src, 1))),
        4 => image(&vec![gen_i64(src), gen_i64(src), gen_i64(src)]),
        _ => Ok(crate::gen_doc::gen_json(src, 0, &crate::gen_doc::DocOpts { max_depth: 2, max_width: 3, ..Default::default() }).to_value()),
    }
    .unwrap_or(serde_json::Value::Null);
    // perturb: drop / add an element or member
    if src.chance(90) {
        match &mut img {
            serde_json::Value::Array(a) => {
                if src.flip() {
                    a.push(json!(1));
                } else {
                    a.pop();
                }
            }
            serde_json::Value::Object(o) => {
                if src.flip() {
                    o.insert("zz_extra".into(), json!(null));
                } else if let Some(k) = o.keys().next().cloned() {
                    o.remove(&k);
                }
            }
            _ => {}
        }
    }
    match src.below(12) {
        0 => check_cross::<E>("cross", &img, "E", st),
        1 => check_cross::<Named>("cross", &img, "Named", st),
        2 => check_cross::<Ints>("cross", &img, "Ints", st),
        3 => check_cross::<TupleS>("cross", &img, "TupleS", st),
        4 => check_cross::<(i64, i64)>("cross", &img, "(i64, i64)", st),
        5 => check_cross::<Vec<i64>>("cross", &img, "Vec<i64>", st),
        6 => check_cross::<Option<u8>>("cross", &img, "Option<u8>", st),
        7 => check_cross::<BTreeMap<String, serde_json::Value>>("cross", &img, "BTreeMap<String, Value>", st),
        8 => check_cross::<Newtype>("cross", &img, "Newtype", st),
        9 => check_cross::<Unit>("cross", &img, "Unit", st),
        10 => check_cross::<Bytes>("cross", &img, "Bytes", st),
        _ => check_cross::<(i8, String, Option<u16>, E)>("cross", &img, "(i8, String, Option<u16>, E)", st),
    }?;
    let t = img_text(&img);
    if st.nontrivial(&t) {
        st.sample(|| json!({"image": t}));
    }
    Ok(())
}

fn cross_named(img: &serde_json::Value, target: &str, st: &mut Stats) -> CaseResult {
    match target {
        "E" => check_cross::<E>("cases", img, "E", st),
        "Named" => check_cross::<Named>("cases", img, "Named", st),
        "Ints" => check_cross::<Ints>("cases", img, "Ints", st),
        "TupleS" => check_cross::<TupleS>("cases", img, "TupleS", st),
        "(i64, i64)" => check_cross::<(i64, i64)>("cases", img, "(i64, i64)", st),
        "Vec<i64>" => check_cross::<Vec<i64>>("cases", img, "Vec<i64>", st),
        "Option<u8>" => check_cross::<Option<u8>>("cases", img, "Option<u8>", st),
        "Newtype" => check_cross::<Newtype>("cases", img, "Newtype", st),
        "Unit" => check_cross::<Unit>("cases", img, "Unit", st),
        "Bytes" => check_cross::<Bytes>("cases", img, "Bytes", st),
        _ => check_cross::<BTreeMap<String, serde_json::Value>>("cases", img, "BTreeMap<String, Value>", st),
    }
}

const FIXED: &[(&str, &str)] = &[
    ("[0,\"\",1,2]", "TupleS"),
    ("[1,2,3]", "(i64, i64)"),
    ("{\"Tup\":[1,\"a\",3]}", "E"),
    ("{\"Struct\":{\"x\":1,\"y\":null,\"z\":2}}", "E"),
    ("{\"Tup0\":[]}", "E"),
    ("{\"Struct0\":{}}", "E"),
    ("\"Unit\"", "E"),
    ("{\"Unit\":null}", "E"),
    ("18446744073709551615", "Vec<i64>"),
    ("[18446744073709551615]", "Vec<i64>"),
    ("null", "Unit"),
    ("[1,2,255]", "Bytes"),
    ("\"str\"", "Bytes"),
];

fn fixed_cases(_env: &Env, st: &mut Stats) -> Vec<Failure> {
    let mut out = vec![];
    for (img, t) in FIXED {
        let v: serde_json::Value = serde_json::from_str(img).unwrap();
        if let Err(f) = cross_named(&v, t, st) {
            out.push(f);
        }
    }
    out
}

fn replay_case(case: &serde_json::Value, _env: &Env) -> CaseResult {
    let mut st = Stats::new();
    let v: serde_json::Value = serde_json::from_str(case["image"].as_str().unwrap_or("null")).unwrap_or(serde_json::Value::Null);
    cross_named(&v, case["decode_as"].as_str().unwrap_or(""), &mut st)
}

pub fn property() -> Property {
    Property {
        id: "C14",
        rule: RULE,
        assumptions: vec![
            "serde_json::to_value / from_value define a type's JSON image and its decoding".into(),
            "128-bit integers and maps with non-string keys are outside the stated domain; non-finite floats map to null on both sides".into(),
            "decoded values are compared through their JSON images".into(),
        ],
        minimise: None,
        subs: vec![
            Sub::Custom(CustomSub { name: "cases", run: fixed_cases, replay: replay_case }),
            Sub::Bytes(BytesSub { name: "typed", f: typed, max_len: 800, quick: Budget { threads: 8, cases: 24000 }, thorough: Budget { threads: 16, cases: 200_000 }, keep_unreproducible: false }),
            Sub::Bytes(BytesSub { name: "cross", f: cross, max_len: 800, quick: Budget { threads: 8, cases: 24000 }, thorough: Budget { threads: 16, cases: 200_000 }, keep_unreproducible: false }),
        ],
    }
}
