//! C01 — search conforms to the specification (core forms).

use serde_json::{json, Value};

use crate::corpus::corpus;
use crate::gen_doc::{gen_doc, DocOpts};
use crate::gen_expr::{gen_expr, ExprOpts};
use crate::imp::{search_text, ImpOut};
use crate::model::J;
use crate::print::{minimal_keep, render, to_pieces, Printed, Spell, Ws};
use crate::refast::{lower, RefExpr};
use crate::refeval::{self, EvalErr};
use crate::refparse;
use crate::runner::*;
use crate::shape::normal_eq;
use crate::src::{mix3, Src};

pub const RULE: &str = "tree-first expressions over all core forms (hint-steered by the generated document) printed in a random spelling, plus the cross product of every core-form compliance expression with every compliance document and 40 generated documents; oracle = independent reference evaluator; for a share of the cases the same tree also as a hand-built Ast (default and bare runtime) and the same document through every data-in route (parsed text, &Value, Value, Variable::try_from of both, Rcvar, &Rcvar, &Variable, a Rust value that reaches the serializer through the uncommon serde calls), all with identical outcome; non-trivial = expression with >= 3 nodes whose reference result is neither null nor an empty container (distinct by expression text + document)";

/// Choose parentheses and whitespace for a generated tree.  Returns None when
/// the tree has no spelling (counted as discard by the caller).
pub fn spell_tree(tree: &RefExpr, src: &mut Src, st: &mut Stats) -> Option<(String, Printed, Vec<usize>)> {
    let printed = match to_pieces(tree, &mut Spell::with(src)) {
        Ok(p) => p,
        Err(_) => {
            st.class("discard:inexpressible");
            return None;
        }
    };
    let n = printed.parens as usize;
    let full = vec![true; n];
    let target = lower(tree);
    // the fully parenthesised text must denote the tree in the reference grammar
    let (full_text, _) = render(&printed, &full, Ws::None, None);
    match refparse::parse(&full_text, refparse::Mode::RelaxedExpref) {
        Ok(t) if normal_eq(&lower(&t), &target) => {}
        _ => {
            st.class("discard:tree-not-expressible");
            if std::env::var("JMV_DEBUG").is_ok() {
                eprintln!("NOT-EXPRESSIBLE {}", full_text);
            }
            return None;
        }
    }
    let keep = match src.weighted(&[3, 5, 4]) {
        0 => full,
        1 => minimal_keep(tree, &printed),
        _ => {
            let mut k = minimal_keep(tree, &printed);
            for x in k.iter_mut() {
                if !*x && src.chance(64) {
                    *x = true;
                }
            }
            k
        }
    };
    let ws = match src.weighted(&[4, 3, 3]) {
        0 => Ws::None,
        1 => Ws::Pretty,
        _ => Ws::Noisy,
    };
    let (text, offs) = render(&printed, &keep, ws, Some(src));
    Some((text, printed, offs))
}

fn is_trivial_result(v: &J) -> bool {
    match v {
        J::Null => true,
        J::Arr(a) => a.is_empty(),
        J::Obj(o) => o.is_empty(),
        _ => false,
    }
}

pub struct Cmp {
    pub nontrivial: bool,
}

/// Compare the reference evaluation of `tree` with the implementation's
/// evaluation of `text` on `doc`.
pub fn compare(sub: &str, tree: &RefExpr, text: &str, doc: &J, doc_text: &str, st: &mut Stats, approx: bool) -> Result<Cmp, Failure> {
    let mut cx = refeval::Ctx::default();
    let want = refeval::eval(tree, doc, &mut cx);
    let got = search_text(text, doc_text);
    let case = || json!({"expression": text, "document": doc_text});
    let fail = |sig: &str, msg: String| Err(Failure::new(sub, sig, msg, json!({"expression": text, "document": doc_text})));
    match (&want, &got) {
        (_, ImpOut::Panic(p)) => return fail("panic", format!("search panicked: {}", p)),
        (_, ImpOut::BadDoc(m)) => return Err(Failure::new(sub, "harness-bad-doc", m.clone(), case())),
        (_, ImpOut::CompileErr(e)) => return fail("valid-expression-rejected", format!("compile failed: {}", e.detail)),
        (Err(EvalErr::Unspecified(_)), _) => {
            st.class("skip:unspecified");
            return Ok(Cmp { nontrivial: false });
        }
        (Ok(w), ImpOut::Ok(g)) => {
            let same = if approx { w.approx_eq(g, 1e-9) } else { w.deep_eq(g) };
            if !same {
                if !cx.ambiguous.is_empty() {
                    st.class("skip:ambiguous");
                    return Ok(Cmp { nontrivial: false });
                }
                return fail("value-mismatch", format!("reference {} implementation {}", w.to_json(), g.to_json()));
            }
        }
        (Ok(w), ImpOut::SearchErr(e)) => {
            if !cx.ambiguous.is_empty() {
                st.class("skip:ambiguous");
                return Ok(Cmp { nontrivial: false });
            }
            return fail("unexpected-error", format!("reference {} implementation error {}", w.to_json(), e.detail));
        }
        (Err(e), ImpOut::Ok(g)) => {
            if !cx.ambiguous.is_empty() {
                st.class("skip:ambiguous");
                return Ok(Cmp { nontrivial: false });
            }
            return fail("missing-error", format!("reference error {:?} implementation {}", e, g.to_json()));
        }
        (Err(_), ImpOut::SearchErr(e)) => {
            if e.is_parse {
                return fail("runtime-failure-as-parse-error", format!("search failed with {}", e.detail));
            }
            st.class("result:error");
        }
    }
    let nontrivial = match &want {
        Ok(v) => {
            if is_trivial_result(v) {
                st.class("result:null-or-empty");
                false
            } else {
                st.class("result:non-null");
                tree.node_count() >= 3
            }
        }
        Err(_) => false,
    };
    Ok(Cmp { nontrivial })
}

pub fn record_kinds(tree: &RefExpr, st: &mut Stats) {
    if st.frozen {
        return;
    }
    let mut kinds: Vec<(&'static str, &'static str)> = vec![];
    tree.walk("", &mut |parent, node| kinds.push((parent, node.kind_name())));
    for (p, k) in kinds {
        st.class(&format!("kind:{}", k));
        if !p.is_empty() && !matches!(k, "field" | "current" | "literal") {
            st.class(&format!("pair:{}>{}", p, k));
        }
    }
}

fn gen_case(src: &mut Src, st: &mut Stats, _env: &Env) -> CaseResult {
    let mut doc = gen_doc(src, &DocOpts::default());
    if src.chance(28) {
        crate::gen_doc::scale_some_array(&mut doc, src, 2500);
        st.class("scaled-document");
    }
    let opts = ExprOpts::default();
    let tree = gen_expr(src, 0, Some(&doc), &opts);
    let (text, _, _) = match spell_tree(&tree, src, st) {
        Some(x) => x,
        None => {
            st.discard();
            return Ok(());
        }
    };
    // whatever failed just before on this thread has no influence on this search
    let before = crate::syn::disturb(src, st);
    st.eval();
    let doc_text = doc.to_json();
    let c = compare("gen", &tree, &text, &doc, &doc_text, st, false).map_err(|mut f| {
        if !before.is_empty() {
            f.case["preceded_by_failing_compiles"] = json!(before);
        }
        f
    })?;
    record_kinds(&tree, st);
    // the same tree assembled by hand from the public Ast and wrapped with Expression::new
    if src.chance(50) {
        crate::imp::ast_route_agrees("gen", &tree, &text, &doc_text, src)?;
        st.class("hand-built-ast-route");
    }
    // the same document handed in through every conversion route
    if src.chance(50) {
        crate::imp::data_routes_agree("gen", &text, &doc_text, src.u64())?;
        st.class("data-in-routes");
    }
    if c.nontrivial {
        let key = format!("{}\u{0}{}", text, doc_text);
        if st.nontrivial(&key) {
            st.sample(|| json!({"expression": text, "document": doc_text}));
        }
    }
    Ok(())
}

/// Deterministic pseudo-random bytes derived from the run seed (for the
/// generated documents of the enumerated sub-checks).
pub fn seeded_bytes(seed: u64, stream: u64, len: usize) -> Vec<u8> {
    let mut out = Vec::with_capacity(len);
    let mut i = 0u64;
    while out.len() < len {
        let x = mix3(seed, stream, i);
        out.extend_from_slice(&x.to_le_bytes());
        i += 1;
    }
    out.truncate(len);
    out
}

pub fn is_core(t: &RefExpr) -> bool {
    !t.contains(&|n| matches!(n, RefExpr::Call(..) | RefExpr::Expref(_)))
}

pub fn cross_documents(seed: u64) -> Vec<(J, String)> {
    let c = corpus();
    let mut docs: Vec<(J, String)> = c.documents().into_iter().map(|(j, t)| (j.clone(), t.to_string())).collect();
    for i in 0..40u64 {
        let bytes = seeded_bytes(seed, 0xD0C5 + i, 600);
        let mut s = Src::new(&bytes);
        let d = gen_doc(&mut s, &DocOpts::default());
        let t = d.to_json();
        docs.push((d, t));
    }
    docs
}

fn cross(env: &Env, st: &mut Stats) -> Vec<Failure> {
    let c = corpus();
    let docs = cross_documents(env.seed);
    let mut fails = vec![];
    let mut exprs = 0;
    for e in c.valid_expressions() {
        let tree = match refparse::parse_strict(e) {
            Ok(t) => t,
            Err(_) => continue,
        };
        if !is_core(&tree) {
            continue;
        }
        exprs += 1;
        for (d, dt) in &docs {
            st.eval();
            match compare("cross", &tree, e, d, dt, st, false) {
                Ok(c) => {
                    if c.nontrivial {
                        let key = format!("{}\u{0}{}", e, dt);
                        if st.nontrivial(&key) {
                            st.sample(|| json!({"expression": e, "document": dt}));
                        }
                    }
                }
                Err(f) => {
                    fails.push(f);
                    if fails.len() > 20 {
                        return fails;
                    }
                }
            }
        }
    }
    st.class_n("cross:expressions", exprs);
    st.class_n("cross:documents", docs.len() as u64);
    fails
}

pub fn replay_pair(sub: &'static str) -> impl Fn(&Value, &Env) -> CaseResult {
    move |case: &Value, _env: &Env| {
        let e = case["expression"].as_str().unwrap_or("");
        let dt = case["document"].as_str().unwrap_or("null");
        let d = J::parse(dt).map_err(|m| Failure::new(sub, "harness-bad-doc", m, case.clone()))?;
        let tree = refparse::parse(e, refparse::Mode::RelaxedExpref)
            .map_err(|m| Failure::new(sub, "harness-bad-expr", m.msg, case.clone()))?;
        let mut st = Stats::new();
        compare(sub, &tree, e, &d, dt, &mut st, false).map(|_| ())
    }
}

/// The public accessors of the value type agree with the model (they are what
/// the evaluator is built from and what users call on results).
fn variable_api(src: &mut Src, st: &mut Stats, _env: &Env) -> CaseResult {
    use jmespath::Variable;
    let doc = crate::gen_doc::gen_json(src, 0, &DocOpts::default());
    let dt = doc.to_json();
    let v = Variable::from_json(&dt).map_err(|m| Failure::new("variable-api", "harness-bad-doc", m, json!({"document": dt})))?;
    st.eval();
    let case = json!({"document": dt});
    let bad = |what: &str| Err(Failure::new("variable-api", "variable-accessor-wrong", what.to_string(), json!({"document": dt})));
    let tname = v.get_type().to_string();
    if tname != doc.type_name() {
        return bad(&format!("get_type() = {}", tname));
    }
    if v.is_truthy() != doc.truthy() {
        return bad("is_truthy()");
    }
    let preds = [v.is_null(), v.is_boolean(), v.is_number(), v.is_string(), v.is_array(), v.is_object(), v.is_expref()];
    let want = [doc.is_null(), matches!(doc, J::Bool(_)), matches!(doc, J::Num(_)), matches!(doc, J::Str(_)), matches!(doc, J::Arr(_)), matches!(doc, J::Obj(_)), false];
    if preds != want {
        return bad(&format!("is_* predicates {:?}", preds));
    }
    match &doc {
        J::Obj(m) => {
            let mut keys: Vec<String> = m.keys().cloned().collect();
            keys.push(crate::gen_doc::gen_key(src, true));
            keys.push(format!("{}x", keys[0].clone()));
            for k in keys {
                let got = crate::shape::var_to_j(&v.get_field(&k));
                let want = m.get(&k).cloned().unwrap_or(J::Null);
                if !got.exact_eq(&want) {
                    return bad(&format!("get_field({:?}) = {}", k, got.to_json()));
                }
            }
            if !v.get_index(0).is_null() || !v.get_negative_index(1).is_null() || v.slice(None, None, 1).is_some() {
                return bad("index / slice of an object");
            }
        }
        J::Arr(a) => {
            for i in 0..a.len() + 2 {
                let got = crate::shape::var_to_j(&v.get_index(i));
                let want = a.get(i).cloned().unwrap_or(J::Null);
                if !got.exact_eq(&want) {
                    return bad(&format!("get_index({}) = {}", i, got.to_json()));
                }
                if i >= 1 {
                    let got = crate::shape::var_to_j(&v.get_negative_index(i));
                    let want = if i <= a.len() { a[a.len() - i].clone() } else { J::Null };
                    if !got.exact_eq(&want) {
                        return bad(&format!("get_negative_index({}) = {}", i, got.to_json()));
                    }
                }
            }
            if !v.get_field("a").is_null() {
                return bad("get_field on an array");
            }
        }
        _ => {
            if !v.get_field("a").is_null() || !v.get_index(0).is_null() || !v.get_negative_index(1).is_null() || v.slice(None, None, 1).is_some() {
                return bad("accessors on a scalar");
            }
        }
    }
    // as_* views
    let views_ok = match &doc {
        J::Str(s) => v.as_string().map(|x| x == s).unwrap_or(false) && v.as_number().is_none() && v.as_array().is_none(),
        J::Num(n) => v.as_number() == Some(n.f()) && v.as_string().is_none(),
        J::Bool(b2) => v.as_boolean() == Some(*b2),
        J::Null => v.as_null().is_some() && v.as_boolean().is_none(),
        J::Arr(a) => v.as_array().map(|x| x.len() == a.len()).unwrap_or(false) && v.as_object().is_none(),
        J::Obj(o) => v.as_object().map(|x| x.len() == o.len()).unwrap_or(false) && v.as_array().is_none(),
        _ => true,
    };
    if !views_ok {
        return bad("as_* views");
    }
    let _ = case;
    if st.nontrivial(&dt) {
        st.sample(|| json!({"document": dt}));
    }
    Ok(())
}

/// Complete matrix of comparison operators over a pool of edge values (zero in
/// its spellings, magnitudes next to zero, huge values, every type, values
/// nested one level), through document fields and through literals.
fn comparison_matrix(_env: &Env, st: &mut Stats) -> Vec<Failure> {
    let pool: Vec<&str> = vec![
        "null", "true", "false", "0", "0.0", "-0.0", "1", "1.0", "-1", "1e-17", "-1e-17", "5e-324", "3e-200", "2.5e-16", "1e308", "-1e308", "9007199254740992",
        "18446744073709551615", "\"\"", "\"a\"", "\"0\"", "[]", "[0]", "[1e-17]", "[0,1]", "{}", "{\"a\":0}", "{\"a\":1e-17}", "{\"k\":[0,1]}", "{\"k\":[1e-30,1]}",
    ];
    let ops = ["==", "!=", "<", "<=", ">", ">="];
    let mut fails = vec![];
    for l in &pool {
        for r in &pool {
            let (lj, rj) = (J::parse(l).unwrap(), J::parse(r).unwrap());
            if refeval::has_near_tie(&lj, &rj) {
                continue;
            }
            let doc = format!("{{\"l\":{},\"r\":{}}}", l, r);
            let docj = J::parse(&doc).unwrap();
            for op in ops {
                for text in [format!("l {} r", op), format!("`{}` {} `{}`", l, op, r), format!("[l, r][?@ {} `{}`]", op, r)] {
                    let tree = match refparse::parse_strict(&text) {
                        Ok(t) => t,
                        Err(e) => {
                            fails.push(Failure::new("comparison-matrix", "harness-ref", e.msg, json!({"expression": text})));
                            return fails;
                        }
                    };
                    st.eval();
                    match compare("comparison-matrix", &tree, &text, &docj, &doc, st, false) {
                        Ok(_) => {
                            st.nontrivial(&format!("{}|{}", text, doc));
                        }
                        Err(f) => {
                            fails.push(f);
                            if fails.len() > 10 {
                                return fails;
                            }
                        }
                    }
                }
            }
        }
    }
    st.sample(|| json!({"expression": "l == r", "document": "{\"l\":0,\"r\":1e-17}"}));
    fails
}

fn replay_matrix(case: &Value, env: &Env) -> CaseResult {
    replay_pair("comparison-matrix")(case, env)
}

/// Towers: one construct nested / chained 1..16 times around a small random
/// leaf, against documents nested the same way (depth-dependent behaviour).
fn towers(src: &mut Src, st: &mut Stats, _env: &Env) -> CaseResult {
    let depth = if src.chance(40) { 17 + src.below(28) } else { 1 + src.below(16) };
    let leaf = *src.pick(&["a", "@", "`1`", "a[0]", "[0]", "a.b", "length(@)", "a || `0`", "'x'"]);
    let rep = |s: &str| s.repeat(depth);
    let kind = src.below(16);
    let text = match kind {
        0 => format!("a{}", rep(".a")),
        1 => format!("a{}", rep("[0]")),
        2 => format!("a{}", rep("[*]")),
        3 => format!("a{}", rep("[]")),
        4 => format!("{}{}{}", rep("a[?"), leaf, rep("]")),
        5 => format!("{}{}{}", rep("["), leaf, rep("]")),
        6 => format!("{}{}{}", rep("{a:"), leaf, rep("}")),
        7 => format!("{}{}{}", rep("("), leaf, rep(")")),
        8 => format!("{}{}", rep("!"), leaf),
        9 => format!("{}{}", leaf, rep(" | @")),
        10 => format!("{}{}", leaf, rep(" || a")),
        11 => format!("{}{}", leaf, rep(" && a")),
        12 => format!("{}{}", leaf, rep(" == a")),
        13 => format!("a{}", rep("[-1]")),
        14 => format!("a{}", rep("[::-1]")),
        _ => format!("a{} | {}", rep("[*].a"), leaf),
    };
    // a document nested the same way
    let mut doc = match src.below(4) {
        0 => J::int(7),
        1 => J::s("leaf"),
        2 => J::Arr(vec![J::int(1), J::Null, J::int(3)]),
        _ => J::Null,
    };
    let dd = depth + src.below(3) - src.below(2).min(depth - 1).min(1);
    for i in 0..dd {
        doc = match (kind, src.below(4)) {
            (0, _) | (6, _) => {
                let mut m = std::collections::BTreeMap::new();
                m.insert("a".to_string(), doc);
                if i % 3 == 0 {
                    m.insert("b".to_string(), J::int(i as i64));
                }
                J::Obj(m)
            }
            // (doubling only while the document stays small)
            (1, _) | (2, _) | (3, _) | (13, _) | (14, _) if i < 8 && depth <= 10 => J::Arr(vec![doc.clone(), J::Null, doc]),
            (1, _) | (2, _) | (3, _) | (13, _) | (14, _) => J::Arr(vec![doc, J::Null]),
            (_, 0) => J::Arr(vec![doc]),
            (_, 1) => {
                let mut m = std::collections::BTreeMap::new();
                m.insert("a".to_string(), doc);
                J::Obj(m)
            }
            (_, 2) if i < 8 && depth <= 10 => {
                let mut m = std::collections::BTreeMap::new();
                m.insert("a".to_string(), J::Arr(vec![doc.clone(), doc]));
                J::Obj(m)
            }
            (_, 2) => J::Arr(vec![J::Null, doc]),
            _ => J::Arr(vec![J::Obj([("a".to_string(), doc)].into_iter().collect())]),
        };
    }
    if matches!(kind, 1 | 2 | 3 | 13 | 14) || src.flip() {
        let mut m = std::collections::BTreeMap::new();
        m.insert("a".to_string(), doc);
        doc = J::Obj(m);
    }
    if doc.node_count() > 20_000 {
        st.discard();
        return Ok(());
    }
    let tree = match refparse::parse_strict(&text) {
        Ok(t) => t,
        Err(e) => return Err(Failure::new("towers", "harness-ref", format!("{}: {}", text, e.msg), json!({"expression": text}))),
    };
    st.eval();
    let dt = doc.to_json();
    let c = compare("towers", &tree, &text, &doc, &dt, st, true)?;
    st.class(&format!("tower:{}:{}", kind, if depth >= 8 { "deep" } else { "shallow" }));
    if c.nontrivial && depth >= 6 && st.nontrivial(&format!("{}\u{0}{}", text, dt)) {
        st.sample(|| json!({"expression": text, "document": dt}));
    }
    Ok(())
}

const REPEAT_DOCS: &[&str] = &[
    "{\"a\":[{\"a\":[[1,2],[3]],\"b\":[1,2]},{\"b\":[3]},[4,[5]]],\"b\":[[1],[2]],\"k\":1}",
    "{\"a\":{\"a\":{\"a\":{\"a\":[1,[2,[3,[4]]]],\"b\":true},\"b\":1}},\"b\":0}",
    "[[[[1,2],[3]],[[4]]],[[[5]]]]",
];

/// Enumerated repeat family (syn::REPEAT_FORMS): values at every count.
fn repeats(env: &Env, st: &mut Stats) -> Vec<Failure> {
    use crate::syn::{repeat_counts, repeat_text, REPEAT_FORMS};
    let mut fails = vec![];
    let docs: Vec<(J, &str)> = REPEAT_DOCS.iter().map(|t| (J::parse(t).unwrap(), *t)).collect();
    for form in 0..REPEAT_FORMS.len() {
        'counts: for k in repeat_counts(env.tier == Tier::Thorough) {
            let text = repeat_text(form, k);
            let tree = match refparse::parse_strict(&text) {
                Ok(t) => t,
                Err(_) => continue,
            };
            for (d, dt) in &docs {
                st.eval();
                match compare("repeats", &tree, &text, d, dt, st, true) {
                    Ok(c) => {
                        if k >= 17 && c.nontrivial {
                            st.nontrivial(&format!("repeat:{}:{}:{}", form, k, dt.len()));
                        }
                    }
                    Err(mut f) => {
                        f.case = json!({"form": form, "count": k, "document": dt, "expression_prefix": repeat_text(form, 3)});
                        fails.push(f);
                        break 'counts;
                    }
                }
            }
        }
    }
    st.sample(|| json!({"repeat_form": repeat_text(2, 4), "counts": "0..=600"}));
    fails
}

fn replay_repeat(case: &Value, _env: &Env) -> CaseResult {
    let text = crate::syn::repeat_text(case["form"].as_u64().unwrap_or(0) as usize, case["count"].as_u64().unwrap_or(0) as usize);
    replay_pair("repeats")(&json!({"expression": text, "document": case["document"]}), _env)
}

fn fuzz_run(env: &Env, st: &mut Stats) -> Vec<Failure> {
    crate::fuzzing::campaign("eval_diff", env, st, 240)
}

fn fuzz_replay(case: &Value, env: &Env) -> CaseResult {
    crate::fuzzing::replay("eval_diff", case, env)
}

fn replay_cross(case: &Value, env: &Env) -> CaseResult {
    replay_pair("cross")(case, env)
}

/// Token- and document-level minimisation of a failing pair (replayed by the
/// `cross` sub-check, which takes an explicit expression and document).
pub fn minimise(f: &Failure, env: &Env) -> Option<(Failure, Value)> {
    let e = f.case["expression"].as_str()?;
    let d = f.case["document"].as_str()?;
    let check = |e: &str, d: &str| -> Option<String> {
        let case = json!({"expression": e, "document": d});
        match replay_pair("cross")(&case, env) {
            Err(fl) if !fl.sig.starts_with("harness-") => Some(fl.sig),
            _ => None,
        }
    };
    if check(e, d).as_deref() != Some(f.sig.as_str()) {
        return None;
    }
    let (e2, d2) = crate::minimise::minimise_pair(e, d, &f.sig, &check);
    let case = json!({"expression": e2, "document": d2});
    match replay_pair("cross")(&case, env) {
        Err(mut fl) => {
            fl.message = format!("{} [minimised from a case of sub-check {}]", fl.message, f.sub);
            Some((fl, json!({"kind": "case", "case": case})))
        }
        Ok(()) => None,
    }
}

pub fn property() -> Property {
    Property {
        id: "C01",
        rule: RULE,
        assumptions: vec![
            "the reference evaluator (validated against the published compliance suite by `check selftest`) is the meaning of an expression".into(),
            "numbers are drawn from a well-separated pool and compared by value".into(),
            "slice step 0 on a non-array subject may be an error or null".into(),
        ],
        minimise: Some(minimise),
        subs: vec![
            Sub::Bytes(BytesSub {
                name: "gen",
                f: gen_case,
                max_len: 1200,
                quick: Budget { threads: 16, cases: 10000 },
                thorough: Budget { threads: 16, cases: 150_000 },
                keep_unreproducible: false,
            }),
            Sub::Bytes(BytesSub { name: "towers", f: towers, max_len: 64, quick: Budget { threads: 8, cases: 12000 }, thorough: Budget { threads: 16, cases: 150_000 }, keep_unreproducible: false }),
            Sub::Bytes(BytesSub { name: "variable-api", f: variable_api, max_len: 600, quick: Budget { threads: 4, cases: 10000 }, thorough: Budget { threads: 16, cases: 100_000 }, keep_unreproducible: false }),
            Sub::Custom(CustomSub { name: "comparison-matrix", run: comparison_matrix, replay: replay_matrix }),
            Sub::Custom(CustomSub { name: "cross", run: cross, replay: replay_cross }),
            Sub::Custom(CustomSub { name: "repeats", run: repeats, replay: replay_repeat }),
            Sub::Custom(CustomSub { name: "fuzz-eval_diff", run: fuzz_run, replay: fuzz_replay }),
        ],
    }
}
