//! C09 — raw strings, JSON literals and quoted identifiers denote their value.

use std::collections::BTreeMap;

use serde_json::json;

use crate::gen_doc::gen_char;
use crate::gen_text::*;
use crate::imp::{search_text, ImpOut};
use crate::model::{J, N};
use crate::print::{raw_representable, spell_backtick, spell_raw};
use crate::refeval;
use crate::refparse::{self, Mode};
use crate::runner::*;
use crate::src::Src;
use crate::syn::{compare_accept, Verdict};

pub const RULE: &str = "arbitrary Unicode strings (biased towards quotes, backticks, backslashes, control and astral characters and their juxtapositions) as raw-string contents and member names, arbitrary JSON values in randomised spelling as backtick literals, random unquoted identifiers with near-miss decoy keys, and arbitrary token bodies between the three delimiters; oracle = round trip by construction (the value that was spelled must come back / select the marker) and a per-form reference decoder for arbitrary bodies; non-trivial = the string contains a delimiter, a backslash or a non-BMP character (distinct by spelled text)";

fn tricky_string(src: &mut Src) -> String {
    let n = src.below(9);
    let mut s = String::new();
    for _ in 0..n {
        match src.below(10) {
            0 => s.push('\''),
            1 => s.push('"'),
            2 => s.push('`'),
            3 | 4 => s.push('\\'),
            5 => s.push_str(*src.pick(&["\\'", "\\\\", "\\`", "\\\"", "\\n", "\\u0041", "''", "\\\\'"])),
            _ => s.push(gen_char(src)),
        }
    }
    s
}

fn interesting(s: &str) -> bool {
    s.contains(|c: char| c == '\'' || c == '"' || c == '`' || c == '\\' || (c as u32) > 0xFFFF)
}

fn raw(src: &mut Src, st: &mut Stats, _env: &Env) -> CaseResult {
    let s = tricky_string(src);
    if !raw_representable(&s) {
        st.class("raw:no-spelling-exists");
        st.discard();
        return Ok(());
    }
    let text = spell_raw(&s);
    st.eval();
    let case = json!({"expression": text, "value": s});
    match search_text(&text, "null") {
        ImpOut::Ok(J::Str(g)) if g == s => {}
        other => return Err(Failure::new("raw", "raw-string-wrong-value", format!("gave {} expected {:?}", other.brief(), s), case)),
    }
    // also inside a larger expression, next to other quoted forms
    let text2 = format!("[{}, `1`, {}][2]", text, text);
    match search_text(&text2, "0") {
        ImpOut::Ok(J::Str(g)) if g == s => {}
        other => return Err(Failure::new("raw", "raw-string-wrong-value", format!("{} gave {}", text2, other.brief()), json!({"expression": text2, "value": s}))),
    }
    if interesting(&s) && st.nontrivial(&text) {
        st.sample(|| json!({"expression": text, "value": s}));
    }
    Ok(())
}

fn literal(src: &mut Src, st: &mut Stats, _env: &Env) -> CaseResult {
    let o = TextOpts { max_depth: 3, max_width: 4, big_ints: false, wild_floats: false, exact_only: true, escapes: true, dup_keys: true, whitespace: true };
    let (v, mut txt) = if src.chance(60) {
        // integers at the edge of the 64-bit ranges keep their exact value
        let i: i128 = *src.pick(&[i64::MAX as i128, i64::MIN as i128, u64::MAX as i128, (1i128 << 53) + 1, -(1i128 << 53) - 1, (1i128 << 63) + 1]);
        (J::Num(N::Int(i)), i.to_string())
    } else if src.chance(50) {
        // numerals with a fraction or an exponent (at most 15 significant digits: the double they
        // denote is fixed), whole values far outside the 64-bit integers among them
        let t = *src.pick(&["1e19", "-1e19", "1e300", "-1e300", "1.5e300", "2.5", "1e2", "1E+2", "100.0", "0.1", "-0.0", "5e-324", "1e-7", "123456789012345e5", "9.5e18", "1.0", "0.0", "4e9"]);
        (J::f(t.parse::<f64>().unwrap()), t.to_string())
    } else if src.chance(80) {
        let s = tricky_string(src);
        let t = spell_string(&s, src, true);
        (J::Str(s), t)
    } else {
        gen_text(src, &o)
    };
    if src.chance(30) {
        txt = format!(" {}\n", txt);
    }
    let text = spell_backtick(&txt);
    st.eval();
    let case = json!({"expression": text, "json": txt});
    match search_text(&text, "null") {
        ImpOut::Ok(g) if g.exact_eq(&v) || (g.deep_eq(&v) && !matches!(v, J::Num(N::Int(_)))) => {}
        other => return Err(Failure::new("literal", "literal-wrong-value", format!("gave {} expected {}", other.brief(), v.to_json()), case)),
    }
    // the same characters as a raw string, a JSON literal and a quoted identifier in ONE
    // expression: each delimiter keeps its own meaning
    if !txt.contains(|c| c == '\'' || c == '`' || c == '\\') && !txt.trim().is_empty() {
        let both = format!("[`{}`, '{}', `{}`, '{}']", txt, txt, txt, txt);
        let case = json!({"expression": both, "json": txt});
        match search_text(&both, "0") {
            ImpOut::Ok(J::Arr(a)) if a.len() == 4 => {
                let ok = (a[0].exact_eq(&v) || a[0].deep_eq(&v)) && a[2].deep_eq(&a[0]) && matches!(&a[1], J::Str(s) if s == &txt) && matches!(&a[3], J::Str(s) if s == &txt);
                if !ok {
                    return Err(Failure::new("literal", "delimiter-kinds-confused", format!("gave {}", J::Arr(a.clone()).to_json()), case));
                }
            }
            other => return Err(Failure::new("literal", "delimiter-kinds-confused", other.brief(), case)),
        }
        st.class("literal:same-text-both-delimiters");
    }
    // several literals in one expression are independent of each other, however alike:
    // the same value again, and a value that differs only in one large integer
    // (beyond 2^53 neighbouring integers are one double but two JSON values)
    if src.chance(100) {
        let big: i128 = *src.pick(&[1i128 << 53, (1i128 << 53) + 2, i64::MAX as i128 - 1, u64::MAX as i128 - 1, 1i128 << 62, -(1i128 << 53) - 2, 10_000_000_000_000_000]);
        let wrap = |inner: &str, n: i128| -> String {
            match txt.trim().chars().next() {
                Some('[') | Some('{') | Some('"') => format!("[{}, {}]", inner, n),
                _ => format!("{{\"a\": {}, \"n\": {}}}", inner, n),
            }
        };
        let (t1, t2) = (wrap(&txt, big), wrap(&txt, big + 1));
        let mk = |n: i128| -> J {
            match txt.trim().chars().next() {
                Some('[') | Some('{') | Some('"') => J::Arr(vec![v.clone(), J::Num(N::Int(n))]),
                _ => J::Obj([("a".to_string(), v.clone()), ("n".to_string(), J::Num(N::Int(n)))].into_iter().collect()),
            }
        };
        let (v1, v2) = (mk(big), mk(big + 1));
        let pair = format!("[{}, {}, {}, {}]", spell_backtick(&t1), spell_backtick(&t2), spell_backtick(&t1), spell_backtick(&big.to_string()));
        let case = json!({"expression": pair});
        let same = |g: &J, want: &J| g.exact_eq(want) || (g.deep_eq(want) && ints_equal(g, want));
        // (document 0: a multi-select on a null document is null)
        match search_text(&pair, "0") {
            ImpOut::Ok(J::Arr(a)) if a.len() == 4 && same(&a[0], &v1) && same(&a[1], &v2) && same(&a[2], &v1) && same(&a[3], &J::Num(N::Int(big))) => {}
            other => return Err(Failure::new("literal", "literals-not-independent", format!("gave {}", other.brief()), case)),
        }
        st.class("literal:neighbouring-literals");
    }
    if interesting(&txt) && st.nontrivial(&text) {
        st.sample(|| json!({"expression": text}));
    }
    Ok(())
}

/// All integer leaves agree exactly (the float leaves were compared by value).
fn ints_equal(a: &J, b: &J) -> bool {
    match (a, b) {
        (J::Num(N::Int(x)), J::Num(N::Int(y))) => x == y,
        // an integer that came back in float spelling: the same value only below 2^53
        (J::Num(N::Int(x)), J::Num(_)) | (J::Num(_), J::Num(N::Int(x))) => x.abs() <= (1i128 << 53),
        (J::Arr(x), J::Arr(y)) => x.len() == y.len() && x.iter().zip(y).all(|(p, q)| ints_equal(p, q)),
        (J::Obj(x), J::Obj(y)) => x.len() == y.len() && x.iter().zip(y.iter()).all(|((_, p), (_, q))| ints_equal(p, q)),
        _ => true,
    }
}

fn decoys(k: &str, src: &mut Src) -> Vec<String> {
    let cs: Vec<char> = k.chars().collect();
    let mut out = vec![];
    // drop one char, change one char, add one char, change case, JSON-escaped spelling as a key
    if !cs.is_empty() {
        let i = src.below(cs.len());
        let mut v = cs.clone();
        v.remove(i);
        out.push(v.iter().collect());
        let mut v = cs.clone();
        v[i] = if v[i] == 'x' { 'y' } else { 'x' };
        out.push(v.iter().collect());
    }
    out.push(format!("{}_", k));
    out.push(format!(" {}", k));
    out.push(k.to_uppercase());
    out.push(k.to_lowercase());
    out.push(crate::model::json_string(k));
    out.push(k.replace('\\', "\\\\"));
    out.push(format!("{}\\", k));
    out.retain(|d| d != k);
    out
}

fn doc_with(k: &str, src: &mut Src) -> String {
    let mut m = BTreeMap::new();
    for (i, d) in decoys(k, src).into_iter().enumerate() {
        m.insert(d, J::Str(format!("decoy{}", i)));
    }
    m.insert(k.to_string(), J::s("marker"));
    J::Obj(m).to_json()
}

fn quoted(src: &mut Src, st: &mut Stats, _env: &Env) -> CaseResult {
    let k = if src.chance(40) { String::new() } else { tricky_string(src) };
    let spelled = spell_string(&k, src, true);
    let doc = doc_with(&k, src);
    st.eval();
    for text in [spelled.clone(), format!("@.{}", spelled), format!("{{x: {}}}.x", spelled), format!("[{}][0]", spelled)] {
        let case = json!({"expression": text, "document": doc, "key": k});
        match search_text(&text, &doc) {
            ImpOut::Ok(J::Str(g)) if g == "marker" => {}
            other => return Err(Failure::new("quoted", "quoted-identifier-wrong-member", format!("gave {} expected \"marker\"", other.brief()), case)),
        }
    }
    // as a multi-select hash key the decoded name is the output key
    let text = format!("{{{}: `1`}}", spelled);
    match search_text(&text, "0") {
        ImpOut::Ok(J::Obj(m)) if m.len() == 1 && m.contains_key(&k) => {}
        other => {
            return Err(Failure::new("quoted", "quoted-key-wrong-name", format!("gave {}", other.brief()), json!({"expression": text, "key": k})))
        }
    }
    if interesting(&k) && st.nontrivial(&spelled) {
        st.sample(|| json!({"identifier": spelled, "key": k}));
    }
    Ok(())
}

fn unquoted(src: &mut Src, st: &mut Stats, _env: &Env) -> CaseResult {
    let n = 1 + src.below(8);
    let mut k = String::new();
    for i in 0..n {
        let c = if i == 0 {
            *src.pick(&['a', 'z', 'A', 'Z', '_', 'f', 'n', 't'])
        } else {
            *src.pick(&['a', 'Z', '_', '0', '9', 'e', 'E', 'x', 'u', 'r', 'l'])
        };
        k.push(c);
    }
    // keyword-like names are ordinary identifiers
    if src.chance(40) {
        k = src.pick(&["true", "false", "null", "e1", "_", "__", "length", "not_null", "a1", "A_0"]).to_string();
    }
    let doc = doc_with(&k, src);
    st.eval();
    for text in [k.clone(), format!("@.{}", k), format!(" {} ", k), format!("({})", k)] {
        let case = json!({"expression": text, "document": doc});
        match search_text(&text, &doc) {
            ImpOut::Ok(J::Str(g)) if g == "marker" => {}
            other => return Err(Failure::new("unquoted", "identifier-wrong-member", format!("gave {} expected \"marker\"", other.brief()), case)),
        }
    }
    // ... and in every operand position: an unquoted identifier is a member name wherever an
    // expression may stand (also `true`, `false`, `null`, which are not keywords of the language)
    {
        let vals = [J::Bool(true), J::Bool(false), J::Null, J::s("M"), J::int(1), J::Arr(vec![J::int(1)])];
        let kv = vals[src.below(vals.len())].clone();
        let av = if src.flip() { kv.clone() } else { vals[src.below(vals.len())].clone() };
        let row = |x: &J, y: &J| J::Obj([(k.clone(), x.clone()), ("v".to_string(), y.clone())].into_iter().collect());
        let mut m = BTreeMap::new();
        m.insert(k.clone(), kv.clone());
        m.insert("a".to_string(), av.clone());
        m.insert("rows".to_string(), J::Arr(vec![row(&kv, &av), row(&av, &kv), row(&J::Bool(true), &J::Bool(true)), row(&J::Null, &J::Null)]));
        let d2 = J::Obj(m);
        let d2t = d2.to_json();
        let forms = [
            format!("a == {}", k), format!("{} == a", k), format!("a != {}", k), format!("{} || a", k), format!("a && {}", k), format!("!{}", k), format!("[{}, a]", k), format!("{{x: {}}}", k),
            format!("rows[?{}]", k), format!("rows[?v == {}]", k), format!("rows[?{} == v]", k), format!("rows[?v != {}].v", k), format!("not_null({})", k), format!("{} | @", k), format!("@ | {}", k),
            format!("rows[*].{}", k), format!("type({})", k), format!("a < {}", k), format!("{} >= `1`", k), format!("[a, {}] | [1]", k), format!("rows[?v == {} && {} == v]", k, k), format!("a == {} || `false`", k),
        ];
        let text = &forms[src.below(forms.len())];
        if let Ok(tree) = refparse::parse(text, Mode::Strict) {
            st.eval();
            crate::props::c01::compare("unquoted", &tree, text, &d2, &d2t, st, false)?;
            st.class("unquoted:operand-position");
        }
    }
    if st.nontrivial(&k) {
        st.sample(|| json!({"identifier": k}));
    }
    st.class("unquoted");
    Ok(())
}

/// Arbitrary bodies between delimiters: reference decoder vs implementation.
fn bodies(src: &mut Src, st: &mut Stats, _env: &Env) -> CaseResult {
    let d = *src.pick(&['\'', '"', '`']);
    let mut body = String::new();
    for _ in 0..src.below(8) {
        match src.below(12) {
            0 | 1 => body.push('\\'),
            2 => body.push(d),
            3 => {
                body.push('\\');
                body.push(d);
            }
            4 => body.push_str(*src.pick(&["\\u00e9", "\\ud83d\\ude00", "\\ud83d", "\\ude00", "\\n", "\\x", "\\\\", "\\/", "\\u12", "\\u", "\\b", "\\\""])),
            5 => body.push_str(*src.pick(&["1", "true", "null", "[1]", "{\"a\":1}", "\"s\"", "1.0", "-0", "1e2", " ", "nul", "01", "\"\\`\""])),
            _ => body.push(gen_char(src)),
        }
    }
    if d == '`' && src.flip() {
        body = format!("\"{}\"", body);
    }
    let text = format!("{}{}{}", d, body, if src.chance(240) { d.to_string() } else { String::new() });
    st.eval();
    let verdict = compare_accept("bodies", &text)?;
    st.class(match verdict {
        Verdict::BothAccept => "bodies:accepted",
        Verdict::BothReject => "bodies:rejected",
    });
    if verdict == Verdict::BothAccept {
        let tree = refparse::parse(&text, Mode::Strict).map_err(|e| Failure::new("bodies", "harness-ref", e.msg, json!({"expression": text})))?;
        // a document in which a decoded identifier finds something
        let doc = match &tree {
            crate::refast::RefExpr::Field(k) => {
                let mut m = BTreeMap::new();
                m.insert(k.clone(), J::s("marker"));
                J::Obj(m)
            }
            _ => J::Obj(BTreeMap::new()),
        };
        let mut cx = refeval::Ctx::default();
        let want = refeval::eval(&tree, &doc, &mut cx).map_err(|e| Failure::new("bodies", "harness-ref", format!("{:?}", e), json!({"expression": text})))?;
        match search_text(&text, &doc.to_json()) {
            ImpOut::Ok(g) if g.deep_eq(&want) => {}
            other => {
                return Err(Failure::new(
                    "bodies",
                    "quoted-form-wrong-value",
                    format!("gave {} expected {}", other.brief(), want.to_json()),
                    json!({"expression": text, "document": doc.to_json()}),
                ))
            }
        }
    }
    if st.nontrivial(&text) {
        st.sample(|| json!({"expression": text, "accepted": verdict == Verdict::BothAccept}));
    }
    Ok(())
}

pub fn property() -> Property {
    Property {
        id: "C09",
        rule: RULE,
        assumptions: vec![
            "strings with an odd-length run of backslashes directly before a quote or at the end have no raw-string spelling (the scanner pairs a backslash with whatever follows); they are outside the round-trip domain and only checked differentially".into(),
            "the empty quoted identifier \"\" and control characters inside raw strings are accepted (every key and every string must have a spelling)".into(),
            "numbers inside literals stay in the exactly-parsed numeral domain (C08 covers the rest)".into(),
        ],
        minimise: None,
        subs: vec![
            Sub::Bytes(BytesSub { name: "raw", f: raw, max_len: 64, quick: Budget { threads: 8, cases: 48000 }, thorough: Budget { threads: 16, cases: 300_000 }, keep_unreproducible: false }),
            Sub::Bytes(BytesSub { name: "literal", f: literal, max_len: 400, quick: Budget { threads: 8, cases: 40000 }, thorough: Budget { threads: 16, cases: 200_000 }, keep_unreproducible: false }),
            Sub::Bytes(BytesSub { name: "quoted", f: quoted, max_len: 96, quick: Budget { threads: 8, cases: 40000 }, thorough: Budget { threads: 16, cases: 200_000 }, keep_unreproducible: false }),
            Sub::Bytes(BytesSub { name: "unquoted", f: unquoted, max_len: 48, quick: Budget { threads: 4, cases: 24000 }, thorough: Budget { threads: 16, cases: 100_000 }, keep_unreproducible: false }),
            Sub::Bytes(BytesSub { name: "bodies", f: bodies, max_len: 64, quick: Budget { threads: 8, cases: 64000 }, thorough: Budget { threads: 16, cases: 400_000 }, keep_unreproducible: false }),
        ],
    }
}
