//! C16 — with the `sync` feature compiled expressions are shareable across
//! threads.  This module does real work only in the `sync` build variant.

use serde_json::json;

use crate::runner::*;

pub const RULE: &str = "(typelevel) a separate crate with Send + Sync obligations for Expression<'static>, Runtime, Variable, Rcvar, Ast, JmespathError and Box<dyn Function> is compiled against the library built with `sync` (a build-time fact, not a generated search); (workload) generated concurrent workloads: <= 12 generated expressions (core, typed functions, by-functions, failing), <= 6 shared documents, 2..16 threads released by a barrier, each with a generated job list and generated yield points, compiled expressions shared by reference and additionally compiled inside the threads; every result must equal the sequential result computed before and again after the run, no panic, documents unchanged; (custom-runtime) a runtime built by the case (closures and CustomFunctions with signatures, registered / deregistered around the built-ins) shared by reference, first searches concurrent, results equal to those of an identically built twin; (function-storm) every built-in called from all threads at once with different literal arguments per call; (first-use) fresh child processes whose very first use of the crate is N threads released by a barrier into compile/search (the lazy default runtime); thorough adds the workload under ThreadSanitizer; non-trivial = a workload in which >= 2 threads searched the same compiled expression on the same shared document during overlapping intervals, measured by timestamps (distinct by workload text)";

#[cfg(feature = "sync")]
mod imp {
    use super::*;
    use std::process::{Command, Stdio};
    use std::sync::{Arc, Barrier, Mutex};
    use std::time::Instant;

    use crate::gen_doc::{gen_doc, DocOpts};
    use crate::gen_typed::{gen_typed, schema_doc};
    use crate::imp::classify;
    use crate::props::c01::spell_tree;
    use crate::shape::var_to_j;
    use crate::src::Src;
    use crate::syn::gen_sentence;

    fn outcome(r: Result<jmespath::Rcvar, jmespath::JmespathError>) -> String {
        match r {
            Ok(v) => format!("ok {}", var_to_j(&v).to_json()),
            Err(e) => {
                let c = classify(&e);
                format!("err {} off={} line={} col={}", c.detail, c.offset, c.line, c.column)
            }
        }
    }

    pub fn workload(src: &mut Src, st: &mut Stats, _env: &Env) -> CaseResult {
        // pools
        let n_expr = 2 + src.below(11);
        let mut exprs: Vec<String> = vec![];
        for _ in 0..n_expr {
            let e = match src.below(6) {
                0 | 1 | 2 => {
                    let d = 1 + src.below(3);
                    let t = gen_typed(src, d);
                    spell_tree(&t, src, st).map(|x| x.0)
                }
                3 if src.flip() => {
                    // deeply nested evaluation (every thread deep in the interpreter at the same time)
                    let d = 40 + src.below(80);
                    Some(match src.below(3) {
                        0 => format!("{}n{}", "abs(".repeat(d), ")".repeat(d)),
                        1 => format!("{}s{}", "not_null(z, ".repeat(d), ")".repeat(d)),
                        _ => format!("nums{}", " | @".repeat(d)),
                    })
                }
                3 => gen_sentence(src, st, 3),
                4 => Some(src.pick(&["nope(@)", "abs('x')", "nums[::0]", "sort_by(objs, &to_array(n))", "map(&abs(s), objs)"]).to_string()),
                _ => Some(src.pick(&["sort_by(objs, &k)", "max_by(objs, &n)", "map(&length(s), objs)", "objs[?n > `0`].s", "nums[::-1]", "merge(o, o2)", "sort(nums)", "sort(strs)"]).to_string()),
            };
            exprs.push(e.unwrap_or_else(|| "@".into()));
        }
        let n_docs = 1 + src.below(6);
        let doc_texts: Vec<String> = (0..n_docs).map(|i| if i % 2 == 0 { schema_doc(src).to_json() } else { gen_doc(src, &DocOpts::default()).to_json() }).collect();
        let docs: Vec<jmespath::Rcvar> = doc_texts.iter().map(|t| Arc::new(jmespath::Variable::from_json(t).unwrap())).collect();
        let compiled: Vec<Option<jmespath::Expression<'static>>> = exprs.iter().map(|e| jmespath::compile(e).ok()).collect();
        // sequential results before
        let seq = |compiled: &Vec<Option<jmespath::Expression<'static>>>| -> Vec<Vec<String>> {
            compiled
                .iter()
                .map(|c| match c {
                    None => vec![],
                    Some(c) => docs.iter().map(|d| outcome(c.search(d))).collect(),
                })
                .collect()
        };
        let before = seq(&compiled);
        let n_threads = if src.chance(40) { 17 + src.below(16) } else { 2 + src.below(15) };
        // job lists: (expr index, doc index, yield?, compile inside thread?)
        let mut jobs: Vec<Vec<(usize, usize, bool, bool)>> = vec![];
        for _ in 0..n_threads {
            let n = 1 + src.below(24);
            // threads often hammer the same pair
            let hot = (src.below(exprs.len()), src.below(docs.len()));
            jobs.push(
                (0..n)
                    .map(|_| {
                        let (e, d) = if src.chance(128) { hot } else { (src.below(exprs.len()), src.below(docs.len())) };
                        (e, d, src.chance(60), src.chance(40))
                    })
                    .collect(),
            );
        }
        st.eval();
        let barrier = Barrier::new(n_threads);
        let t0 = Instant::now();
        let mismatches: Mutex<Vec<String>> = Mutex::new(vec![]);
        let intervals: Mutex<Vec<(usize, usize, u128, u128, usize)>> = Mutex::new(vec![]);
        let panicked = std::thread::scope(|sc| {
            let mut hs = vec![];
            for (ti, list) in jobs.iter().enumerate() {
                let (barrier, compiled, docs, exprs, before, mismatches, intervals) = (&barrier, &compiled, &docs, &exprs, &before, &mismatches, &intervals);
                hs.push(sc.spawn(move || {
                    barrier.wait();
                    let mut local = vec![];
                    for (e, d, y, recompile) in list {
                        if *y {
                            std::thread::yield_now();
                        }
                        let s = t0.elapsed().as_nanos();
                        let got = if *recompile {
                            match jmespath::compile(&exprs[*e]) {
                                Ok(c) => Some(outcome(c.search(&docs[*d]))),
                                Err(_) => None,
                            }
                        } else {
                            compiled[*e].as_ref().map(|c| outcome(c.search(&docs[*d])))
                        };
                        let f = t0.elapsed().as_nanos();
                        if !*recompile {
                            local.push((*e, *d, s, f, ti));
                        }
                        let want = before[*e].get(*d).cloned();
                        if got != want && !(got.is_none() && compiled[*e].is_none()) {
                            mismatches.lock().unwrap().push(format!("thread {} expression {:?} document {}: got {:?}, sequential {:?}", ti, exprs[*e], d, got, want));
                        }
                    }
                    intervals.lock().unwrap().extend(local);
                }));
            }
            hs.into_iter().map(|h| h.join().is_err()).collect::<Vec<bool>>().into_iter().any(|x| x)
        });
        let case = json!({"expressions": exprs, "documents": doc_texts, "threads": n_threads, "jobs": jobs.iter().map(|l| l.iter().map(|j| json!([j.0, j.1, j.2, j.3])).collect::<Vec<_>>()).collect::<Vec<_>>()});
        if panicked {
            return Err(Failure::new("workload", "panic-in-thread", "a worker thread panicked".into(), case));
        }
        let mm = mismatches.into_inner().unwrap();
        if !mm.is_empty() {
            return Err(Failure::new("workload", "concurrent-result-differs-from-sequential", mm[0].clone(), case));
        }
        let after = seq(&compiled);
        if after != before {
            return Err(Failure::new("workload", "sequential-result-changed-after-concurrent-run", "results after the run differ from results before".into(), case));
        }
        for (d, t) in docs.iter().zip(doc_texts.iter()) {
            if d.to_string() != jmespath::Variable::from_json(t).unwrap().to_string() {
                return Err(Failure::new("workload", "shared-document-changed", "a shared document changed".into(), case));
            }
        }
        // measured overlap on the same (expression, document) pair from different threads
        let iv = intervals.into_inner().unwrap();
        let mut overlap = false;
        'o: for i in 0..iv.len() {
            for j in (i + 1)..iv.len() {
                let (a, b2) = (&iv[i], &iv[j]);
                if a.0 == b2.0 && a.1 == b2.1 && a.4 != b2.4 && a.2 < b2.3 && b2.2 < a.3 {
                    overlap = true;
                    break 'o;
                }
            }
        }
        st.class(if overlap { "workload:overlapping" } else { "workload:no-overlap-measured" });
        st.class_n("searches", iv.len() as u64);
        if overlap && st.nontrivial(&case.to_string()) {
            st.sample(|| json!({"threads": n_threads, "expressions": exprs.len(), "documents": docs.len(), "searches": iv.len()}));
        }
        Ok(())
    }

    /// A runtime built by the case itself (built-ins plus custom functions, some
    /// registered after the built-ins, some deregistered again) is shared by
    /// reference; its very first searches happen concurrently.  Every result must
    /// equal the sequential result of an identically built twin runtime.
    pub fn custom_runtime(src: &mut Src, st: &mut Stats, _env: &Env) -> CaseResult {
        use jmespath::{Context, Rcvar, Runtime, Variable};
        // the registration script
        let names = ["tag", "zz_last", "aa_first", "length", "mid_fn", "tag2"];
        let mut script: Vec<(u8, usize)> = vec![];
        let builtins_at = src.below(4);
        for i in 0..(2 + src.below(6)) {
            if i == builtins_at {
                script.push((2, 0));
            }
            script.push((if src.chance(40) { 1 } else if src.flip() { 3 } else { 0 }, src.below(names.len())));
        }
        if !script.iter().any(|x| x.0 == 2) {
            script.push((2, 0));
            if src.flip() {
                script.push((0, src.below(names.len())));
            }
        }
        let build = |script: &[(u8, usize)]| -> Runtime {
            let mut rt = Runtime::new();
            for (k, (op, n)) in script.iter().enumerate() {
                match op {
                    0 => {
                        let tag = format!("{}#{}", names[*n], k);
                        rt.register_function(names[*n], Box::new(move |args: &[Rcvar], _: &mut Context<'_>| Ok(Rcvar::new(Variable::String(format!("{}/{}", tag, args.len()))))));
                    }
                    3 => {
                        // a user function declared with a signature (variadic, any type)
                        let tag = format!("{}#{}", names[*n], k);
                        let sig = jmespath::functions::Signature::new(vec![], Some(jmespath::functions::ArgumentType::Any));
                        rt.register_function(
                            names[*n],
                            Box::new(jmespath::functions::CustomFunction::new(
                                sig,
                                Box::new(move |args: &[Rcvar], _: &mut Context<'_>| {
                                    let seen: usize = args.iter().map(|a| a.to_string().len()).sum();
                                    Ok(Rcvar::new(Variable::String(format!("{}/{}/{}", tag, args.len(), seen))))
                                }),
                            )),
                        );
                    }
                    1 => {
                        let _ = rt.deregister_function(names[*n]);
                    }
                    _ => rt.register_builtin_functions(),
                }
            }
            rt
        };
        let rt = build(&script);
        let twin = build(&script);
        let exprs: Vec<String> = (0..(2 + src.below(6)))
            .map(|_| {
                let f = *src.pick(&names);
                match src.below(7) {
                    0 => format!("{}(@)", f),
                    1 => format!("{}(n, s)", f),
                    2 => format!("[{}(n), length(s), abs(n)]", f),
                    3 => format!("objs[*].{}(@)", f),
                    4 => "never_registered(@)".to_string(),
                    5 => format!("{}(s) && sort_by(objs, &n)[0].s", f),
                    _ => format!("map(&{}(@), nums)", f),
                }
            })
            .collect();
        let doc_text = schema_doc(src).to_json();
        let doc: jmespath::Rcvar = Arc::new(Variable::from_json(&doc_text).unwrap());
        let compile_all = |r: &'_ Runtime| -> Vec<Option<String>> { exprs.iter().map(|e| r.compile(e).ok().map(|c| outcome(c.search(&doc)))).collect() };
        let want = compile_all(&twin);
        let compiled: Vec<Option<jmespath::Expression<'_>>> = exprs.iter().map(|e| rt.compile(e).ok()).collect();
        let n_threads = 2 + src.below(15);
        st.eval();
        let barrier = Barrier::new(n_threads);
        let bad: Mutex<Vec<String>> = Mutex::new(vec![]);
        let panicked = std::thread::scope(|sc| {
            let hs: Vec<_> = (0..n_threads)
                .map(|ti| {
                    let (barrier, compiled, doc, want, bad, exprs, rt) = (&barrier, &compiled, &doc, &want, &bad, &exprs, &rt);
                    sc.spawn(move || {
                        barrier.wait();
                        for round in 0..3 {
                            for k in 0..exprs.len() {
                                let i = (k + ti) % exprs.len();
                                let got = if round == 1 { rt.compile(&exprs[i]).ok().map(|c| outcome(c.search(doc))) } else { compiled[i].as_ref().map(|c| outcome(c.search(doc))) };
                                if got != want[i] {
                                    bad.lock().unwrap().push(format!("thread {} {:?}: got {:?}, sequential {:?}", ti, exprs[i], got, want[i]));
                                    return;
                                }
                            }
                        }
                    })
                })
                .collect();
            hs.into_iter().map(|h| h.join().is_err()).collect::<Vec<bool>>().into_iter().any(|x| x)
        });
        let hist: Vec<String> = script.iter().map(|(op, n)| match op { 0 => format!("register {}", names[*n]), 3 => format!("register {} (CustomFunction with a signature)", names[*n]), 1 => format!("deregister {}", names[*n]), _ => "register_builtin_functions".to_string() }).collect();
        let case = json!({"registrations": hist, "expressions": exprs, "document": doc_text, "threads": n_threads});
        if panicked {
            return Err(Failure::new("custom-runtime", "panic-in-thread", "a worker thread panicked".into(), case));
        }
        let bad = bad.into_inner().unwrap();
        if let Some(b) = bad.first() {
            return Err(Failure::new("custom-runtime", "concurrent-result-differs-from-sequential", format!("{} threads diverged; first: {}", bad.len(), clip(b, 300)), case));
        }
        if compile_all(&rt) != want {
            return Err(Failure::new("custom-runtime", "sequential-result-changed-after-concurrent-run", "results after the run differ".into(), case));
        }
        st.class_n("custom-runtime:searches", (n_threads * 3 * exprs.len()) as u64);
        if st.nontrivial(&case.to_string()) {
            st.sample(|| json!({"registrations": hist, "threads": n_threads, "expressions": exprs}));
        }
        Ok(())
    }

    /// Many distinct expressions (a hundred or more) compiled again and again by all
    /// threads through the shared default runtime while being searched: whatever a
    /// runtime remembers about compiled texts is under constant turnover.  Every
    /// compile + search must give the sequential result for that text.
    pub fn compile_storm(src: &mut Src, st: &mut Stats, _env: &Env) -> CaseResult {
        // usually a few hundred distinct texts, sometimes several thousand
        let n_expr = if src.chance(90) { 1100 + src.below(3000) } else { 70 + src.below(230) };
        let shape = src.below(5);
        let exprs: Vec<String> = (0..n_expr)
            .map(|i| match shape {
                0 => format!("[n, `{}`, length(objs)]", i),
                1 => format!("{{k{}: s, v: nums[{}]}}", i, i % 7),
                2 => format!("objs[?n > `{}`].s | [0]", i as i64 - 3),
                3 => format!("'lit {}' == s || `{}`", i, i),
                _ => format!("sort_by(objs, &n)[{}].s || to_string(`{}`)", i % 5, i),
            })
            .collect();
        let doc_text = schema_doc(src).to_json();
        let doc: jmespath::Rcvar = Arc::new(jmespath::Variable::from_json(&doc_text).unwrap());
        let want: Vec<Option<String>> = exprs.iter().map(|e| jmespath::compile(e).ok().map(|c| outcome(c.search(&doc)))).collect();
        let n_threads = 2 + src.below(15);
        let iters = if n_expr > 1000 { 1500 + src.below(1500) } else { 200 + src.below(600) };
        let seeds: Vec<u64> = (0..n_threads).map(|_| src.u64() | 1).collect();
        st.eval();
        let barrier = Barrier::new(n_threads);
        let bad: Mutex<Vec<String>> = Mutex::new(vec![]);
        let panicked = std::thread::scope(|sc| {
            let hs: Vec<_> = (0..n_threads)
                .map(|ti| {
                    let (barrier, exprs, doc, want, bad, seeds) = (&barrier, &exprs, &doc, &want, &bad, &seeds);
                    sc.spawn(move || {
                        barrier.wait();
                        let mut x = seeds[ti];
                        for _ in 0..iters {
                            // xorshift: which expression next (a few hot ones, the rest cold)
                            x ^= x << 13;
                            x ^= x >> 7;
                            x ^= x << 17;
                            let i = if x % 4 == 0 { (x >> 8) as usize % 8 } else { (x >> 8) as usize % exprs.len() };
                            let got = jmespath::compile(&exprs[i]).ok().map(|c| outcome(c.search(doc)));
                            if got != want[i] {
                                bad.lock().unwrap().push(format!("thread {} {:?}: got {:?}, sequential {:?}", ti, exprs[i], got, want[i]));
                                return;
                            }
                        }
                    })
                })
                .collect();
            hs.into_iter().map(|h| h.join().is_err()).collect::<Vec<bool>>().into_iter().any(|x| x)
        });
        let case = json!({"expressions": n_expr, "first_expressions": exprs.iter().take(3).collect::<Vec<_>>(), "document": doc_text, "threads": n_threads, "iterations": iters});
        if panicked {
            return Err(Failure::new("compile-storm", "panic-in-thread", "a worker thread panicked".into(), case));
        }
        let bad = bad.into_inner().unwrap();
        if let Some(b) = bad.first() {
            return Err(Failure::new("compile-storm", "concurrent-result-differs-from-sequential", format!("{} threads diverged; first: {}", bad.len(), clip(b, 300)), case));
        }
        let after: Vec<Option<String>> = exprs.iter().map(|e| jmespath::compile(e).ok().map(|c| outcome(c.search(&doc)))).collect();
        if after != want {
            return Err(Failure::new("compile-storm", "sequential-result-changed-after-concurrent-run", "results after the run differ".into(), case));
        }
        st.class_n("compile-storm:compiles", (n_threads * iters) as u64);
        if st.nontrivial(&case.to_string()) {
            st.sample(|| json!({"expressions": n_expr, "threads": n_threads, "iterations": iters}));
        }
        Ok(())
    }

    /// Every built-in called from all threads at once with *different* arguments per call
    /// (literal arguments, so the calls share nothing but the function objects of the default
    /// runtime): whatever a function remembers between calls is hit from several threads with
    /// several values.  Every result must equal the sequential one.
    pub fn function_storm(src: &mut Src, st: &mut Stats, _env: &Env) -> CaseResult {
        let decimals = ["1.5", "2e3", "-0.25", "1e2", "3.75", "1E-2", "0.1", "10.0", "7e0", "-1.5e1", "42", "-7", "0.0", "6.02e23", "1e-7", "abc", ""];
        let mut exprs: Vec<String> = vec![];
        let n = 6 + src.below(10);
        let base = src.below(1000);
        for k in 0..n {
            let v = base + k * 7;
            let d = decimals[(base + k) % decimals.len()];
            exprs.push(format!("to_number('{}')", d));
            exprs.push(format!("to_number(to_string(`{}.5`))", v));
            match src.below(12) {
                0 => exprs.push(format!("[abs(`-{}`), ceil(`{}.25`), floor(`-{}.75`)]", v, v, v)),
                1 => exprs.push(format!("to_string(`{{\"k\": {}, \"s\": \"v{}\"}}`)", v, v)),
                2 => exprs.push(format!("[length('s{}'), reverse('ab{}'), join('-', ['a', 'b{}'])]", v, v, v)),
                3 => exprs.push(format!("[sort(`[{}, 3, {}, 1]`), max(`[{}, 5]`), min(`[{}, 5]`), sum(`[{}, 0.5]`), avg(`[{}, 1]`)]", v, v + 1, v, v, v, v)),
                4 => exprs.push(format!("[contains('hay{}', '{}'), starts_with('p{}x', 'p{}'), ends_with('x{}', '{}')]", v, v, v, v, v, v)),
                5 => exprs.push(format!("[keys(`{{\"a{}\": 1, \"b\": 2}}`), values(`{{\"a\": {}}}`), merge(`{{\"a\": 1}}`, `{{\"a\": {}}}`)]", v, v, v)),
                6 => exprs.push(format!("[not_null(`null`, `{}`), type(`{}`), to_array(`{}`)]", v, v, v)),
                7 => exprs.push(format!("map(&to_number(@), `[\"{}\", \"{}.5\", \"{}e1\"]`)", v, v, v)),
                8 => exprs.push(format!("sort_by(`[{{\"k\": {}}}, {{\"k\": 3}}, {{\"k\": {}}}]`, &k)[*].k", v, v + 2)),
                9 => exprs.push(format!("[max_by(`[{{\"k\": {}}}, {{\"k\": 3}}]`, &k).k, min_by(`[{{\"k\": {}}}, {{\"k\": 3}}]`, &k).k]", v, v)),
                10 => exprs.push(format!("`[1, {}, 3]`[?@ > `{}`] | length(@)", v, v / 2)),
                _ => exprs.push(format!("to_number('{}e{}')", v % 97, k % 5)),
            }
        }
        let doc: jmespath::Rcvar = Arc::new(jmespath::Variable::Null);
        let compiled: Vec<Option<jmespath::Expression<'static>>> = exprs.iter().map(|e| jmespath::compile(e).ok()).collect();
        if let Some(i) = compiled.iter().position(|c| c.is_none()) {
            return Err(Failure::new("function-storm", "harness-compile", format!("{} does not compile", exprs[i]), json!({"expression": exprs[i]})));
        }
        let want: Vec<String> = compiled.iter().map(|c| outcome(c.as_ref().unwrap().search(&doc))).collect();
        let n_threads = 2 + src.below(15);
        let iters = 150 + src.below(500);
        st.eval();
        let barrier = Barrier::new(n_threads);
        let bad: Mutex<Vec<String>> = Mutex::new(vec![]);
        let panicked = std::thread::scope(|sc| {
            let hs: Vec<_> = (0..n_threads)
                .map(|ti| {
                    let (barrier, compiled, doc, want, bad, exprs) = (&barrier, &compiled, &doc, &want, &bad, &exprs);
                    sc.spawn(move || {
                        barrier.wait();
                        for it in 0..iters {
                            // every thread walks the list from its own starting point
                            let i = (ti * 5 + it) % exprs.len();
                            let got = if it % 3 == 0 { jmespath::compile(&exprs[i]).ok().map(|c| outcome(c.search(doc))) } else { compiled[i].as_ref().map(|c| outcome(c.search(doc))) };
                            if got.as_ref() != Some(&want[i]) {
                                bad.lock().unwrap().push(format!("thread {} {:?}: got {:?}, sequential {:?}", ti, exprs[i], got, want[i]));
                                return;
                            }
                        }
                    })
                })
                .collect();
            hs.into_iter().map(|h| h.join().is_err()).collect::<Vec<bool>>().into_iter().any(|x| x)
        });
        let case = json!({"expressions": exprs, "threads": n_threads, "iterations": iters});
        if panicked {
            return Err(Failure::new("function-storm", "panic-in-thread", "a worker thread panicked".into(), case));
        }
        let bad = bad.into_inner().unwrap();
        if let Some(b) = bad.first() {
            return Err(Failure::new("function-storm", "concurrent-result-differs-from-sequential", format!("{} threads diverged; first: {}", bad.len(), clip(b, 300)), case));
        }
        let after: Vec<String> = compiled.iter().map(|c| outcome(c.as_ref().unwrap().search(&doc))).collect();
        if after != want {
            return Err(Failure::new("function-storm", "sequential-result-changed-after-concurrent-run", "results after the run differ".into(), case));
        }
        st.class_n("function-storm:searches", (n_threads * iters) as u64);
        if st.nontrivial(&case.to_string()) {
            st.sample(|| json!({"threads": n_threads, "iterations": iters, "expressions": exprs.len()}));
        }
        Ok(())
    }

    /// Contention: many threads (up to 32) repeat the SAME deep or long-running search on
    /// shared data for a while, so that at every instant most threads are deep inside the
    /// interpreter; every single result must equal the sequential one.
    pub fn contention(src: &mut Src, st: &mut Stats, _env: &Env) -> CaseResult {
        let d = 30 + src.below(90);
        let expr = match src.below(5) {
            0 => format!("{}n{}", "abs(".repeat(d), ")".repeat(d)),
            1 => format!("{}s{}", "not_null(z, ".repeat(d), ")".repeat(d)),
            2 => format!("nums{}", " | @".repeat(d)),
            3 => format!("{}nums{}", "[".repeat(d.min(60)), "]".repeat(d.min(60))),
            _ => "sort_by(objs, &n)[*].{k: keys(@), l: length(s), t: type(n)}".to_string(),
        };
        let doc_text = schema_doc(src).to_json();
        let doc: jmespath::Rcvar = Arc::new(jmespath::Variable::from_json(&doc_text).unwrap());
        let compiled = match jmespath::compile(&expr) {
            Ok(c) => c,
            Err(e) => return Err(Failure::new("contention", "harness-compile", e.to_string(), json!({"expression": expr}))),
        };
        let want = outcome(compiled.search(&doc));
        let n_threads = 8 + src.below(25);
        let iters = 100 + src.below(300);
        st.eval();
        let barrier = Barrier::new(n_threads);
        let bad: Mutex<Vec<String>> = Mutex::new(vec![]);
        let panicked = std::thread::scope(|sc| {
            let hs: Vec<_> = (0..n_threads)
                .map(|_| {
                    let (barrier, compiled, doc, want, bad) = (&barrier, &compiled, &doc, &want, &bad);
                    sc.spawn(move || {
                        barrier.wait();
                        for _ in 0..iters {
                            let got = outcome(compiled.search(doc));
                            if &got != want {
                                bad.lock().unwrap().push(got);
                                break;
                            }
                        }
                    })
                })
                .collect();
            hs.into_iter().map(|h| h.join().is_err()).collect::<Vec<bool>>().into_iter().any(|x| x)
        });
        let case = json!({"expression": expr, "document": doc_text, "threads": n_threads, "iterations": iters});
        if panicked {
            return Err(Failure::new("contention", "panic-in-thread", "a worker thread panicked".into(), case));
        }
        let bad = bad.into_inner().unwrap();
        if let Some(b) = bad.first() {
            return Err(Failure::new(
                "contention",
                "concurrent-result-differs-from-sequential",
                format!("{} of {} threads saw a different result; first: {} (sequential: {})", bad.len(), n_threads, clip(b, 200), clip(&want, 200)),
                case,
            ));
        }
        if outcome(compiled.search(&doc)) != want {
            return Err(Failure::new("contention", "sequential-result-changed-after-concurrent-run", "result after the run differs".into(), case));
        }
        st.class_n("contention:searches", (n_threads * iters) as u64);
        if st.nontrivial(&case.to_string()) {
            st.sample(|| json!({"threads": n_threads, "iterations": iters, "expression_prefix": expr.chars().take(40).collect::<String>()}));
        }
        Ok(())
    }

    /// Child: the very first use of the crate is N threads released together.
    pub fn child_main(threads: usize) {
        let barrier = Arc::new(Barrier::new(threads));
        let hs: Vec<_> = (0..threads)
            .map(|i| {
                let b = barrier.clone();
                std::thread::spawn(move || {
                    b.wait();
                    let e = jmespath::compile(if i % 2 == 0 { "sort_by(objs, &n)[*].s" } else { "length(objs) > `1` && max(nums)" }).unwrap();
                    let v = jmespath::Variable::from_json("{\"objs\":[{\"n\":2,\"s\":\"b\"},{\"n\":1,\"s\":\"a\"}],\"nums\":[3,1,2]}").unwrap();
                    outcome(e.search(v))
                })
            })
            .collect();
        for (i, h) in hs.into_iter().enumerate() {
            match h.join() {
                Ok(s) => println!("{} {}", i % 2, s),
                Err(_) => println!("{} PANIC", i % 2),
            }
        }
    }

    pub fn first_use(env: &Env, st: &mut Stats) -> Vec<Failure> {
        let n = if env.tier == Tier::Thorough { 1000 } else { 200 };
        let exe = std::env::current_exe().expect("exe");
        let mut fails = vec![];
        let results: Mutex<Vec<(usize, usize, Option<String>)>> = Mutex::new(vec![]);
        let next = std::sync::atomic::AtomicUsize::new(0);
        std::thread::scope(|sc| {
            for _ in 0..8 {
                sc.spawn(|| loop {
                    let i = next.fetch_add(1, std::sync::atomic::Ordering::SeqCst);
                    if i >= n {
                        break;
                    }
                    let threads = 2 + (i % 15);
                    let out = Command::new(&exe).args(["c16-child", &threads.to_string()]).stdout(Stdio::piped()).stderr(Stdio::piped()).output();
                    let problem = match out {
                        Err(e) => Some(format!("spawn failed: {}", e)),
                        Ok(o) => {
                            let text = String::from_utf8_lossy(&o.stdout).to_string();
                            let bad = text.lines().find(|l| !(l == &"0 ok [\"a\",\"b\"]" || l == &"1 ok 3"));
                            if !o.status.success() {
                                Some(format!("child exited with {} stderr {}", o.status, String::from_utf8_lossy(&o.stderr)))
                            } else if text.lines().count() != threads {
                                Some(format!("expected {} result lines, got {:?}", threads, text))
                            } else {
                                bad.map(|l| format!("wrong first-use result line {:?}", l))
                            }
                        }
                    };
                    results.lock().unwrap().push((i, threads, problem));
                });
            }
        });
        for (i, threads, p) in results.into_inner().unwrap() {
            st.eval();
            st.nontrivial(&format!("first-use-{}", i));
            if let Some(m) = p {
                fails.push(Failure::new("first-use", "first-use-race", m, json!({"threads": threads})));
            }
        }
        st.sample(|| json!({"first_use_processes": n, "threads_per_process": "2..16"}));
        fails
    }

    pub fn replay_first_use(case: &serde_json::Value, env: &Env) -> CaseResult {
        let _ = case;
        let mut st = Stats::new();
        match first_use(env, &mut st).into_iter().next() {
            None => Ok(()),
            Some(f) => Err(f),
        }
    }

    /// Thorough only: the same workload generator under ThreadSanitizer.
    pub fn tsan(env: &Env, st: &mut Stats) -> Vec<Failure> {
        if env.tier != Tier::Thorough {
            return vec![];
        }
        let bin = match std::env::var("JMV_BIN_TSAN").ok().filter(|p| std::path::Path::new(p).exists()) {
            Some(b) => b,
            None => {
                st.class("tsan:binary-not-built (inconclusive)");
                return vec![];
            }
        };
        let out = Command::new(&bin)
            .args(["C16", "--tier", "quick", "--sub", "workload"])
            .env("TSAN_OPTIONS", "halt_on_error=0 report_signal_unsafe=0")
            .env("VERIF_DIR", verif_dir().join("target/tsan-scratch"))
            .output();
        st.eval();
        match out {
            Err(e) => {
                st.class(&format!("tsan:spawn-failed {}", e));
                vec![]
            }
            Ok(o) => {
                let err = String::from_utf8_lossy(&o.stderr).to_string();
                st.class("tsan:ran");
                if err.contains("WARNING: ThreadSanitizer: data race") {
                    let first: String = err.lines().skip_while(|l| !l.contains("ThreadSanitizer")).take(40).collect::<Vec<_>>().join("\n");
                    vec![Failure::new("tsan", "data-race", first, json!({"tool": "ThreadSanitizer"}))]
                } else {
                    vec![]
                }
            }
        }
    }

    pub fn replay_tsan(_case: &serde_json::Value, env: &Env) -> CaseResult {
        let mut st = Stats::new();
        match tsan(env, &mut st).into_iter().next() {
            None => Ok(()),
            Some(f) => Err(f),
        }
    }
}

pub fn typelevel(_env: &Env, st: &mut Stats) -> Vec<Failure> {
    st.eval();
    match std::env::var("JMV_SENDSYNC").ok().as_deref() {
        Some("ok") => {
            st.class("typelevel:obligations-compiled");
            for t in ["Expression<'static>", "Runtime", "Variable", "Rcvar", "Ast", "JmespathError", "Box<dyn Function>"] {
                st.nontrivial(t);
            }
            st.sample(|| json!({"obligation": "fn need<T: Send + Sync>() instantiated for Expression<'static>, Runtime, Variable, Rcvar, Ast, JmespathError, Box<dyn Function> -- compiled"}));
            vec![]
        }
        Some(other) => vec![Failure::new(
            "typelevel",
            "not-send-sync",
            format!("the Send/Sync obligations do not compile against the library built with `sync`: {}", other),
            json!({"compiler_output": other}),
        )],
        None => vec![Failure::new("typelevel", "harness-no-sendsync-result", "JMV_SENDSYNC not set (run through run.sh)".into(), json!({}))],
    }
}

pub fn replay_typelevel(_case: &serde_json::Value, env: &Env) -> CaseResult {
    let mut st = Stats::new();
    match typelevel(env, &mut st).into_iter().next() {
        None => Ok(()),
        Some(f) => Err(f),
    }
}


#[cfg(feature = "sync")]
pub use imp::child_main;

#[cfg(not(feature = "sync"))]
pub fn child_main(_threads: usize) {
    eprintln!("c16-child needs the sync build");
    std::process::exit(2);
}


pub fn property() -> Property {
    #[cfg(feature = "sync")]
    let subs = vec![
        Sub::Custom(CustomSub { name: "typelevel", run: typelevel, replay: replay_typelevel }),
        Sub::Bytes(BytesSub { name: "workload", f: imp::workload, max_len: 3000, quick: Budget { threads: 2, cases: 400 }, thorough: Budget { threads: 2, cases: 15_000 }, keep_unreproducible: true }),
        Sub::Bytes(BytesSub { name: "contention", f: imp::contention, max_len: 2500, quick: Budget { threads: 1, cases: 60 }, thorough: Budget { threads: 1, cases: 2000 }, keep_unreproducible: true }),
        Sub::Bytes(BytesSub { name: "custom-runtime", f: imp::custom_runtime, max_len: 1200, quick: Budget { threads: 1, cases: 600 }, thorough: Budget { threads: 1, cases: 20_000 }, keep_unreproducible: true }),
        Sub::Bytes(BytesSub { name: "function-storm", f: imp::function_storm, max_len: 600, quick: Budget { threads: 1, cases: 150 }, thorough: Budget { threads: 1, cases: 6000 }, keep_unreproducible: true }),
        Sub::Bytes(BytesSub { name: "compile-storm", f: imp::compile_storm, max_len: 1200, quick: Budget { threads: 1, cases: 60 }, thorough: Budget { threads: 1, cases: 3000 }, keep_unreproducible: true }),
        Sub::Custom(CustomSub { name: "first-use", run: imp::first_use, replay: imp::replay_first_use }),
        Sub::Custom(CustomSub { name: "tsan", run: imp::tsan, replay: imp::replay_tsan }),
    ];
    #[cfg(not(feature = "sync"))]
    let subs = vec![Sub::Custom(CustomSub { name: "typelevel", run: typelevel, replay: replay_typelevel })];
    Property {
        id: "C16",
        rule: RULE,
        assumptions: vec![
            "schedules are sampled by the operating system, not enumerated: a race that needs a rare interleaving can be missed (DESIGN.md section 6)".into(),
            "the Send/Sync layer is a compile-time obligation checked by rustc, reported here as a fact".into(),
        ],
        minimise: None,
        subs,
    }
}
