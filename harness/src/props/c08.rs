//! C08 — JSON data passes through unchanged.

use std::convert::TryFrom;

use serde_json::{json, Value};

use crate::gen_text::*;
use crate::model::{J, N};
use crate::runner::*;
use crate::shape::var_to_j;
use crate::src::Src;

pub const RULE: &str = "JSON texts built together with the model value they denote, in randomised spelling: integers across and beyond the i64/u64 range (up to 40 digits), doubles from random bit patterns printed with 1..25 significant digits with and without exponent (subnormals, extremes), strings over all of Unicode with raw / \\uXXXX / surrogate-pair / short escapes, random whitespace, duplicate keys, nesting up to 100; oracle = the constructing model (integers exact, numerals with <= 15 digits and |exponent| <= 22 exactly std's correctly rounded parse, other numerals within 2 ulp, strings code point by code point, last duplicate key wins), identity query, print/re-parse, and lossless conversion to and from serde_json::Value (borrowed and owned); non-trivial = the document contains an integer with |n| > 2^53, a numeral with >= 17 significant digits, an astral or escaped character, or a duplicate key (distinct by text)";

fn ulp_distance(a: f64, b2: f64) -> u64 {
    if a == b2 {
        return 0;
    }
    if a.is_sign_negative() != b2.is_sign_negative() {
        return u64::MAX;
    }
    let (x, y) = (a.to_bits(), b2.to_bits());
    if x > y {
        x - y
    } else {
        y - x
    }
}

/// Compare an observed value with the model built from the text.  `exact`
/// collects numerals (by path order) that must be exact.
fn fidelity(model: &J, got: &J, path: &mut String, slack: u64) -> Result<(), String> {
    match (model, got) {
        (J::Num(N::Int(a)), J::Num(N::Int(b2))) if a == b2 => Ok(()),
        (J::Num(N::Int(a)), other) => Err(format!("{}: integer {} came back as {}", path, a, other.to_json())),
        (J::Num(N::F(a)), J::Num(N::F(b2))) => {
            if ulp_distance(*a, *b2) <= slack {
                Ok(())
            } else {
                Err(format!("{}: double {:e} came back as {:e} ({} ulp)", path, a, b2, ulp_distance(*a, *b2)))
            }
        }
        (J::Num(N::F(a)), other) => Err(format!("{}: double {:e} came back as {}", path, a, other.to_json())),
        (J::Str(a), J::Str(b2)) if a == b2 => Ok(()),
        (J::Bool(a), J::Bool(b2)) if a == b2 => Ok(()),
        (J::Null, J::Null) => Ok(()),
        (J::Arr(a), J::Arr(b2)) => {
            if a.len() != b2.len() {
                return Err(format!("{}: array of {} elements came back with {}", path, a.len(), b2.len()));
            }
            for (i, (x, y)) in a.iter().zip(b2.iter()).enumerate() {
                let l = path.len();
                path.push_str(&format!("[{}]", i));
                fidelity(x, y, path, slack)?;
                path.truncate(l);
            }
            Ok(())
        }
        (J::Obj(a), J::Obj(b2)) => {
            if a.len() != b2.len() || a.keys().zip(b2.keys()).any(|(x, y)| x != y) {
                return Err(format!("{}: object keys {:?} came back as {:?}", path, a.keys().collect::<Vec<_>>(), b2.keys().collect::<Vec<_>>()));
            }
            for (k, x) in a {
                let l = path.len();
                path.push_str(&format!(".{:?}", k));
                fidelity(x, &b2[k], path, slack)?;
                path.truncate(l);
            }
            Ok(())
        }
        (m, g) => Err(format!("{}: {} came back as {}", path, m.to_json(), g.to_json())),
    }
}

/// Walk model and text-derived exactness: numerals inside the exact domain
/// must have zero slack.  We re-tokenise the text for its numerals in order.
fn numerals_in_order(text: &str) -> Vec<String> {
    let mut out = vec![];
    let b = text.as_bytes();
    let mut i = 0;
    let mut in_str = false;
    while i < b.len() {
        let c = b[i];
        if in_str {
            if c == b'\\' {
                i += 2;
                continue;
            }
            if c == b'"' {
                in_str = false;
            }
            i += 1;
        } else if c == b'"' {
            in_str = true;
            i += 1;
        } else if c == b'-' || c.is_ascii_digit() {
            let s = i;
            while i < b.len() && (b[i] == b'-' || b[i] == b'+' || b[i] == b'.' || b[i] == b'e' || b[i] == b'E' || b[i].is_ascii_digit()) {
                i += 1;
            }
            out.push(text[s..i].to_string());
        } else {
            i += 1;
        }
    }
    out
}

fn interesting(text: &str, model: &J) -> bool {
    fn has_big(v: &J) -> bool {
        match v {
            J::Num(N::Int(i)) => i.unsigned_abs() > (1u128 << 53),
            J::Arr(a) => a.iter().any(has_big),
            J::Obj(o) => o.values().any(has_big),
            _ => false,
        }
    }
    has_big(model) || text.contains("\\u") || text.chars().any(|c| (c as u32) > 0xFFFF) || numerals_in_order(text).iter().any(|n| numeral_profile(n).0 >= 17)
}

fn check_text(sub: &str, text: &str, model: &J, st: &mut Stats) -> CaseResult {
    let case = json!({"json": text});
    st.eval();
    let var = match catch(std::panic::AssertUnwindSafe(|| jmespath::Variable::from_json(text))) {
        Err(p) => return Err(Failure::new(sub, "panic", p, case)),
        Ok(Err(m)) => return Err(Failure::new(sub, "valid-json-rejected", m, case)),
        Ok(Ok(v)) => v,
    };
    let got = var_to_j(&var);
    // 1. parse fidelity (2 ulp slack in general)
    fidelity(model, &got, &mut String::from("$"), 2).map_err(|m| Failure::new(sub, "parse-fidelity", m, case.clone()))?;
    // exact-domain numerals must be exact: find them by re-reading the text's numerals
    // (only when the document has no duplicate keys, so positions correspond)
    let nums = numerals_in_order(text);
    // (digits are counted as written, trailing zeros included: 15 written digits fit a
    // double's 53-bit significand exactly, which is what makes the class exact)
    if nums.iter().all(|n| numeral_is_exact_domain(n) || matches!(numeral_value(n), N::Int(_))) {
        fidelity(model, &got, &mut String::from("$"), 0).map_err(|m| Failure::new(sub, "exact-domain-numeral-not-exact", m, case.clone()))?;
        st.class("all-numerals-exact-domain");
    }
    // 2. identity query
    let rc = jmespath::Rcvar::new(var.clone());
    let ident = jmespath::compile("@").unwrap().search(&rc).map_err(|e| Failure::new(sub, "identity-search-failed", e.to_string(), case.clone()))?;
    if !var_to_j(&ident).exact_eq(&got) {
        return Err(Failure::new(sub, "identity-query-changes-value", format!("search('@') gave {}", ident), case));
    }
    // 3. print and re-parse
    let printed = var.to_string();
    let back = jmespath::Variable::from_json(&printed).map_err(|m| Failure::new(sub, "printed-text-does-not-parse", format!("{} : {}", printed, m), case.clone()))?;
    fidelity(&got, &var_to_j(&back), &mut String::from("$"), 2).map_err(|m| Failure::new(sub, "print-reparse-changes-value", format!("{} (printed {})", m, printed), case.clone()))?;
    // 3b. a print whose destination fails midway leaves nothing behind: the next print is complete and the same
    {
        use std::fmt::Write as _;
        let cap = (crate::src::fnv(text.as_bytes()) as usize) % (printed.len() + 2);
        let mut w = Bounded { left: cap, out: String::new() };
        let r = write!(w, "{}", var);
        if r.is_ok() && w.out != printed {
            return Err(Failure::new(sub, "print-not-deterministic", format!("second print gave {}", clip(&w.out, 200)), case));
        }
        if r.is_err() {
            st.class("print-into-failing-writer");
        }
        let again = var.to_string();
        if again != printed {
            return Err(Failure::new(
                sub,
                "print-after-failed-print-differs",
                format!("after a print that failed at byte {} the value prints as {} (before: {})", cap, clip(&again, 200), clip(&printed, 200)),
                case,
            ));
        }
    }
    // integers keep their integer spelling
    if let (J::Num(N::Int(i)), true) = (model, true) {
        if printed != i.to_string() {
            return Err(Failure::new(sub, "integer-spelling-lost", format!("{} printed as {}", i, printed), case));
        }
    }
    // 4. serde_json::Value conversions, both directions, borrowed and owned
    let value: serde_json::Value = serde_json::from_str(text).map_err(|e| Failure::new(sub, "harness-serde", e.to_string(), case.clone()))?;
    let v1 = jmespath::Variable::try_from(&value).map_err(|e| Failure::new(sub, "value-conversion-failed", e.to_string(), case.clone()))?;
    let v2 = jmespath::Variable::try_from(value.clone()).map_err(|e| Failure::new(sub, "value-conversion-failed", e.to_string(), case.clone()))?;
    if !var_to_j(&v1).exact_eq(&got) || !var_to_j(&v2).exact_eq(&got) {
        return Err(Failure::new(sub, "value-to-variable-lossy", format!("{} / {}", v1, v2), case));
    }
    let back_value = serde_json::to_value(&var).map_err(|e| Failure::new(sub, "value-conversion-failed", e.to_string(), case.clone()))?;
    if back_value != value || !J::from_value(&back_value).exact_eq(&J::from_value(&value)) {
        return Err(Failure::new(sub, "variable-to-value-lossy", format!("{}", back_value), case));
    }
    // and through the library's own Deserializer (what `T::deserialize(variable)` sees)
    {
        use serde::Deserialize;
        let seen = serde_json::Value::deserialize(var.clone()).map_err(|e| Failure::new(sub, "value-conversion-failed", e.to_string(), case.clone()))?;
        if seen != value || !J::from_value(&seen).exact_eq(&J::from_value(&value)) {
            return Err(Failure::new(sub, "variable-deserializer-lossy", format!("Value::deserialize(variable) gave {}", clip(&seen.to_string(), 300)), case));
        }
    }
    // through the generic search entry (Value as input) as well
    let via = jmespath::compile("@").unwrap().search(&value).map_err(|e| Failure::new(sub, "identity-search-failed", e.to_string(), case.clone()))?;
    if !var_to_j(&via).exact_eq(&got) {
        return Err(Failure::new(sub, "identity-query-changes-value", format!("search('@', Value) gave {}", via), case));
    }
    if interesting(text, model) && st.nontrivial(text) {
        st.sample(|| json!({"json": text}));
    }
    Ok(())
}

/// A text sink that fails once its capacity is used up.
struct Bounded {
    left: usize,
    out: String,
}

impl std::fmt::Write for Bounded {
    fn write_str(&mut self, s: &str) -> std::fmt::Result {
        if s.len() > self.left {
            self.left = 0;
            return Err(std::fmt::Error);
        }
        self.left -= s.len();
        self.out.push_str(s);
        Ok(())
    }
}

/// Tables of very many distinct short strings of one length: each must come
/// back as itself.  Sharing or interning of equal strings inside the value
/// type is invisible; conflating different ones is not, and with n strings
/// per thread a scheme that confuses two strings with probability p per pair
/// of "similar" strings is met about n*n*p/2 times.
fn string_table_text(round: u64, len: usize, count: usize) -> String {
    let mut text = String::with_capacity(count * (len + 3) + 2);
    text.push('[');
    for i in 0..count {
        if i > 0 {
            text.push(',');
        }
        text.push('"');
        let body = format!("{}", (round as usize) * count + i);
        if body.len() >= len {
            text.push_str(&body[body.len() - len..]);
        } else {
            text.push_str(&"k".repeat(len - body.len()));
            text.push_str(&body);
        }
        text.push('"');
    }
    text.push(']');
    text
}

fn string_table_rounds(thread: u64, rounds: u64, count: usize) -> Result<u64, Failure> {
    const LENS: [usize; 6] = [8, 12, 6, 24, 9, 16];
    let mut strings = 0u64;
    for r in 0..rounds {
        let len = LENS[(r as usize + thread as usize) % LENS.len()];
        let round = thread * 1000 + r;
        let text = string_table_text(round, len, count);
        let case = json!({"thread": thread, "rounds": r + 1, "count": count});
        let var = match catch(std::panic::AssertUnwindSafe(|| jmespath::Variable::from_json(&text))) {
            Ok(Ok(v)) => v,
            Ok(Err(m)) => return Err(Failure::new("string-tables", "valid-json-rejected", m, case)),
            Err(p) => return Err(Failure::new("string-tables", "panic", p, case)),
        };
        let printed = var.to_string();
        if printed != text {
            // locate the first difference
            let at = printed.bytes().zip(text.bytes()).position(|(a, b2)| a != b2).unwrap_or(printed.len().min(text.len()));
            let lo = at.saturating_sub(30);
            return Err(Failure::new(
                "string-tables",
                "string-changed",
                format!("a table of {} distinct {}-byte strings does not print as it was read: ...{} instead of ...{}", count, len, clip(&printed[lo..], 80), clip(&text[lo..], 80)),
                case,
            ));
        }
        strings += count as u64;
    }
    Ok(strings)
}

fn string_tables(env: &Env, st: &mut Stats) -> Vec<Failure> {
    let (rounds, count) = if env.tier == Tier::Thorough { (32u64, 500_000usize) } else { (4u64, 500_000usize) };
    let results: Vec<Result<u64, Failure>> = std::thread::scope(|sc| {
        let hs: Vec<_> = (0..16u64).map(|t| sc.spawn(move || string_table_rounds(t, rounds, count))).collect();
        hs.into_iter().map(|h| h.join().unwrap_or_else(|_| Err(Failure::new("string-tables", "harness-panic", "worker panicked".into(), json!({}))))).collect()
    });
    let mut fails = vec![];
    for r in results {
        match r {
            Ok(n) => {
                st.evals(n);
                st.class_n("string-table:strings", n);
            }
            Err(f) => fails.push(f),
        }
    }
    for t in 0..16u64 {
        st.nontrivial(&format!("string-table:{}:{}", t, rounds));
    }
    st.sample(|| json!({"string_table": "16 threads x rounds x 500000 distinct strings of 6..24 bytes", "rounds": rounds}));
    fails
}

fn replay_string_tables(case: &Value, _env: &Env) -> CaseResult {
    let thread = case["thread"].as_u64().unwrap_or(0);
    let rounds = case["rounds"].as_u64().unwrap_or(1);
    let count = case["count"].as_u64().unwrap_or(1000) as usize;
    // the same sequence of tables, on one fresh thread
    let h = std::thread::spawn(move || string_table_rounds(thread, rounds, count));
    h.join().unwrap_or_else(|_| Err(Failure::new("string-tables", "harness-panic", "replay worker panicked".into(), json!({})))).map(|_| ())
}

fn documents(src: &mut Src, st: &mut Stats, _env: &Env) -> CaseResult {
    let (model, text) = gen_text(src, &TextOpts::c08());
    check_text("documents", &text, &model, st)
}

fn scalars(src: &mut Src, st: &mut Stats, _env: &Env) -> CaseResult {
    let o = TextOpts::c08();
    let t = gen_numeral(src, &o);
    let model = J::Num(numeral_value(&t));
    st.class(if numeral_is_exact_domain(&t) { "numeral:exact-domain" } else { "numeral:general" });
    check_text("scalars", &t, &model, st)
}

fn deep(src: &mut Src, st: &mut Stats, _env: &Env) -> CaseResult {
    // up to the deepest nesting the JSON parser underneath admits (127 containers)
    let d = if src.chance(70) { 118 + src.below(10) } else { 1 + src.below(100) };
    let mut text = String::new();
    let mut kinds = vec![];
    for _ in 0..d {
        if src.flip() {
            text.push('[');
            kinds.push(true);
        } else {
            text.push_str("{\"k\":");
            kinds.push(false);
        }
    }
    let leaf = gen_numeral(src, &TextOpts::c08());
    text.push_str(&leaf);
    let mut model = J::Num(numeral_value(&leaf));
    for k in kinds.iter().rev() {
        if *k {
            text.push(']');
            model = J::Arr(vec![model]);
        } else {
            text.push('}');
            let mut m = std::collections::BTreeMap::new();
            m.insert("k".to_string(), model);
            model = J::Obj(m);
        }
    }
    st.class("deep");
    check_text("deep", &text, &model, st)
}

/// Large documents (8..200 KiB) of records with multi-byte strings at every
/// alignment: buffer boundaries in the printer / parser fall inside characters.
fn large(src: &mut Src, st: &mut Stats, _env: &Env) -> CaseResult {
    let target = match src.below(4) {
        0 => 8_000 + src.below(1000),
        1 => 16_000 + src.below(1000),
        2 => 30_000 + src.below(40_000),
        _ => 60_000 + src.below(140_000),
    };
    let pad = src.below(64);
    let unit = *src.pick(&["é", "日本", "😀", "ß€", "a😀b", "\u{7f}é", "x"]);
    let mut recs = vec![J::Str("p".repeat(pad))];
    let mut size = pad + 4;
    let mut i = 0i64;
    while size < target {
        let mut m = std::collections::BTreeMap::new();
        let s: String = unit.repeat(1 + (i as usize % 7));
        m.insert("id".to_string(), J::int(i));
        m.insert("name".to_string(), J::Str(format!("{}{}", s, i)));
        if i % 5 == 0 {
            m.insert("v".to_string(), J::f(i as f64 / 8.0));
        }
        let j = J::Obj(m);
        size += j.to_json().len() + 1;
        recs.push(j);
        i += 1;
    }
    let model = if src.flip() { J::Arr(recs) } else { J::Obj([("rows".to_string(), J::Arr(recs))].into_iter().collect()) };
    let text = model.to_json();
    st.class("large");
    check_text("large", &text, &model, st)
}

pub fn property() -> Property {
    Property {
        id: "C08",
        rule: RULE,
        assumptions: vec![
            "std's str::parse::<f64> (correctly rounded) is the meaning of a numeral; serde_json is the JSON tokenizer on both sides".into(),
            "the numeral -0 is read as the double -0.0 and is excluded from the integer-spelling claim".into(),
            "numerals that overflow a double and nesting deeper than 128 are not generated".into(),
            "print / re-parse equality means: identical structure, strings and integers, and every double within 2 ulp (the JSON parser's documented accuracy; the library's own == is stricter than that for subnormals and is not demanded)".into(),
        ],
        minimise: None,
        subs: vec![
            Sub::Custom(CustomSub { name: "string-tables", run: string_tables, replay: replay_string_tables }),
            Sub::Bytes(BytesSub { name: "documents", f: documents, max_len: 4000, quick: Budget { threads: 8, cases: 4000 }, thorough: Budget { threads: 16, cases: 200_000 }, keep_unreproducible: false }),
            Sub::Bytes(BytesSub { name: "scalars", f: scalars, max_len: 64, quick: Budget { threads: 8, cases: 10_000 }, thorough: Budget { threads: 16, cases: 1_000_000 }, keep_unreproducible: false }),
            Sub::Bytes(BytesSub { name: "large", f: large, max_len: 16, quick: Budget { threads: 8, cases: 60 }, thorough: Budget { threads: 16, cases: 3000 }, keep_unreproducible: false }),
            Sub::Bytes(BytesSub { name: "deep", f: deep, max_len: 200, quick: Budget { threads: 4, cases: 1000 }, thorough: Budget { threads: 16, cases: 50_000 }, keep_unreproducible: false }),
        ],
    }
}
