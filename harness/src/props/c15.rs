//! C15 — calls follow the runtime registry; custom functions receive
//! evaluated arguments.

use std::collections::HashMap;
use std::sync::{Arc, Mutex};

use serde_json::json;

use jmespath::functions::{ArgumentType, CustomFunction, Signature};
use jmespath::{Context, Rcvar, Runtime, Variable};

use crate::imp::classify;
use crate::model::J;
use crate::refast::{lower, RefExpr};
use crate::refeval;
use crate::refparse::{self, Mode};
use crate::runner::*;
use crate::shape::{normal_eq, strip, var_to_j};
use crate::src::Src;

pub const RULE: &str = "histories of register (plain closure or CustomFunction with a generated signature) / deregister / register-builtins operations over a pool of names (built-in names and fresh ones) in rounds; after every round each pooled name and a never-registered name is called with 0..3 arguments (literals, fields, projections, expression references) on a document; model = a map name -> entry: presence (get_function, deregister result), which function answers (each custom function returns its id and logs the arguments it receives), unknown-function otherwise, built-ins answer as the default runtime does, logged arguments equal the reference evaluation of the argument expressions in source order with references passed unevaluated, and a CustomFunction runs iff the model's own signature check accepts the arguments; non-trivial = the history shadows a built-in or re-registers a name and a call passes >= 2 arguments (distinct by history text)";

// short names, built-in names, and long names that share a long prefix and their length
const NAMES: &[&str] = &[
    "length", "abs", "sort_by", "to_string", "f", "g", "my_fn", "Length", "normalize_string_nfc", "normalize_string_nfd", "normalize_string_nfkc",
    "a_very_long_function_name_with_a_common_prefix_1", "a_very_long_function_name_with_a_common_prefix_2",
];
const NEVER: &str = "never_registered";
// never registered either, but one character away from registered names
const NEVER_NEAR: &[&str] = &["normalize_string_nfx", "a_very_long_function_name_with_a_common_prefix_3", "lengt", "length_", "F"];
const DOC: &str = "{\"n\":3,\"s\":\"str\",\"xs\":[1,2,3],\"o\":{\"a\":1},\"z\":null,\"objs\":[{\"a\":1},{\"a\":2}]}";

#[derive(Clone, Debug)]
enum Entry {
    Builtin,
    Closure(usize),
    Custom(usize, Vec<Vec<Ty>>, Option<Vec<Ty>>),
}

#[derive(Clone, Copy, Debug, PartialEq)]
enum Ty {
    Any,
    Number,
    Str,
    Array,
    Object,
    Expref,
    ArrNum,
    Null,
    Bool,
    /// array[array[number]]
    ArrArrNum,
    /// array[string | array[number]]
    ArrStrOrArrNum,
    /// array[any]
    ArrAny,
    /// array[array[any]]
    ArrArrAny,
}

fn to_arg(tys: &[Ty]) -> ArgumentType {
    let one = |t: &Ty| match t {
        Ty::Any => ArgumentType::Any,
        Ty::Number => ArgumentType::Number,
        Ty::Str => ArgumentType::String,
        Ty::Array => ArgumentType::Array,
        Ty::Object => ArgumentType::Object,
        Ty::Expref => ArgumentType::Expref,
        Ty::ArrNum => ArgumentType::TypedArray(Box::new(ArgumentType::Number)),
        Ty::Null => ArgumentType::Null,
        Ty::Bool => ArgumentType::Bool,
        Ty::ArrArrNum => ArgumentType::TypedArray(Box::new(ArgumentType::TypedArray(Box::new(ArgumentType::Number)))),
        Ty::ArrStrOrArrNum => ArgumentType::TypedArray(Box::new(ArgumentType::Union(vec![ArgumentType::String, ArgumentType::TypedArray(Box::new(ArgumentType::Number))]))),
        Ty::ArrAny => ArgumentType::TypedArray(Box::new(ArgumentType::Any)),
        Ty::ArrArrAny => ArgumentType::TypedArray(Box::new(ArgumentType::TypedArray(Box::new(ArgumentType::Any)))),
    };
    if tys.len() == 1 {
        one(&tys[0])
    } else {
        ArgumentType::Union(tys.iter().map(one).collect())
    }
}

fn accepts(tys: &[Ty], v: &J) -> bool {
    tys.iter().any(|t| match t {
        Ty::Any => true,
        Ty::Number => matches!(v, J::Num(_)),
        Ty::Str => matches!(v, J::Str(_)),
        Ty::Array => matches!(v, J::Arr(_)),
        Ty::Object => matches!(v, J::Obj(_)),
        Ty::Expref => matches!(v, J::Expref(_)),
        Ty::ArrNum => matches!(v, J::Arr(a) if a.iter().all(|x| matches!(x, J::Num(_)))),
        Ty::Null => matches!(v, J::Null),
        Ty::Bool => matches!(v, J::Bool(_)),
        Ty::ArrArrNum => matches!(v, J::Arr(a) if a.iter().all(|x| matches!(x, J::Arr(i) if i.iter().all(|y| matches!(y, J::Num(_)))))),
        Ty::ArrStrOrArrNum => matches!(v, J::Arr(a) if a.iter().all(|x| matches!(x, J::Str(_)) || matches!(x, J::Arr(i) if i.iter().all(|y| matches!(y, J::Num(_)))))),
        Ty::ArrAny => matches!(v, J::Arr(_)),
        Ty::ArrArrAny => matches!(v, J::Arr(a) if a.iter().all(|x| matches!(x, J::Arr(_)))),
    })
}

fn gen_tys(src: &mut Src) -> Vec<Ty> {
    let all = [Ty::Any, Ty::Number, Ty::Str, Ty::Array, Ty::Object, Ty::Expref, Ty::ArrNum, Ty::Null, Ty::Bool, Ty::ArrArrNum, Ty::ArrStrOrArrNum, Ty::ArrNum, Ty::ArrArrNum, Ty::ArrAny, Ty::ArrArrAny, Ty::ArrAny, Ty::Any];
    let n = if src.chance(60) { 2 } else { 1 };
    (0..n).map(|_| *src.pick(&all)).collect()
}

type Log = Arc<Mutex<Vec<(usize, Vec<String>)>>>;

fn describe(args: &[Rcvar]) -> Vec<String> {
    args.iter()
        .map(|a| match &**a {
            Variable::Expref(ast) => format!("expref:{:?}", strip(ast)),
            other => format!("value:{}", var_to_j(other).to_json()),
        })
        .collect()
}

fn history(src: &mut Src, st: &mut Stats, _env: &Env) -> CaseResult {
    let log: Log = Arc::new(Mutex::new(vec![]));
    let mut rt = Runtime::new();
    let mut model: HashMap<String, Entry> = HashMap::new();
    let mut next_id = 100usize;
    let mut hist: Vec<String> = vec![];
    let mut shadowed = false;
    let mut multi_arg_call = false;
    let doc = J::parse(DOC).unwrap();
    let default_rt = {
        let mut r = Runtime::new();
        r.register_builtin_functions();
        r
    };
    let rounds = 1 + src.below(4);
    st.eval();
    for _round in 0..rounds {
        let n_ops = src.below(6);
        for _ in 0..n_ops {
            match src.weighted(&[6, 4, 2]) {
                0 => {
                    let name = *src.pick(NAMES);
                    let id = next_id;
                    next_id += 1;
                    if model.contains_key(name) {
                        shadowed = true;
                    }
                    if refeval::sig_of(name).is_some() {
                        shadowed = true;
                    }
                    let lg = log.clone();
                    if src.flip() {
                        hist.push(format!("register({}, closure#{})", name, id));
                        rt.register_function(
                            name,
                            Box::new(move |args: &[Rcvar], _ctx: &mut Context<'_>| {
                                lg.lock().unwrap().push((id, describe(args)));
                                Ok(Rcvar::new(Variable::Number(serde_json::Number::from(id as u64))))
                            }),
                        );
                        model.insert(name.to_string(), Entry::Closure(id));
                    } else {
                        let np = src.below(3);
                        let params: Vec<Vec<Ty>> = (0..np).map(|_| gen_tys(src)).collect();
                        let variadic = if src.chance(70) { Some(gen_tys(src)) } else { None };
                        hist.push(format!("register({}, custom#{} {:?} variadic {:?})", name, id, params, variadic));
                        let sig = Signature::new(params.iter().map(|p| to_arg(p)).collect(), variadic.as_ref().map(|v| to_arg(v)));
                        rt.register_function(
                            name,
                            Box::new(CustomFunction::new(
                                sig,
                                Box::new(move |args: &[Rcvar], _ctx: &mut Context<'_>| {
                                    lg.lock().unwrap().push((id, describe(args)));
                                    Ok(Rcvar::new(Variable::Number(serde_json::Number::from(id as u64))))
                                }),
                            )),
                        );
                        model.insert(name.to_string(), Entry::Custom(id, params, variadic));
                    }
                }
                1 => {
                    let name = *src.pick(NAMES);
                    hist.push(format!("deregister({})", name));
                    let got = rt.deregister_function(name).is_some();
                    let want = model.remove(name).is_some();
                    if got != want {
                        return Err(Failure::new("history", "deregister-result-wrong", format!("deregister({}) returned {} expected {}", name, got, want), json!({"history": hist})));
                    }
                }
                _ => {
                    hist.push("register_builtins()".into());
                    rt.register_builtin_functions();
                    for s in refeval::SIGS {
                        if model.contains_key(s.name) {
                            shadowed = true;
                        }
                        model.insert(s.name.to_string(), Entry::Builtin);
                    }
                }
            }
        }
        // presence
        for name in NAMES.iter().chain([NEVER].iter()).chain(NEVER_NEAR.iter()) {
            let got = rt.get_function(name).is_some();
            let want = model.contains_key(*name);
            if got != want {
                return Err(Failure::new("history", "registry-presence-wrong", format!("get_function({}) is_some = {} expected {}", name, got, want), json!({"history": hist})));
            }
        }
        // calls
        for name in NAMES.iter().chain([NEVER].iter()).chain(NEVER_NEAR.iter()) {
            let nargs = src.below(4);
            let nn_builtin = matches!(model.get("not_null"), Some(Entry::Builtin));
            let plain = [
                "n", "s", "xs", "o", "z", "`1`", "'lit'", "xs[*]", "objs[*].a", "&n", "&objs[0].a", "xs[0]", "`[1, 2]`", "&@", "`[[1, 2], [\"x\"]]`", "`[[1], [2, 3]]`", "`[[\"x\"], [1]]`",
                "`[\"a\", [1]]`", "`[[1], \"a\", [\"b\"]]`", "`[[1], [2], [true]]`", "`[1, 2, \"x\"]`", "`[]`", "`[[]]`", "[xs, xs]", "[xs, [s]]",
                // numbers whose representation matters: whole floats, values beyond 64-bit integers, zeros
                "`1e19`", "`-1e300`", "`2.0`", "`18446744073709551615`", "`-9223372036854775808`", "`0.5`", "`-0.0`", "`[1e19, 2.0]`",
            ];
            // long array literals, uniform or with one member of another kind near the end
            let long_texts: Vec<String> = {
                let n = 8 + src.below(40);
                let bad_at = match src.below(4) {
                    0 => n,
                    1 => n - 1,
                    2 => n - 1 - src.below(8),
                    _ => src.below(n),
                };
                let nums: Vec<String> = (0..n).map(|i| if i == bad_at { "\"x\"".to_string() } else { i.to_string() }).collect();
                let arrs: Vec<String> = (0..n).map(|i| if i == bad_at { "[\"x\"]".to_string() } else { format!("[{}]", i) }).collect();
                vec![format!("`[{}]`", nums.join(", ")), format!("`[{}]`", arrs.join(", "))]
            };
            let mut plain: Vec<&str> = plain.to_vec();
            plain.extend(long_texts.iter().map(|x| x.as_str()));
            plain.extend(long_texts.iter().map(|x| x.as_str()));
            let with_calls = ["n", "s", "xs", "not_null(s)", "not_null(z, n)", "not_null(not_null(xs))", "`1`", "&n", "not_null(z, z, o)", "xs[0]"];
            let arg_texts: Vec<&str> = (0..nargs).map(|_| if nn_builtin && src.chance(100) { *src.pick(&with_calls) } else { *src.pick(&plain) }).collect();
            let mut expr = format!("{}({})", name, arg_texts.join(", "));
            // sometimes the call sits under a tower of enclosing calls (only when the
            // wrapper is the built-in not_null, whose result is its first non-null argument)
            let mut tower = 0usize;
            if nn_builtin && *name != "not_null" && src.chance(70) {
                tower = 1 + src.below(14);
            }
            let inner_expr = expr.clone();
            for _ in 0..tower {
                expr = format!("not_null(z, {})", expr);
            }
            hist.push(format!("call {}", expr));
            let case = json!({"history": hist, "document": DOC});
            let before = log.lock().unwrap().len();
            let compiled = match rt.compile(&expr) {
                Ok(c) => c,
                Err(e) => return Err(Failure::new("history", "harness-compile", e.to_string(), case)),
            };
            // a clone, or an expression rebuilt from the parts of the compiled one, belongs to the
            // same runtime
            let compiled = match src.below(4) {
                0 => compiled.clone(),
                1 => jmespath::Expression::new(compiled.as_str(), compiled.as_ast().clone(), &rt),
                _ => compiled,
            };
            let data = Variable::from_json(DOC).unwrap();
            let res = catch(std::panic::AssertUnwindSafe(|| compiled.search(data)));
            let res = match res {
                Err(p) => return Err(Failure::new("history", "panic", p, case)),
                Ok(r) => r,
            };
            let new_logs: Vec<(usize, Vec<String>)> = log.lock().unwrap()[before..].to_vec();
            // reference view of the arguments
            let tree = refparse::parse(&inner_expr, Mode::Strict).map_err(|e| Failure::new("history", "harness-ref", e.msg, case.clone()))?;
            if tower >= 8 {
                st.class("call-under-tower>=8");
            }
            let argtrees = match &tree {
                RefExpr::Call(_, a) => a.clone(),
                _ => vec![],
            };
            let mut want_args: Vec<String> = vec![];
            let mut argvals: Vec<J> = vec![];
            for a in &argtrees {
                match a {
                    RefExpr::Expref(inner) => {
                        // the reference passed unevaluated: compare the tree of its source
                        want_args.push(format!("expref:{:?}", lower(inner)));
                        let _ = normal_eq;
                        argvals.push(J::Expref(None));
                    }
                    other => {
                        let mut cx = refeval::Ctx::default();
                        let v = refeval::eval(other, &doc, &mut cx).unwrap_or(J::Null);
                        want_args.push(format!("value:{}", v.to_json()));
                        argvals.push(v);
                    }
                }
            }
            if nargs >= 2 {
                multi_arg_call = true;
            }
            match model.get(*name) {
                None => match &res {
                    Err(e) if classify(e).class == "UnknownFunction" && format!("{:?}", e.reason).contains(*name) && new_logs.is_empty() => {}
                    other => {
                        return Err(Failure::new("history", "call-to-absent-name-not-unknown-function", format!("{} gave {:?}", expr, other.as_ref().map(|v| v.to_string()).map_err(|e| classify(e).detail)), case))
                    }
                },
                Some(Entry::Builtin) => {
                    let d2 = Variable::from_json(DOC).unwrap();
                    let want = default_rt.compile(&expr).unwrap().search(d2);
                    let same = match (&res, &want) {
                        (Ok(a), Ok(b2)) => var_to_j(a).exact_eq(&var_to_j(b2)),
                        (Err(a), Err(b2)) => classify(a).detail == classify(b2).detail,
                        _ => false,
                    };
                    if !same || !new_logs.is_empty() {
                        return Err(Failure::new("history", "builtin-not-called", format!("{} did not behave like the built-in", expr), case));
                    }
                }
                Some(Entry::Closure(id)) => {
                    let ok = matches!(&res, Ok(v) if v.as_number() == Some(*id as f64)) && new_logs.len() == 1 && new_logs[0].0 == *id;
                    if !ok {
                        return Err(Failure::new("history", "wrong-function-called", format!("{} should reach closure#{}; result {:?}, log {:?}", expr, id, res.as_ref().map(|v| v.to_string()).map_err(|e| classify(e).detail), new_logs), case));
                    }
                    if new_logs[0].1 != want_args {
                        return Err(Failure::new("history", "arguments-wrong", format!("{} received {:?} expected {:?}", expr, new_logs[0].1, want_args), case));
                    }
                }
                Some(Entry::Custom(id, params, variadic)) => {
                    // the model's own signature check
                    let n = params.len();
                    let arity_ok = argvals.len() >= n && (argvals.len() == n || variadic.is_some());
                    let types_ok = arity_ok
                        && argvals.iter().enumerate().all(|(i, v)| {
                            let tys = if i < n { &params[i] } else { variadic.as_ref().unwrap() };
                            accepts(tys, v)
                        });
                    if types_ok {
                        let ok = matches!(&res, Ok(v) if v.as_number() == Some(*id as f64)) && new_logs.len() == 1 && new_logs[0].0 == *id && new_logs[0].1 == want_args;
                        if !ok {
                            return Err(Failure::new("history", "custom-function-not-invoked", format!("{} satisfies the signature of custom#{} but result {:?}, log {:?}", expr, id, res.as_ref().map(|v| v.to_string()).map_err(|e| classify(e).detail), new_logs), case));
                        }
                    } else {
                        let cls = res.as_ref().err().map(|e| classify(e).class).unwrap_or_else(|| "Ok".into());
                        let want_cls: &[&str] = if !arity_ok { &["NotEnoughArguments", "TooManyArguments"] } else { &["InvalidType"] };
                        if !want_cls.contains(&cls.as_str()) || !new_logs.is_empty() {
                            return Err(Failure::new("history", "custom-function-invoked-despite-signature", format!("{} violates the signature of custom#{} but outcome {} and log {:?}", expr, id, cls, new_logs), case));
                        }
                    }
                }
            }
        }
    }
    st.class_n("ops", hist.len() as u64);
    if shadowed && multi_arg_call && st.nontrivial(&hist.join(";")) {
        st.sample(|| json!({"history": hist}));
    }
    Ok(())
}

/// Evaluation order of arguments: recording functions are used AS arguments,
/// nested; the log must be the left-to-right post-order of the call tree (every
/// argument evaluated exactly once, in source order, before the call itself).
fn arg_order(src: &mut Src, st: &mut Stats, _env: &Env) -> CaseResult {
    let log: Arc<Mutex<Vec<String>>> = Arc::new(Mutex::new(vec![]));
    let mut rt = Runtime::new();
    rt.register_builtin_functions();
    for name in ["r1", "r2", "r3"] {
        let lg = log.clone();
        let nm = name.to_string();
        rt.register_function(
            name,
            Box::new(move |args: &[Rcvar], _ctx: &mut Context<'_>| {
                lg.lock().unwrap().push(format!("{}({})", nm, args.iter().map(|a| var_to_j(a).to_json()).collect::<Vec<_>>().join(",")));
                Ok(args.first().cloned().unwrap_or_else(|| Rcvar::new(Variable::Null)))
            }),
        );
    }
    // a random call tree over r1..r3 and a few built-ins
    fn gen(src: &mut Src, d: usize, expected: &mut Vec<String>, doc: &J) -> (String, J) {
        let leafs = [("n", J::int(3)), ("s", J::s("str")), ("`1`", J::int(1)), ("xs[0]", J::int(1)), ("'l'", J::s("l")), ("z", J::Null)];
        if d >= 4 || src.chance(70) {
            let (t, v) = leafs[src.below(leafs.len())].clone();
            return (t.to_string(), v);
        }
        let _ = doc;
        match src.below(5) {
            0 | 1 | 2 => {
                let name = *src.pick(&["r1", "r2", "r3"]);
                let n = 1 + src.below(3);
                let mut texts = vec![];
                let mut vals = vec![];
                for _ in 0..n {
                    let (t, v) = gen(src, d + 1, expected, doc);
                    texts.push(t);
                    vals.push(v);
                }
                expected.push(format!("{}({})", name, vals.iter().map(|v| v.to_json()).collect::<Vec<_>>().join(",")));
                (format!("{}({})", name, texts.join(", ")), vals[0].clone())
            }
            3 => {
                // a built-in in between: not_null evaluates all its arguments first
                let n = 1 + src.below(3);
                let mut texts = vec![];
                let mut vals = vec![];
                for _ in 0..n {
                    let (t, v) = gen(src, d + 1, expected, doc);
                    texts.push(t);
                    vals.push(v);
                }
                let v = vals.iter().find(|v| !v.is_null()).cloned().unwrap_or(J::Null);
                (format!("not_null({})", texts.join(", ")), v)
            }
            _ => {
                let (t, v) = gen(src, d + 1, expected, doc);
                (format!("to_array({})[0]", t), v)
            }
        }
    }
    let doc = J::parse(DOC).unwrap();
    let mut expected = vec![];
    let (expr, want_val) = gen(src, 0, &mut expected, &doc);
    st.eval();
    let case = json!({"expression": expr, "document": DOC});
    let compiled = rt.compile(&expr).map_err(|e| Failure::new("arg-order", "harness-compile", e.to_string(), case.clone()))?;
    let res = catch(std::panic::AssertUnwindSafe(|| compiled.search(Variable::from_json(DOC).unwrap()))).map_err(|p| Failure::new("arg-order", "panic", p, case.clone()))?;
    let got_log = log.lock().unwrap().clone();
    if got_log != expected {
        return Err(Failure::new("arg-order", "arguments-not-evaluated-in-source-order", format!("calls observed {:?}, expected {:?}", got_log, expected), case));
    }
    match res {
        Ok(v) if var_to_j(&v).deep_eq(&want_val) => {}
        other => return Err(Failure::new("arg-order", "wrong-function-called", format!("result {:?} expected {}", other.map(|v| v.to_string()).map_err(|e| classify(&e).detail), want_val.to_json()), case)),
    }
    if expected.len() >= 3 && st.nontrivial(&expr) {
        st.sample(|| json!({"expression": expr, "calls": expected}));
    }
    Ok(())
}

/// A custom higher-order function: `apply(&expr, value)` evaluates the
/// reference it received (unevaluated) on `value`.  The only way a custom
/// function can do that is `Expression::new(label, ast, ctx.runtime)`, and it
/// does not have the source text of the reference, so the label is arbitrary.
/// The outcome must be what evaluating `expr` on `value` directly gives: the
/// same value, or a failure of the same kind (never a panic).
fn apply_expref(src: &mut Src, st: &mut Stats, _env: &Env) -> CaseResult {
    use crate::gen_typed::{gen_typed, schema_doc};
    let doc = schema_doc(src);
    let dt = doc.to_json();
    let inner = match src.below(6) {
        0 => src.pick(&["nope(@)", "abs('x')", "length(@, @)", "nums[::0]", "sort_by(objs, &to_array(n))", "objs[*].nope(@)", "map(&abs(s), objs)", "[n, nope2(s)]", "\"\\u00e9\\u00e9\\u00e9\\u00e9\".abs(@)"]).to_string(),
        _ => {
            let d = 1 + src.below(3);
            let t = gen_typed(src, d);
            match crate::props::c01::spell_tree(&t, src, st) {
                Some(x) => x.0,
                None => {
                    st.discard();
                    return Ok(());
                }
            }
        }
    };
    let label: String = src.pick(&["", "x", "<expref>", "a\u{f1}adir", "\u{65e5}\u{672c}\u{8a9e}\u{65e5}\u{672c}\u{8a9e}", "\n\n"]).to_string();
    let label = if src.chance(60) { inner.clone() } else { label };
    let seen: Arc<Mutex<Vec<crate::refast::Shape>>> = Arc::new(Mutex::new(vec![]));
    let mut rt = Runtime::new();
    rt.register_builtin_functions();
    let (lb, sn) = (label.clone(), seen.clone());
    rt.register_function(
        "apply",
        Box::new(move |args: &[Rcvar], ctx: &mut Context<'_>| match args.first().map(|a| &**a) {
            Some(Variable::Expref(ast)) => {
                sn.lock().unwrap().push(strip(ast));
                let e = jmespath::Expression::new(lb.as_str(), ast.clone(), ctx.runtime);
                e.search(args.get(1).cloned().unwrap_or_else(|| Rcvar::new(Variable::Null)))
            }
            _ => Ok(Rcvar::new(Variable::Null)),
        }),
    );
    let outer = if src.flip() { format!("apply(&{}, @)", inner) } else { format!("apply(&({}), @)", inner) };
    st.eval();
    let case = json!({"expression": outer, "inner": inner, "label": label, "document": dt});
    let direct = crate::imp::search_text(&inner, &dt);
    let compiled = match rt.compile(&outer) {
        Ok(c) => c,
        Err(_) => {
            // the inner text is not a sentence (a mutated spelling): nothing to apply
            st.class("apply:inner-not-a-sentence");
            return Ok(());
        }
    };
    let got = catch(std::panic::AssertUnwindSafe(|| compiled.search(Variable::from_json(&dt).unwrap()))).map_err(|p| Failure::new("apply-expref", "panic", format!("search panicked: {}", p), case.clone()))?;
    // the reference arrives unevaluated, as the tree of its source text
    let asts = seen.lock().unwrap().clone();
    if let (Some(a), Ok(p)) = (asts.first(), jmespath::parse(&inner)) {
        if !normal_eq(a, &strip(&p)) {
            return Err(Failure::new("apply-expref", "expression-reference-altered", format!("the function received {:?}", a), case));
        }
    }
    match (&direct, &got) {
        (crate::imp::ImpOut::Ok(w), Ok(g)) => {
            if !var_to_j(g).deep_eq(w) {
                return Err(Failure::new("apply-expref", "applied-reference-differs", format!("apply gives {} but the expression itself gives {}", g, w.to_json()), case));
            }
            st.class("apply:value");
        }
        (crate::imp::ImpOut::SearchErr(e), Err(g)) => {
            let c = classify(g);
            if c.class != e.class {
                return Err(Failure::new("apply-expref", "applied-reference-differs", format!("apply fails with {} but the expression itself fails with {}", c.detail, e.detail), case));
            }
            st.class("apply:error");
            if st.nontrivial(&format!("{}\u{0}{}", outer, label)) {
                st.sample(|| json!({"expression": outer, "label": label, "error": c.class}));
            }
        }
        (d, g) => {
            return Err(Failure::new(
                "apply-expref",
                "applied-reference-differs",
                format!("apply gives {:?} but the expression itself gives {}", g.as_ref().map(|v| v.to_string()).map_err(|e| classify(e).detail), d.brief()),
                case,
            ));
        }
    }
    Ok(())
}

/// A custom function called from every kind of surrounding construct: it is
/// invoked exactly when (and as often as) the call is evaluated, with the
/// evaluated argument.  `rec(x)` logs and returns its argument, which is what
/// the built-in `not_null(x)` computes, so the same text with `not_null` on the
/// default runtime (and the reference evaluator's count of calls) is the model.
fn call_contexts(src: &mut Src, st: &mut Stats, _env: &Env) -> CaseResult {
    let contexts = [
        "{C}", "z | {C}[]", "z | {C}.*", "{C}[]", "{C}[*]", "{C}.*", "[{C}]", "{k: {C}}", "xs[*].{C}", "objs[*].{C}", "z || {C}", "z && {C}", "n && {C}", "n || {C}", "!{C}", "{C} == {C}", "xs[?{C}]",
        "objs[?{C} == `1`]", "{C} | [0]", "z | {C}", "z.{C}", "o.{C}", "type({C})", "length(to_array({C}))", "map(&{C}, xs)", "sort_by(objs, &{C})", "z | {C}[0]", "z | [{C}][]", "(z | {C})[]", "z[*].{C}",
        "z.*.{C}", "[z][*].{C}", "[z, n][*].{C}", "z | {C}[?@]", "z | {C}[1:]", "z | ({C})[]", "z | [{C}, {C}]", "z | {k: {C}}.k[]", "n | {C}[]", "xs | {C}[]", "z | {C} | []", "[z | {C}[], n | {C}.*]",
        "z | to_array({C})[]", "[{C}, type(@)]", "[type(@), {C}]", "{a: {C}, b: length(xs)}", "to_array({C}) == to_array(xs)", "[length(xs), {C}, nope2(@)]", "objs[*].[z | {C}[]]", "xs[?z | {C}[]]", "z | {C}[] || `1`", "z | ({C}[] || `1`)", "z | nope({C})", "z | {C}[::0]",
    ];
    let calls = ["rec(@)", "rec(n)", "rec(a)", "rec(xs)", "rec(o)", "rec(z)", "rec(`1`)", "rec(@.n)", "rec(objs)", "rec(objs[0])", "rec([n, s])", "rec(rec(xs))"];
    let ctx = *src.pick(&contexts);
    let call = *src.pick(&calls);
    let text = ctx.replace("{C}", call);
    check_call_text("call-contexts", &text, src, st)
}

/// `text` calls the logging identity function `rec(x)`; see `call_contexts`.
pub fn check_call_text(sub: &'static str, text: &str, src: &mut Src, st: &mut Stats) -> CaseResult {
    let text = text.to_string();
    let model_text = text.replace("rec(", "not_null(");
    let count: Arc<Mutex<usize>> = Arc::new(Mutex::new(0));
    let mut rt = Runtime::new();
    rt.register_builtin_functions();
    let c2 = count.clone();
    rt.register_function(
        "rec",
        Box::new(move |args: &[Rcvar], _ctx: &mut Context<'_>| {
            *c2.lock().unwrap() += 1;
            Ok(args.first().cloned().unwrap_or_else(|| Rcvar::new(Variable::Null)))
        }),
    );
    st.eval();
    let case = json!({"expression": text, "model_expression": model_text, "document": DOC});
    let compiled = rt.compile(&text).map_err(|e| Failure::new(sub, "harness-compile", e.to_string(), case.clone()))?;
    let compiled = if src.flip() { compiled.clone() } else { compiled };
    let got = catch(std::panic::AssertUnwindSafe(|| compiled.search(Variable::from_json(DOC).unwrap()))).map_err(|p| Failure::new(sub, "panic", p, case.clone()))?;
    let calls_seen = *count.lock().unwrap();
    let want = crate::imp::search_text(&model_text, DOC);
    match (&want, &got) {
        (crate::imp::ImpOut::Ok(w), Ok(g)) if var_to_j(g).deep_eq(w) => {}
        (crate::imp::ImpOut::SearchErr(e), Err(g)) if classify(g).class == e.class => {}
        (w, g) => {
            return Err(Failure::new(
                "call-contexts",
                "custom-function-call-differs-from-builtin-call",
                format!("{} gives {:?} but {} gives {}", text, g.as_ref().map(|v| v.to_string()).map_err(|e| classify(e).detail), model_text, w.brief()),
                case,
            ))
        }
    }
    // the same expression as an object assembled by hand from the public Ast (all offsets
    // equal, or small random ones) and bound to the same runtime with Expression::new
    if let Ok(tree) = refparse::parse(&text, Mode::Strict) {
        let shape = lower(&tree);
        let mode = src.below(3);
        let mut k = 0usize;
        let mut next = move || -> usize {
            k += 1;
            match mode {
                0 => 0,
                1 => 5,
                _ => k % 3,
            }
        };
        let ast = crate::shape::unstrip(&shape, &mut next);
        *count.lock().unwrap() = 0;
        let hand = jmespath::Expression::new("", ast, &rt);
        let got2 = catch(std::panic::AssertUnwindSafe(|| hand.search(Variable::from_json(DOC).unwrap()))).map_err(|p| Failure::new(sub, "panic", p, case.clone()))?;
        let calls2 = *count.lock().unwrap();
        let same = match (&got, &got2) {
            (Ok(a), Ok(b2)) => var_to_j(a).exact_eq(&var_to_j(b2)),
            (Err(a), Err(b2)) => classify(a).class == classify(b2).class,
            _ => false,
        };
        if !same || calls2 != calls_seen {
            return Err(Failure::new(
                "call-contexts",
                "hand-built-ast-calls-differ",
                format!("compiled: {:?} with {} invocations; Expression::new on the same tree: {:?} with {} invocations", got.as_ref().map(|v| v.to_string()).map_err(|e| classify(e).detail), calls_seen, got2.as_ref().map(|v| v.to_string()).map_err(|e| classify(e).detail), calls2),
                case,
            ));
        }
    }
    // how often the function ran: the reference evaluator's count of not_null calls
    if let Ok(tree) = refparse::parse(&model_text, Mode::Strict) {
        let doc = J::parse(DOC).unwrap();
        let mut cx = refeval::Ctx::default();
        if refeval::eval(&tree, &doc, &mut cx).is_ok() && cx.ambiguous.is_empty() {
            let want_calls = cx.calls.iter().filter(|c| **c == "not_null").count();
            if want_calls != calls_seen {
                return Err(Failure::new(sub, "custom-function-invocation-count", format!("{} invoked the function {} times, the rules say {}", text, calls_seen, want_calls), case));
            }
            st.class(if want_calls == 0 { "context:not-evaluated" } else { "context:evaluated" });
        }
    }
    if st.nontrivial(&text) {
        st.sample(|| json!({"expression": text, "invocations": calls_seen}));
    }
    Ok(())
}

pub fn property() -> Property {
    Property {
        id: "C15",
        rule: RULE,
        assumptions: vec![
            "expression references are compared through the offset-free shape of their tree".into(),
            "argument values are the reference evaluation of the argument expressions on the fixed document".into(),
        ],
        minimise: None,
        subs: vec![
            Sub::Bytes(BytesSub { name: "arg-order", f: arg_order, max_len: 200, quick: Budget { threads: 4, cases: 6000 }, thorough: Budget { threads: 16, cases: 60_000 }, keep_unreproducible: false }),
            Sub::Bytes(BytesSub { name: "call-contexts", f: call_contexts, max_len: 64, quick: Budget { threads: 4, cases: 3000 }, thorough: Budget { threads: 16, cases: 40_000 }, keep_unreproducible: false }),
            Sub::Bytes(BytesSub { name: "apply-expref", f: apply_expref, max_len: 600, quick: Budget { threads: 4, cases: 6000 }, thorough: Budget { threads: 16, cases: 60_000 }, keep_unreproducible: false }),
            Sub::Bytes(BytesSub { name: "history", f: history, max_len: 600, quick: Budget { threads: 8, cases: 4500 }, thorough: Budget { threads: 16, cases: 80_000 }, keep_unreproducible: false }),
        ],
    }
}
