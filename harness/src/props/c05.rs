//! C05 — totality: no panic, abort or hang.

use std::process::{Command, Stdio};
use std::time::{Duration, Instant};

use serde_json::{json, Value};

use crate::gen_doc::{gen_char, gen_doc, DocOpts};
use crate::imp::{search_text, ImpOut};
use crate::runner::*;
use crate::src::Src;
use crate::syn::*;

pub const RULE: &str = "every string family of C03 (sentences, one-edit mutants, token soup, arbitrary Unicode, lexical corner cases) compiled and, when it compiles, searched against generated and fixed documents; structure-aware index/slice expressions with bounds and steps from {0, +-1, +-2, +-len, +-(len+-1), +-2^31-+{0,1,2}} against arrays of length 0..6 (also nested in projections, filters, functions); built-in calls with adversarial well-formed arguments; and a depth ladder of 16 nesting shapes at depths 16..65536 in child processes with the default 8 MiB stack; oracle = the call returns Ok/Err (panic capture with overflow checks and debug assertions on, abnormal child exit, 60 s child limit); non-trivial = the input compiles and is searched against a non-empty container, or contains a number with |n| >= 2^31-2, or nests >= 64 deep (distinct by text)";

pub const FIXED_DOCS: &[&str] = &[
    "null",
    "{\"a\":[{\"a\":1,\"b\":[1,2,3]},{\"a\":\"x\",\"b\":[]},null,[1,[2,[3]]]],\"b\":{\"a\":[0,1,2,3,4,5],\"b\":\"héllo\",\"c\":null},\"foo\":[[1,2],[3]],\"k\":-1.5,\"q\":\"s\",\"r\":\"1\",\"1\":true}",
    "[0,1,2,3,4,5,6,7,8,9]",
];

fn has_extreme_number(text: &str) -> bool {
    let mut cur = String::new();
    for c in text.chars().chain(std::iter::once(' ')) {
        if c.is_ascii_digit() {
            cur.push(c);
        } else {
            if cur.len() >= 10 {
                if let Ok(v) = cur.parse::<i128>() {
                    if v >= (1i128 << 31) - 2 {
                        return true;
                    }
                } else {
                    return true;
                }
            }
            cur.clear();
        }
    }
    false
}

pub fn total_on(sub: &str, text: &str, docs: &[&str], st: &mut Stats) -> CaseResult {
    let mut compiled = false;
    for d in docs {
        st.eval();
        match search_text(text, d) {
            ImpOut::Panic(p) => {
                return Err(Failure::new(sub, "panic", format!("panicked: {}", p), json!({"expression": text, "document": d})));
            }
            ImpOut::CompileErr(_) => break,
            ImpOut::BadDoc(m) => return Err(Failure::new(sub, "harness-bad-doc", m, json!({"document": d}))),
            _ => compiled = true,
        }
    }
    if compiled {
        st.class("compiled-and-searched");
    } else {
        st.class("rejected");
    }
    if (compiled || has_extreme_number(text)) && st.nontrivial(text) {
        st.sample(|| json!({"expression": text, "compiled": compiled}));
    }
    Ok(())
}

fn strings(src: &mut Src, st: &mut Stats, _env: &Env) -> CaseResult {
    let kind = src.below(8);
    let text = match kind {
        6 | 7 => crate::props::c03::gen_lexical(src),
        0 | 1 => {
            let d = 2 + src.below(5);
            match gen_sentence(src, st, d) {
                Some(t) => t,
                None => return Ok(()),
            }
        }
        2 | 3 => {
            let d = 1 + src.below(4);
            let a = match gen_sentence(src, st, d) {
                Some(t) => t,
                None => return Ok(()),
            };
            let b2 = gen_sentence(src, st, 2).unwrap_or_else(|| "a".into());
            let (m, _) = mutate(&a, &b2, src);
            if src.flip() {
                mutate(&m, &b2, src).0
            } else {
                m
            }
        }
        4 => gen_soup(src),
        _ => {
            let n = src.below(16);
            (0..n).map(|_| if src.chance(90) { src.pick(VOCAB).to_string() } else { gen_char(src).to_string() }).collect()
        }
    };
    let doc = gen_doc(src, &DocOpts::default()).to_json();
    let docs = [doc.as_str(), FIXED_DOCS[1], FIXED_DOCS[0]];
    total_on("strings", &text, &docs, st)
}

fn edge_int(src: &mut Src, len: i64) -> i64 {
    let base: [i64; 14] = [0, 1, -1, 2, -2, len, -len, len + 1, -(len + 1), len - 1, i32::MAX as i64, i32::MIN as i64, 1 << 30, -(1 << 30)];
    let b = *src.pick(&base);
    (b + src.range(-2, 2)).clamp(i32::MIN as i64, i32::MAX as i64)
}

/// Structure-aware arithmetic hot spots.
fn arithmetic(src: &mut Src, st: &mut Stats, _env: &Env) -> CaseResult {
    let len = src.below(7) as i64;
    let doc = json!({"xs": (0..len).collect::<Vec<i64>>(), "ys": [[0, 1, 2], [], [3]], "o": {"a": [1, 2, 3]}}).to_string();
    let part = |src: &mut Src| -> String {
        if src.chance(80) {
            String::new()
        } else {
            edge_int(src, len).to_string()
        }
    };
    let slice = format!("[{}:{}:{}]", part(src), part(src), part(src));
    let idx = format!("[{}]", edge_int(src, len));
    let piece = if src.flip() { slice } else { idx };
    let text = match src.below(9) {
        0 => format!("xs{}", piece),
        1 => format!("xs{}{}", piece, piece),
        2 => format!("ys[*]{}", piece),
        3 => format!("ys[]{}", piece),
        4 => format!("xs[?@ > `1`]{}", piece),
        5 => format!("reverse(xs){}", piece),
        6 => format!("[xs{}, o.a{}]", piece, piece),
        7 => format!("o.*{}", piece),
        _ => format!("sort_by(ys, &length(@)){}", piece),
    };
    total_on("arithmetic", &text, &[doc.as_str()], st)
}

/// Built-in calls with adversarial but well-formed arguments.
fn builtin_calls(src: &mut Src, st: &mut Stats, _env: &Env) -> CaseResult {
    let nums = ["`0`", "`-0.0`", "`1e308`", "`-1e308`", "`5e-324`", "`9223372036854775807`", "`-9223372036854775808`", "`18446744073709551615`", "`1.5`", "`-2`", "`1e400`"];
    let strs = ["''", "'a'", "'é😀'", "'\\u0000'", "'1e999'", "'-'", "' 1 '", "'0x10'", "'1e308'", "'null'", "'\"'", "'[1'"];
    let arrs = ["`[]`", "`[1e308, 1e308]`", "`[-1e308, -1e308]`", "`[1, \"a\"]`", "`[[]]`", "`[null]`", "`[\"b\", \"a\", \"é\"]`", "`[9223372036854775807, 9223372036854775806]`", "`[{\"a\": 1}, {\"a\": \"x\"}, {}]`"];
    let objs = ["`{}`", "`{\"a\": 1}`", "`{\"\": null}`"];
    let any = |src: &mut Src| -> String {
        match src.below(5) {
            0 => src.pick(&nums).to_string(),
            1 => src.pick(&strs).to_string(),
            2 => src.pick(&arrs).to_string(),
            3 => src.pick(&objs).to_string(),
            _ => src.pick(&["`null`", "`true`", "@", "&@", "&a", "&to_number(@)", "&`1`", "&nope(@)"]).to_string(),
        }
    };
    let f = crate::refeval::SIGS[src.below(crate::refeval::SIGS.len())].name;
    let n = src.below(4);
    let args: Vec<String> = (0..n).map(|_| any(src)).collect();
    let text = format!("{}({})", f, args.join(", "));
    total_on("builtin-calls", &text, &[FIXED_DOCS[1], FIXED_DOCS[0]], st)
}

// ---------------------------------------------------------------------------
// depth ladder (child processes)
// ---------------------------------------------------------------------------

pub const SHAPES: &[&str] = &["paren", "not", "dot", "pipe", "or", "and", "index", "flatten", "listwild", "filter", "multilist", "multihash", "call", "literal", "cmp", "filter-nested"];

pub fn ladder_text(shape: &str, d: usize) -> String {
    let rep = |s: &str| s.repeat(d);
    match shape {
        "paren" => format!("{}a{}", rep("("), rep(")")),
        "not" => format!("{}a", rep("!")),
        "dot" => format!("a{}", rep(".a")),
        "pipe" => format!("a{}", rep("|a")),
        "or" => format!("a{}", rep("||a")),
        "and" => format!("a{}", rep("&&a")),
        "index" => format!("a{}", rep("[0]")),
        "flatten" => format!("a{}", rep("[]")),
        "listwild" => format!("a{}", rep("[*]")),
        "filter" => format!("a{}", rep("[?a]")),
        "multilist" => format!("{}a{}", rep("["), rep("]")),
        "multihash" => format!("{}a{}", rep("{a:"), rep("}")),
        "call" => format!("{}a{}", rep("not_null("), rep(")")),
        "literal" => format!("`{}1{}`", rep("["), rep("]")),
        "cmp" => format!("a{}", rep("==a")),
        "filter-nested" => format!("{}a{}", rep("a[?"), rep("]")),
        _ => "a".to_string(),
    }
}

/// Executed in the child: compile, search, drop.  Returns normally whatever
/// the outcome (Ok or Err are both fine); a crash is seen by the parent.
pub const LADDER_DOCS: &[&str] = &["{\"a\":[{\"a\":[{\"a\":[1]}]}]}", "{}", "{\"a\":false}", "[[[[[[[[1]]]]]]]]"];

pub fn child_main(shape: &str, depth: usize, doc: usize) {
    let text = ladder_text(shape, depth);
    match jmespath::compile(&text) {
        Err(_) => println!("child: rejected"),
        Ok(e) => {
            let v = jmespath::Variable::from_json(LADDER_DOCS[doc % LADDER_DOCS.len()]).unwrap();
            match e.search(v) {
                Ok(_) => println!("child: searched"),
                Err(_) => println!("child: search error"),
            }
        }
    }
}

#[derive(Debug)]
pub enum ChildOutcome {
    Fine(String),
    Crashed(String),
    Timeout,
}

pub fn run_child(shape: &str, depth: usize, doc: usize, limit: Duration) -> ChildOutcome {
    let exe = std::env::current_exe().expect("current exe");
    let mut child = Command::new(exe)
        .args(["c05-child", shape, &depth.to_string(), &doc.to_string()])
        .stdout(Stdio::piped())
        .stderr(Stdio::null())
        .spawn()
        .expect("spawn child");
    let t0 = Instant::now();
    loop {
        match child.try_wait() {
            Ok(Some(status)) => {
                let mut out = String::new();
                if let Some(mut o) = child.stdout.take() {
                    use std::io::Read;
                    let _ = o.read_to_string(&mut out);
                }
                return if status.success() {
                    ChildOutcome::Fine(out.trim().to_string())
                } else {
                    ChildOutcome::Crashed(format!("{}", status))
                };
            }
            Ok(None) => {
                if t0.elapsed() > limit {
                    let _ = child.kill();
                    let _ = child.wait();
                    return ChildOutcome::Timeout;
                }
                std::thread::sleep(Duration::from_millis(5));
            }
            Err(e) => return ChildOutcome::Crashed(format!("wait failed: {}", e)),
        }
    }
}

fn ladder_case(shape: &str, depth: usize, doc: usize, st: &mut Stats) -> CaseResult {
    st.eval();
    let text_len = ladder_text(shape, depth).len();
    let case = json!({"shape": shape, "depth": depth, "doc": doc, "document": LADDER_DOCS[doc % LADDER_DOCS.len()], "expression_prefix": ladder_text(shape, 3), "expression_bytes": text_len});
    let limit = Duration::from_secs(if text_len <= 4096 { 20 } else { 60 });
    match run_child(shape, depth, doc, limit) {
        ChildOutcome::Fine(how) => {
            st.class(&format!("ladder:{}", how.replace("child: ", "")));
            if depth >= 64 && st.nontrivial(&format!("{}:{}:{}", shape, depth, doc)) {
                st.sample(|| json!({"shape": shape, "depth": depth, "doc": doc, "outcome": how}));
            }
            Ok(())
        }
        ChildOutcome::Crashed(status) => {
            let sig = if depth >= 256 { "stack-overflow-depth>=256" } else { "crash-below-depth-256" };
            Err(Failure::new("ladder", sig, format!("child process died ({}) on nesting shape '{}' at depth {}", status, shape, depth), case))
        }
        ChildOutcome::Timeout => {
            // an expression of at most 4 KiB that normally takes microseconds: confirm twice in
            // fresh processes with a longer limit before calling it a hang
            if text_len <= 4096 {
                let again = (0..2).all(|_| matches!(run_child(shape, depth, doc, Duration::from_secs(60)), ChildOutcome::Timeout));
                if again {
                    return Err(Failure::new(
                        "ladder",
                        "hang",
                        format!("compile+search of a {}-byte expression (shape '{}' x {}) did not finish within 60 s, three times in fresh processes", text_len, shape, depth),
                        case,
                    ));
                }
            }
            Err(Failure::new("ladder", "harness-timeout", format!("child exceeded its time limit on shape '{}' depth {}", shape, depth), case))
        }
    }
}

fn ladder(env: &Env, st: &mut Stats) -> Vec<Failure> {
    let depths: &[usize] = if env.tier == Tier::Thorough { &[16, 64, 128, 200, 255, 256, 1024, 4096, 16384, 65536, 262144] } else { &[16, 64, 255, 1024, 4096, 16384, 65536] };
    let mut fails = vec![];
    let results = std::sync::Mutex::new(vec![]);
    // run the children on a few worker threads
    let mut jobs: Vec<(&str, usize, usize)> = SHAPES.iter().flat_map(|s| depths.iter().map(move |d| (*s, *d, 0usize))).collect();
    // the same shapes on documents where the operands are missing / falsy / arrays (small depths only)
    for s in SHAPES {
        for d in [8usize, 24, 40, 64, 200] {
            for doc in 1..LADDER_DOCS.len() {
                jobs.push((*s, d, doc));
            }
        }
    }
    let next = std::sync::atomic::AtomicUsize::new(0);
    std::thread::scope(|sc| {
        for _ in 0..8 {
            sc.spawn(|| loop {
                let i = next.fetch_add(1, std::sync::atomic::Ordering::SeqCst);
                if i >= jobs.len() {
                    break;
                }
                let mut local = Stats::new();
                let r = ladder_case(jobs[i].0, jobs[i].1, jobs[i].2, &mut local);
                results.lock().unwrap().push((i, local, r));
            });
        }
    });
    let mut rs = results.into_inner().unwrap();
    rs.sort_by_key(|x| x.0);
    for (_, local, r) in rs {
        st.merge(local);
        if let Err(f) = r {
            fails.push(f);
        }
    }
    fails
}

fn replay_ladder(case: &Value, _env: &Env) -> CaseResult {
    let mut st = Stats::new();
    ladder_case(case["shape"].as_str().unwrap_or("not"), case["depth"].as_u64().unwrap_or(16) as usize, case["doc"].as_u64().unwrap_or(0) as usize, &mut st)
}

/// Public entry points that take a text and an offset from *different* sources:
/// JmespathError::new with any offset (inside a character, beyond the end) and
/// Expression::new with a label that is not the text the tree was parsed from,
/// followed by a failing search.  Nothing may panic.
fn api_totality(src: &mut Src, st: &mut Stats, _env: &Env) -> CaseResult {
    use jmespath::{ErrorReason, JmespathError};
    let n = src.size(60);
    let mut label = String::new();
    for _ in 0..n {
        match src.below(5) {
            0 => label.push_str(*src.pick(&["é", "日本", "😀", "€", "\n"])),
            _ => label.push(gen_char(src)),
        }
    }
    st.eval();
    // 1. the constructor with any offset
    let offset = match src.below(3) {
        0 => src.below(label.len() + 1),
        1 => label.len() + src.below(5),
        _ => src.below(4000),
    };
    let l2 = label.clone();
    if let Err(p) = catch(std::panic::AssertUnwindSafe(move || {
        let e = JmespathError::new(&l2, offset, ErrorReason::Parse("x".into()));
        let _ = e.to_string();
    })) {
        return Err(Failure::new("api-totality", "panic", format!("JmespathError::new / Display panicked: {}", p), json!({"text": label, "offset": offset})));
    }
    // 2. a cached tree under another label, searched so that it fails at run time
    let exprs = ["floor(price)", "a.b.nope(@)", "xs[::0]", "sort_by(xs, &to_array(@))", "`[1, 2]` | abs(@)", "          abs('x')", "not_null(z) || length(`1`)"];
    let text = *src.pick(&exprs);
    let ast = jmespath::parse(text).map_err(|e| Failure::new("api-totality", "harness-expr", e.to_string(), json!({})))?;
    let l3 = label.clone();
    let r = catch(std::panic::AssertUnwindSafe(move || {
        let ex = jmespath::Expression::new(l3, ast, &*jmespath::DEFAULT_RUNTIME);
        let v = jmespath::Variable::from_json("{\"price\":\"12.5\",\"xs\":[1,2],\"a\":{\"b\":1}}").unwrap();
        match ex.search(v) {
            Ok(_) => "ok".to_string(),
            Err(e) => e.to_string(),
        }
    }));
    if let Err(p) = r {
        return Err(Failure::new("api-totality", "panic", format!("search through Expression::new panicked: {}", p), json!({"label": label, "tree_of": text})));
    }
    // 3. user-declared signatures of every shape (no fixed parameter at all, only a variadic
    //    tail, nested typed arrays, unions) called with any number and kind of arguments
    {
        use jmespath::functions::{ArgumentType, CustomFunction, Signature};
        use jmespath::{Context, Rcvar, Runtime, Variable};
        let ty = |src: &mut Src| -> ArgumentType {
            match src.below(8) {
                0 => ArgumentType::Any,
                1 => ArgumentType::Number,
                2 => ArgumentType::String,
                3 => ArgumentType::Array,
                4 => ArgumentType::Expref,
                5 => ArgumentType::TypedArray(Box::new(ArgumentType::Number)),
                6 => ArgumentType::Union(vec![ArgumentType::Null, ArgumentType::TypedArray(Box::new(ArgumentType::Any))]),
                _ => ArgumentType::Union(vec![]),
            }
        };
        let n_in = src.below(4);
        let inputs: Vec<ArgumentType> = (0..n_in).map(|_| ty(src)).collect();
        let variadic = if src.flip() { Some(ty(src)) } else { None };
        let n_args = src.below(6);
        let args: Vec<&str> = (0..n_args).map(|_| *src.pick(&["`1`", "'s'", "xs", "&a", "a", "`null`", "`[[1], [2]]`", "`[1, \"x\"]`", "@"])).collect();
        let call = format!("f({})", args.join(", "));
        let desc = format!("{} inputs, variadic {}, call {}", n_in, variadic.is_some(), call);
        let r = catch(std::panic::AssertUnwindSafe(move || {
            let mut rt = Runtime::new();
            rt.register_builtin_functions();
            rt.register_function("f", Box::new(CustomFunction::new(Signature::new(inputs, variadic), Box::new(|a: &[Rcvar], _: &mut Context<'_>| Ok(Rcvar::new(Variable::Number(serde_json::Number::from(a.len() as u64))))))));
            let e = rt.compile(&call).map(|c| c.search(Variable::from_json("{\"xs\":[1,2],\"a\":{\"b\":1}}").unwrap()).map(|v| v.to_string()).map_err(|e| e.to_string()));
            format!("{:?}", e.map_err(|e| e.to_string()))
        }));
        if let Err(p) = r {
            return Err(Failure::new("api-totality", "panic", format!("a call of a user-declared function panicked: {}", p), json!({"signature_and_call": desc})));
        }
        st.class("custom-signature-call");
    }
    // 4. the value type's own accessors with any argument on any value (empty containers,
    //    index 0 from the end, huge indexes, every comparator on every pair, printing)
    {
        use jmespath::ast::Comparator;
        let vals = ["[]", "{}", "[1]", "[1, \"a\", null]", "{\"a\": 1}", "\"\"", "\"s\"", "0", "-0.0", "1.5", "18446744073709551615", "true", "null", "[[]]", "{\"\": {}}"];
        let (t1, t2) = (*src.pick(&vals), *src.pick(&vals));
        let idx = match src.below(4) {
            0 => 0usize,
            1 => src.below(4),
            2 => usize::MAX - src.below(2),
            _ => src.below(1 << 20),
        };
        let (a, b2, c) = (src.range(-3, 3) as i32, src.range(-3, 3) as i32, [1i32, -1, 2, -2, i32::MAX, i32::MIN + 1][src.below(6)]);
        let key = label.clone();
        let r = catch(std::panic::AssertUnwindSafe(move || {
            let v = jmespath::Variable::from_json(t1).unwrap();
            let w = jmespath::Variable::from_json(t2).unwrap();
            let _ = (v.get_index(idx), v.get_negative_index(idx), v.get_field(&key), v.get_field(""), v.get_field("a"));
            let _ = (v.is_truthy(), v.get_type().to_string(), v.as_array().map(|x| x.len()), v.as_object().map(|x| x.len()), v.as_string().cloned(), v.as_number(), v.as_boolean(), v.as_null(), v.is_expref());
            let _ = v.slice(if a == 0 { None } else { Some(a) }, if b2 == 0 { None } else { Some(b2) }, c);
            for op in [Comparator::Equal, Comparator::NotEqual, Comparator::LessThan, Comparator::LessThanEqual, Comparator::GreaterThan, Comparator::GreaterThanEqual] {
                let _ = (v.compare(&op, &w), w.compare(&op, &v), v.compare(&op, &v));
            }
            let _ = (v.cmp(&w), v.partial_cmp(&w), v == w, format!("{} {:?}", v, w), serde_json::to_string(&v).is_ok());
        }));
        if let Err(p) = r {
            return Err(Failure::new("api-totality", "panic", format!("a Variable accessor panicked: {}", p), json!({"value": t1, "other": t2, "index": idx, "slice": [a, b2, c]})));
        }
        st.class("variable-accessors");
    }
    // 5. Rust values of every shape handed to search() (the serde bridge must not panic)
    {
        let c1 = crate::gen_doc::gen_char(src);
        let c2 = *src.pick(&['a', '\u{7f}', '\u{80}', '\u{7ff}', '\u{800}', '\u{ffff}', '\u{10000}', '\u{10ffff}', '€', '日', '😀']);
        let s1 = label.clone();
        let n = src.u64();
        let f = f64::from_bits(src.u64());
        let r = catch(std::panic::AssertUnwindSafe(move || {
            let e = jmespath::compile("[@, type(@), to_string(@)]").unwrap();
            let _ = e.search(c1).is_ok();
            let _ = e.search(c2).is_ok();
            let _ = e.search((c1, c2, s1.as_str(), n, n as i64, n as u8, f, f as f32)).is_ok();
            let _ = e.search(vec![Some(c2), None]).is_ok();
            let _ = e.search(std::collections::BTreeMap::from([(c2, s1.clone()), (c1, String::new())])).is_ok();
            let _ = e.search(Some(())).is_ok();
            let _ = e.search([n, n.wrapping_add(1)]).is_ok();
            let _ = e.search(serde_json::json!({"k": [n, f.is_finite(), s1]})).is_ok();
        }));
        if let Err(p) = r {
            return Err(Failure::new("api-totality", "panic", format!("search on a Rust value panicked: {}", p), json!({"chars": [c1.to_string(), c2.to_string()], "number": n})));
        }
        st.class("typed-inputs");
    }
    if !label.is_ascii() && st.nontrivial(&format!("{}|{}|{}", label, offset, text)) {
        st.sample(|| json!({"label": label, "offset": offset, "tree_of": text}));
    }
    Ok(())
}

fn fixed_cases(_env: &Env, st: &mut Stats) -> Vec<Failure> {
    let mut out = vec![];
    for (e, d) in [("a[1::2147483647]", "{\"a\":[1,2,3]}"), ("a[-2147483648]", "{\"a\":[1]}"), ("a[-2147483648:2147483647:-2147483648]", "{\"a\":[1,2]}")] {
        if let Err(f) = total_on("cases", e, &[d], st) {
            out.push(f);
        }
    }
    out
}

fn fuzz_run(env: &Env, st: &mut Stats) -> Vec<Failure> {
    crate::fuzzing::campaign("total", env, st, 300)
}

fn fuzz_replay(case: &Value, env: &Env) -> CaseResult {
    crate::fuzzing::replay("total", case, env)
}

fn replay_case(case: &Value, _env: &Env) -> CaseResult {
    let mut st = Stats::new();
    total_on("cases", case["expression"].as_str().unwrap_or(""), &[case["document"].as_str().unwrap_or("null")], &mut st)
}

/// Totality on *data*: generated (typed, untyped and mutated) expressions over
/// documents that hold anything JSON can: arbitrary doubles, clusters of values
/// that are a unit in the last place apart or the same number in several
/// spellings (tens to hundreds of them in one array), strings sharing long
/// prefixes, nulls everywhere.  Only "no panic" is checked here.
fn data_totality(src: &mut Src, st: &mut Stats, _env: &Env) -> CaseResult {
    use crate::gen_doc::{gen_doc, gen_json, near_value_opt, DocOpts};
    use crate::model::J;
    let o = DocOpts { max_depth: 3, max_width: 4, wild_numbers: true, ..DocOpts::default() };
    let seed_val = match src.below(5) {
        0 => J::f([0.3, 1.0, 1e22, 100.0, 1.0 / 3.0, 5e-324, 1.7976931348623157e308, -2.5e15][src.below(8)]),
        1 => J::f(f64::from_bits(src.u64())),
        2 => J::Str(crate::gen_doc::gen_string(src)),
        _ => gen_json(src, 2, &o),
    };
    let seed_val = match seed_val {
        J::Num(crate::model::N::F(f)) if !f.is_finite() => J::int(0),
        other => other,
    };
    let mut cluster = vec![seed_val];
    for _ in 0..src.below(7) {
        let base = cluster[src.below(cluster.len())].clone();
        cluster.push(near_value_opt(&base, src, true));
    }
    let n = match src.below(4) {
        0 => src.below(6),
        1 => 18 + src.below(16),
        2 => 21 + src.below(80),
        _ => src.size(300),
    };
    let xs: Vec<J> = (0..n).map(|_| cluster[src.below(cluster.len())].clone()).collect();
    let objs: Vec<J> = xs
        .iter()
        .enumerate()
        .map(|(i, v)| J::Obj([("i".to_string(), J::int(i as i64)), ("k".to_string(), v.clone()), ("n".to_string(), v.clone()), ("s".to_string(), J::Str(format!("s{}", i % 3)))].into_iter().collect()))
        .collect();
    let mut doc = match gen_doc(src, &o) {
        J::Obj(m) => m,
        _ => Default::default(),
    };
    doc.insert("xs".to_string(), J::Arr(xs.clone()));
    doc.insert("nums".to_string(), J::Arr(xs));
    doc.insert("objs".to_string(), J::Arr(objs));
    let dt = J::Obj(doc).to_json();
    let text = match src.below(6) {
        0 | 1 => src
            .pick(&[
                "sort(xs)", "sort_by(objs, &k)", "max(xs)", "min(xs)", "max_by(objs, &k)", "min_by(objs, &k)", "sort_by(objs, &k)[*].i", "sum(xs)", "avg(xs)", "reverse(sort(xs))", "sort(xs)[0]", "xs[?@ < xs[0]]", "xs == xs",
                "contains(xs, xs[0])", "join(',', xs)", "sort_by(objs, &to_string(k))", "sort(map(&to_string(@), xs))", "objs[?k >= `0`].i", "merge(objs[0], objs[-1])", "xs[*] == xs[::-1]", "to_string(xs)", "map(&abs(@), xs)",
                "map(&ceil(@), xs)", "map(&floor(@), xs)", "map(&to_number(to_string(@)), xs)", "sort_by(objs, &abs(k))", "max_by(objs, &length(to_string(k)))", "keys(objs[0])", "length(xs)", "not_null(xs[0], xs[1])",
            ])
            .to_string(),
        2 => {
            let d = 1 + src.below(3);
            let t = crate::gen_typed::gen_typed(src, d);
            crate::props::c01::spell_tree(&t, src, st).map(|x| x.0).unwrap_or_else(|| "@".into())
        }
        3 => crate::syn::gen_sentence(src, st, 3).unwrap_or_else(|| "@".into()),
        4 => {
            let a = crate::syn::gen_sentence(src, st, 2).unwrap_or_else(|| "a".into());
            crate::syn::mutate(&a, "xs[0]", src).0
        }
        _ => crate::syn::gen_failing_text(src, st),
    };
    total_on("data-totality", &text, &[&dt], st)
}

pub fn property() -> Property {
    Property {
        id: "C05",
        rule: RULE,
        assumptions: vec![
            "a panic is observed with overflow checks and debug assertions ON (harness release profile), so a silently wrapping integer counts as a failure".into(),
            "in-process inputs stay below 4 KiB and nesting depth ~60; deeper nesting only in child processes".into(),
            "non-termination is only observable as a time-out: a case running longer than 60 s stops the run with exit 2 (inconclusive), it is not reported as a violation".into(),
        ],
        minimise: None,
        subs: vec![
            Sub::Bytes(BytesSub { name: "strings", f: strings, max_len: 1500, quick: Budget { threads: 8, cases: 24000 }, thorough: Budget { threads: 16, cases: 400_000 }, keep_unreproducible: false }),
            Sub::Bytes(BytesSub { name: "arithmetic", f: arithmetic, max_len: 64, quick: Budget { threads: 8, cases: 60000 }, thorough: Budget { threads: 16, cases: 1_000_000 }, keep_unreproducible: false }),
            Sub::Bytes(BytesSub { name: "builtin-calls", f: builtin_calls, max_len: 32, quick: Budget { threads: 8, cases: 30000 }, thorough: Budget { threads: 16, cases: 300_000 }, keep_unreproducible: false }),
            Sub::Bytes(BytesSub { name: "data-totality", f: data_totality, max_len: 2500, quick: Budget { threads: 8, cases: 8000 }, thorough: Budget { threads: 16, cases: 300_000 }, keep_unreproducible: false }),
            Sub::Bytes(BytesSub { name: "api-totality", f: api_totality, max_len: 300, quick: Budget { threads: 4, cases: 12000 }, thorough: Budget { threads: 16, cases: 100_000 }, keep_unreproducible: false }),
            Sub::Custom(CustomSub { name: "ladder", run: ladder, replay: replay_ladder }),
            Sub::Custom(CustomSub { name: "cases", run: fixed_cases, replay: replay_case }),
            Sub::Custom(CustomSub { name: "fuzz-total", run: fuzz_run, replay: fuzz_replay }),
        ],
    }
}
