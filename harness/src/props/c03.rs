//! C03 — compile accepts exactly the JMESPath language.

use serde_json::{json, Value};

use crate::corpus::corpus;
use crate::gen_doc::gen_char;
use crate::runner::*;
use crate::src::Src;
use crate::syn::*;

pub const RULE: &str = "strings = sentences printed from generated trees (all spellings), one-edit mutants of them (token delete/insert/replace/duplicate/swap, char delete/insert, truncation, splice), token soup over the complete vocabulary, arbitrary Unicode strings, lexical corner cases, and every compliance expression; oracle = strict reference grammar accepts <=> compile accepts (and parse agrees with compile, rejection is a Parse error); non-trivial = a rejected string one edit away from a sentence, or an accepted sentence with >= 8 tokens (distinct by text)";

fn note(st: &mut Stats, text: &str, v: Verdict, near_miss: bool) {
    let ntok = token_classes(text).map(|t| t.len().saturating_sub(1)).unwrap_or(0);
    match v {
        Verdict::BothAccept => {
            st.class("accepted");
            if ntok >= 8 && st.nontrivial(text) {
                st.sample(|| json!({"expression": text, "verdict": "accepted"}));
            }
        }
        Verdict::BothReject => {
            if near_miss {
                st.class("rejected-near-miss");
                if st.nontrivial(text) {
                    st.sample(|| json!({"expression": text, "verdict": "rejected"}));
                }
            } else {
                st.class("rejected-other");
            }
        }
    }
    if let Some(cl) = token_classes(text) {
        if !st.frozen {
            let h = crate::src::fnv(cl.join(" ").as_bytes());
            if st.nontrivial.len() < 4_000_000 {
                // distinct token-class sequences are tracked as a class count
                if SEQS.with(|s| s.borrow_mut().insert(h)) {
                    st.class("distinct-token-class-sequences");
                }
            }
        }
    }
}

thread_local! {
    static SEQS: std::cell::RefCell<std::collections::HashSet<u64>> = std::cell::RefCell::new(Default::default());
}

fn sentences(src: &mut Src, st: &mut Stats, _env: &Env) -> CaseResult {
    let depth = 2 + src.below(5);
    let text = match gen_sentence(src, st, depth) {
        Some(t) => t,
        None => {
            st.discard();
            return Ok(());
        }
    };
    let before = disturb(src, st);
    st.eval();
    let v = compare_accept("sentences", &text).map_err(|mut f| {
        f.case["preceded_by_failing_compiles"] = json!(before);
        f
    })?;
    if v != Verdict::BothAccept {
        return Err(Failure::new("sentences", "harness-generator", "generated sentence rejected by both".into(), json!({"expression": text})));
    }
    note(st, &text, v, false);
    Ok(())
}

fn mutants(src: &mut Src, st: &mut Stats, _env: &Env) -> CaseResult {
    let depth = 1 + src.below(4);
    let a = match gen_sentence(src, st, depth) {
        Some(t) => t,
        None => {
            st.discard();
            return Ok(());
        }
    };
    let b2 = gen_sentence(src, st, 2).unwrap_or_else(|| "a".to_string());
    let (m, kind) = mutate(&a, &b2, src);
    st.eval();
    st.class(&format!("mutation:{}", kind));
    let v = compare_accept("mutants", &m)?;
    note(st, &m, v, true);
    // sometimes a second edit
    if src.chance(60) {
        let (m2, _) = mutate(&m, &b2, src);
        st.eval();
        let v = compare_accept("mutants", &m2)?;
        note(st, &m2, v, false);
    }
    Ok(())
}

fn soup(src: &mut Src, st: &mut Stats, _env: &Env) -> CaseResult {
    let text = gen_soup(src);
    st.eval();
    let v = compare_accept("soup", &text)?;
    note(st, &text, v, false);
    Ok(())
}

fn chars(src: &mut Src, st: &mut Stats, _env: &Env) -> CaseResult {
    let n = src.below(12);
    let mut s = String::new();
    for _ in 0..n {
        if src.chance(100) {
            s.push_str(*src.pick(VOCAB));
        } else {
            s.push(gen_char(src));
        }
    }
    st.eval();
    let v = compare_accept("chars", &s)?;
    note(st, &s, v, false);
    Ok(())
}

/// Lexical corner cases: numbers around the i32 limits, '-' forms, quoted
/// forms with escapes, bracket tokens with and without inner whitespace.
fn lexical(src: &mut Src, st: &mut Stats, _env: &Env) -> CaseResult {
    let text = gen_lexical(src);
    st.eval();
    let v = compare_accept("lexical", &text)?;
    note(st, &text, v, true);
    Ok(())
}

/// Lexical corner-case generator (shared with C05).
pub fn gen_lexical(src: &mut Src) -> String {
    let num = |src: &mut Src| -> String {
        match src.below(8) {
            0 => format!("{}", src.range(-3, 3)),
            1 => format!("{}", (1i64 << 31) + src.range(-3, 3)),
            2 => format!("{}", -(1i64 << 31) + src.range(-3, 3)),
            3 => format!("-0{}", src.below(3)),
            4 => format!("{}{}", "0".repeat(1 + src.size(60)), src.below(2147483647)),
            5 => "- 1".to_string(),
            6 => format!("-{}{}", *src.pick(&["٣", "¹", "a", "", " ", "-1", "+1", "１", "½", "²", "①", "०", "৩", "٠"]), if src.flip() { "5" } else { "" }),
            _ => format!("{}{}", src.below(10), "0".repeat(src.below(14))),
        }
    };
    let quoted = |src: &mut Src| -> String {
        let d = *src.pick(&['\'', '"', '`']);
        let mut body = String::new();
        for _ in 0..src.below(6) {
            match src.below(8) {
                0 => body.push('\\'),
                1 => body.push(d),
                2 => {
                    body.push('\\');
                    body.push(d);
                }
                3 => body.push_str(*src.pick(&["\\u00e9", "\\ud83d\\ude00", "\\ud83d", "\\n", "\\x", "\\\\", "\\/", "1", "true", "\"", "[1]", "{\"a\":1}", "nul"])),
                _ => body.push(gen_char(src)),
            }
        }
        if d == '`' && src.flip() {
            body = format!("\"{}\"", body);
        }
        if src.chance(70) {
            // a JSON text (or almost one), bare or padded with blanks of every kind:
            // only JSON's own four blanks may surround the value of a literal
            body = crate::gen_doc::gen_jsonish(src).replace('`', "");
            if d == '"' {
                body = body.replace('"', "");
            }
            if d == '\'' {
                body = body.replace('\'', "");
            }
        }
        let close = if src.chance(230) { d.to_string() } else { String::new() };
        format!("{}{}{}", d, body, close)
    };
    let text = match src.below(10) {
        0 => format!("a[{}]", num(src)),
        1 => format!("a[{}:{}:{}]", num(src), num(src), num(src)),
        2 => num(src),
        3 => quoted(src),
        4 => format!("a.{}", quoted(src)),
        5 => format!("{} == {}", quoted(src), quoted(src)),
        6 => src.pick(&["a[ ]", "a[]", "[ ]", "[]", "a[ ?b]", "a[?b]", "a[? b]", "a| |b", "a||b", "a& &b", "a&&b", "a= =b", "a==b", "a! =b", "a!=b", "a< =b", "a<=b", "a > = b", "[ * ]", "[*]", "a[ * ]", "a[*]", "a [0]", "a [ 0 ]", "a[0 ]", "{ a : b }", "f ( a )", "a . b", "a .* . b", "@ . a", "! a", "a[:\t:]", "a[: :]"]).to_string(),
        7 => format!("{}{}", src.pick(&["a", "@", "*", "[0]", "'x'", "`1`", "\"k\"", "f(a)", "a.b", "[a]", "{a:b}"]), src.pick(&["", ".", "..", ".b", "[", "]", "[0", "[0]", "[*", "[*]", "[]", "[?", "[?a", "[?a]", "(", ")", "()", "{", "}", ",", ":", "|", "||", "&", "&&", "!", "==", "*", ".*", "-", "=", "`", "'", "\""])),
        8 => format!("f({})", (0..src.below(4)).map(|_| src.pick(&["a", "&a", "&&a", "& &a", "", " ", "a b", "(a)", "&(a)", "a,"]).to_string()).collect::<Vec<_>>().join(",")),
        _ => format!("{}({})", src.pick(&["f", "\"f\"", "(f)", "@", "a.f", "'f'", "`1`", "f ", "f.g", "[f]", "!f", "&f", "*"]), src.pick(&["", "a", "a,b", "&a"])),
    };
    text
}

fn corpus_all(_env: &Env, st: &mut Stats) -> Vec<Failure> {
    let mut fails = vec![];
    for e in corpus().expressions() {
        st.eval();
        match compare_accept("corpus", e) {
            Ok(v) => note(st, e, v, true),
            Err(f) => fails.push(f),
        }
    }
    fails
}

/// Enumerated repeat family (see syn::REPEAT_FORMS): every count up to 600.
fn repeats(env: &Env, st: &mut Stats) -> Vec<Failure> {
    let mut fails = vec![];
    for form in 0..REPEAT_FORMS.len() {
        for k in repeat_counts(env.tier == Tier::Thorough) {
            let text = repeat_text(form, k);
            st.eval();
            match compare_accept("repeats", &text) {
                Ok(v) => {
                    st.class(if v == Verdict::BothAccept { "repeats:accepted" } else { "repeats:rejected" });
                    if k >= 64 {
                        st.nontrivial(&format!("repeat:{}:{}", form, k));
                    }
                }
                Err(f) => {
                    // keep the case small: form and count identify it
                    let mut f = f;
                    f.case = json!({"form": form, "count": k, "expression_prefix": repeat_text(form, 3)});
                    fails.push(f);
                    break;
                }
            }
        }
    }
    st.sample(|| json!({"repeat_form": repeat_text(3, 4), "counts": "0..=600"}));
    fails
}

fn replay_repeat(case: &Value, _env: &Env) -> CaseResult {
    let text = repeat_text(case["form"].as_u64().unwrap_or(0) as usize, case["count"].as_u64().unwrap_or(0) as usize);
    compare_accept("repeats", &text).map(|_| ())
}

/// Exhaustive small scope: every token sequence up to a length bound over a
/// token alphabet (with and without blanks between the tokens).
fn enumerate(env: &Env, st: &mut Stats) -> Vec<Failure> {
    let thorough = env.tier == Tier::Thorough;
    let mut plan: Vec<(&[&str], usize)> = vec![];
    for l in 1..=(if thorough { 6 } else { 5 }) {
        plan.push((ENUM_WIDE, l));
    }
    plan.push((ENUM_NARROW, 6));
    if thorough {
        plan.push((ENUM_NARROW, 7));
    }
    let mut fails = vec![];
    for (alphabet, len) in plan {
        let fs = enumerate_tokens(alphabet, len, 16, env, st, |text, local| {
            let v = compare_accept("enumerate", text)?;
            if v == Verdict::BothAccept {
                local.class("enumerate:accepted");
                local.nontrivial(text);
            } else {
                local.class("enumerate:rejected");
            }
            Ok(())
        });
        st.class_n(&format!("enumerate:{}-tokens-over-{}", len, alphabet.len()), 2 * (alphabet.len() as u64).pow(len as u32));
        fails.extend(fs);
        if !fails.is_empty() {
            break;
        }
    }
    st.sample(|| json!({"enumerated": "all token sequences", "alphabet": ENUM_WIDE, "up_to_tokens": 5}));
    fails
}

fn replay_enumerated(case: &Value, _env: &Env) -> CaseResult {
    for t in case["preceded_by_failing_compiles"].as_array().cloned().unwrap_or_default() {
        replay_disturbance(t.as_str().unwrap_or(""));
    }
    compare_accept("enumerate", case["expression"].as_str().unwrap_or("")).map(|_| ())
}

fn fuzz_run(env: &Env, st: &mut Stats) -> Vec<Failure> {
    crate::fuzzing::campaign("syntax_diff", env, st, 240)
}

fn fuzz_replay(case: &Value, env: &Env) -> CaseResult {
    crate::fuzzing::replay("syntax_diff", case, env)
}

fn replay_text(case: &Value, _env: &Env) -> CaseResult {
    compare_accept("corpus", case["expression"].as_str().unwrap_or("")).map(|_| ())
}

pub fn property() -> Property {
    Property {
        id: "C03",
        rule: RULE,
        assumptions: vec![
            "the reference grammar (ABNF at token level + documented lexical rules) is the language; it is validated against syntax.json and all other compliance expressions by `check selftest`".into(),
            "JSON validity of literals is delegated to serde_json on both sides; unrepresentable numerals and nesting > 128 are not generated".into(),
        ],
        minimise: None,
        subs: vec![
            Sub::Custom(CustomSub { name: "corpus", run: corpus_all, replay: replay_text }),
            Sub::Custom(CustomSub { name: "repeats", run: repeats, replay: replay_repeat }),
            Sub::Custom(CustomSub { name: "enumerate", run: enumerate, replay: replay_enumerated }),
            Sub::Custom(CustomSub { name: "fuzz-syntax_diff", run: fuzz_run, replay: fuzz_replay }),
            Sub::Bytes(BytesSub { name: "sentences", f: sentences, max_len: 1500, quick: Budget { threads: 16, cases: 6000 }, thorough: Budget { threads: 16, cases: 80_000 }, keep_unreproducible: false }),
            Sub::Bytes(BytesSub { name: "mutants", f: mutants, max_len: 1200, quick: Budget { threads: 16, cases: 10000 }, thorough: Budget { threads: 16, cases: 300_000 }, keep_unreproducible: false }),
            Sub::Bytes(BytesSub { name: "soup", f: soup, max_len: 64, quick: Budget { threads: 16, cases: 12000 }, thorough: Budget { threads: 16, cases: 400_000 }, keep_unreproducible: false }),
            Sub::Bytes(BytesSub { name: "chars", f: chars, max_len: 64, quick: Budget { threads: 4, cases: 5000 }, thorough: Budget { threads: 16, cases: 200_000 }, keep_unreproducible: false }),
            Sub::Bytes(BytesSub { name: "lexical", f: lexical, max_len: 96, quick: Budget { threads: 16, cases: 12000 }, thorough: Budget { threads: 16, cases: 300_000 }, keep_unreproducible: false }),
        ],
    }
}
