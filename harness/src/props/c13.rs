//! C13 — compile and search are pure (history independence).

use serde_json::json;

use crate::gen_doc::{gen_doc, DocOpts};
use crate::gen_typed::{gen_typed, schema_doc};
use crate::imp::classify;
use crate::model::J;
use crate::props::c01::spell_tree;
use crate::refeval;
use crate::refparse::{self, Mode};
use crate::runner::*;
use crate::shape::var_to_j;
use crate::src::Src;
use crate::syn::{gen_sentence, mutate};

pub const RULE: &str = "histories of up to 60 operations (compile, parse, clone, drop, search through four conversion routes: owned Variable, Rcvar, &Rcvar, serde_json::Value) over a pool of 6 generated expressions (valid core and typed-function expressions, non-sentences, expressions failing at run time, by-functions) and 5 shared documents; model = a pure table: every search of a pair equals the reference evaluation and every earlier result of that pair, every compile/parse of a string gives the identical tree (offsets included) or identical error, clones behave like their source, shared documents serialise to their initial text at the end; custom-history: the same kind of history on a runtime built by the case (CustomFunctions with fixed / variadic signatures, a closure overriding a built-in, with or without built-ins) with expressions compiled from it, cloned and rebuilt through Expression::new, every search compared with a closed-form model of the call; non-trivial = the history repeats a pair after a different, failing search (distinct by history text)";

#[derive(Clone, Debug)]
enum Outcome {
    Val(J),
    Err(String),
}

fn outcome_eq(a: &Outcome, b2: &Outcome) -> bool {
    match (a, b2) {
        (Outcome::Val(x), Outcome::Val(y)) => x.exact_eq(y),
        (Outcome::Err(x), Outcome::Err(y)) => x == y,
        _ => false,
    }
}

fn show(o: &Outcome) -> String {
    match o {
        Outcome::Val(j) => j.to_json(),
        Outcome::Err(e) => format!("error {}", e),
    }
}

fn history_body(src: &mut Src, st: &mut Stats) -> CaseResult {
    // pools
    let mut exprs: Vec<String> = vec![];
    for _ in 0..6 {
        let e = match src.below(6) {
            0 | 1 => {
                let d = 1 + src.below(3);
                let t = gen_typed(src, d);
                spell_tree(&t, src, st).map(|x| x.0)
            }
            2 => gen_sentence(src, st, 3),
            3 => {
                if src.flip() {
                    let a = gen_sentence(src, st, 2).unwrap_or_else(|| "a".into());
                    Some(mutate(&a, "b", src).0)
                } else {
                    // fails in the lexer after some tokens, in the parser, or at once
                    Some(crate::syn::gen_failing_text(src, st))
                }
            }
            4 if src.flip() => Some(
                // no data references at all: the result may still depend on the document (a multi-select on null is null)
                src.pick(&["{a: n, b: s, c: nums, a: s}", "{a: abs(s), b: length(n), c: nums[0], a: n}", "{k: `1`, k: `2`, j: n, i: s, k: s}", "{x: n, y: s, z: b, w: z, x: nums, y: strs}", "`1`", "`1.0`", "[`1`, `1.0`]", "`0`", "`-0.0`", "`100`", "`1e2`", "`9007199254740992`", "`9007199254740993`", "`0.3`", "n == `1`", "n == `1.0`", "[length('abc')]", "{k: sort(`[3,1,2]`)}", "[abs(`-1`), 'x']", "to_array(`1`)", "not_null(`null`, 'd')", "[`1`, `2`] | [0]", "'lit'", "{a: 'x', b: length(`[1]`)}", "[[length('ab')]]", "length('x') && [type(`1`)]"]).to_string(),
            ),
            4 => Some(src.pick(&["sort_by(objs, &m)", "max_by(objs, &m)", "min_by(objs, &m)", "sort_by(objs, &m) | [0]", "s == 'a b'", "o.\"k k\"", "strs[?@ == 'a b']", "`{\"a b\": 1}`.\"a b\"", "join(' , ', strs)", "nope(@)", "abs('x')", "nums[::0]", "sort_by(objs, &to_array(n))", "map(&abs(s), objs)", "objs[*].abs(s)", "length(n)", "sum(strs)",
                // by-functions whose key expression itself fails on some later element
                "sort_by(objs, &abs(m))", "sort_by(objs, &length(m))", "max_by(objs, &abs(m))", "min_by(objs, &length(m))", "sort_by(objs, &abs(s))", "sort_by(objs, &n)[*].id", "sort_by(objs, &s)[0]", "map(&abs(m), objs)",
                "sort_by(objs[1:], &abs(m))", "sort_by(objs, &[n][0])", "sort_by(objs, &max([n, `0`]))", "max_by(objs, &length(s))", "sort(nums)", "sort(strs)"]).to_string()),
            _ => Some(src.pick(&["sort_by(objs, &k)", "max_by(objs, &n)", "map(&length(s), objs)", "objs[?n > `0`].s", "nums[::-1]", "merge(o, o2)", "@", "keys(o)"]).to_string()),
        };
        let mut e = e.unwrap_or_else(|| "@".to_string());
        // often a near-duplicate of an expression already in the pool: the same text with a
        // different amount of whitespace inside a literal, another letter case, another digit ...
        if !exprs.is_empty() && src.chance(90) {
            let base = exprs[src.below(exprs.len())].clone();
            e = crate::syn::near_duplicate(&base, src);
        }
        exprs.push(e);
    }
    let mut docs: Vec<J> = vec![];
    for i in 0..5 {
        docs.push(match i {
            0 | 1 => schema_doc(src),
            2 => {
                // a big table: at least 64 rows (size thresholds), some rows with a string `m`
                let mut d = schema_doc(src);
                if let J::Obj(m) = &mut d {
                    let n = 64 + src.below(80);
                    let flip_at = 1 + src.below(n - 1);
                    let rows: Vec<J> = (0..n)
                        .map(|i| {
                            let mut o = std::collections::BTreeMap::new();
                            o.insert("id".to_string(), J::int(i as i64));
                            o.insert("k".to_string(), J::int((i % 3) as i64));
                            o.insert("n".to_string(), J::int((n - i) as i64));
                            o.insert("s".to_string(), J::Str(format!("s{}", i % 7)));
                            o.insert("t".to_string(), J::Arr(vec![]));
                            o.insert("m".to_string(), if i == flip_at { J::s("mixed") } else { J::int(i as i64) });
                            J::Obj(o)
                        })
                        .collect();
                    m.insert("objs".to_string(), J::Arr(rows));
                }
                d
            }
            3 => match src.below(4) {
                0 => J::Null,
                1 => J::Arr(vec![]),
                2 => J::Obj(Default::default()),
                _ => gen_doc(src, &DocOpts::default()),
            },
            _ => gen_doc(src, &DocOpts::default()),
        });
    }
    // sometimes two of the documents are "the same" under a tolerant notion of equality and
    // different as JSON: every integer leaf moved beyond 2^53, where neighbours share a double
    let mut lifted = false;
    if src.chance(70) {
        lifted = true;
        fn lift(v: &J, add: i128) -> J {
            match v {
                J::Num(crate::model::N::Int(i)) if i.abs() < 1000 => J::Num(crate::model::N::Int((1i128 << 53) + 2 * i.abs() + add)),
                J::Arr(a) => J::Arr(a.iter().map(|x| lift(x, add)).collect()),
                J::Obj(o) => J::Obj(o.iter().map(|(k, x)| (k.clone(), lift(x, add))).collect()),
                other => other.clone(),
            }
        }
        let base = docs[0].clone();
        docs[0] = lift(&base, 0);
        docs[1] = lift(&base, 1);
    }
    let doc_texts: Vec<String> = docs.iter().map(|d| d.to_json()).collect();
    let shared: Vec<jmespath::Rcvar> = doc_texts.iter().map(|t| jmespath::Rcvar::new(jmespath::Variable::from_json(t).unwrap())).collect();
    let values: Vec<serde_json::Value> = doc_texts.iter().map(|t| serde_json::from_str(t).unwrap()).collect();

    let mut handles: Vec<(usize, jmespath::Expression<'static>)> = vec![];
    let mut table: std::collections::HashMap<(usize, usize), Outcome> = Default::default();
    let mut asts: std::collections::HashMap<usize, Result<jmespath::ast::Ast, String>> = Default::default();
    let mut renderings: std::collections::HashMap<usize, (String, String, String)> = Default::default();
    // the tree of every pooled text, taken before anything else happens on this (fresh) thread
    for (i, e) in exprs.iter().enumerate() {
        asts.insert(i, jmespath::parse(e).map_err(|e| format!("{:?}", e)));
    }
    let mut log: Vec<String> = vec![];
    let mut last_failed_pair: Option<(usize, usize)> = None;
    let mut nontrivial = false;
    let n_ops = 5 + src.below(56);
    st.eval();
    let case = |log: &Vec<String>, exprs: &Vec<String>, docs: &Vec<String>| json!({"history": log, "expressions": exprs, "documents": docs});

    for _ in 0..n_ops {
        match src.weighted(&[4, 2, 2, 1, 12, 1]) {
            5 => {
                // an expression object assembled by hand whose text and tree do not belong
                // together (text of one pooled expression, tree of another), searched once:
                // whatever that leaves behind must not change what the text compiles to
                let (i, j) = (src.below(exprs.len()), src.below(exprs.len()));
                if let Ok(tree) = jmespath::parse(&exprs[j]) {
                    log.push(format!("Expression::new(text of e{}, tree of e{})", i, j));
                    let odd = jmespath::Expression::new(exprs[i].clone(), tree, &*jmespath::DEFAULT_RUNTIME);
                    let d = src.below(shared.len());
                    let _ = catch(std::panic::AssertUnwindSafe(|| odd.search(&shared[d]).is_ok()));
                }
            }
            0 | 1 => {
                // compile / parse: identical tree or identical error every time
                let i = src.below(exprs.len());
                let use_parse = src.flip();
                log.push(format!("{}({})", if use_parse { "parse" } else { "compile" }, i));
                let got: Result<jmespath::ast::Ast, String> = if use_parse {
                    jmespath::parse(&exprs[i]).map_err(|e| format!("{:?}", e))
                } else {
                    match jmespath::compile(&exprs[i]) {
                        Ok(c) => {
                            let a = c.as_ast().clone();
                            // what a compiled expression shows of itself (text, Display, Debug) is a
                            // function of the compiled string: the same every time it is compiled
                            let shown = (c.as_str().to_string(), c.to_string(), format!("{:?}", c));
                            match renderings.get(&i) {
                                None => {
                                    renderings.insert(i, shown);
                                }
                                Some(prev) if prev != &shown => {
                                    return Err(Failure::new("history", "compiled-text-differs", format!("as_str / Display / Debug were {:?} when this string was compiled before and are {:?} now", prev, shown), case(&log, &exprs, &doc_texts)));
                                }
                                _ => {}
                            }
                            // an expression assembled through the public constructor from the same text
                            // and tree, and a clone, behave like a freshly compiled one -- also under ==
                            let built = jmespath::Expression::new(exprs[i].clone(), a.clone(), &*jmespath::DEFAULT_RUNTIME);
                            if let Ok(fresh) = jmespath::compile(&exprs[i]) {
                                #[allow(clippy::eq_op)]
                                let self_eq = c == c;
                                if (built == c) != (fresh == c) || built.as_ast() != c.as_ast() || (c.clone() == c) != self_eq || (fresh == c) != self_eq {
                                    return Err(Failure::new("history", "expression-equality-wrong", "Expression::new / clone / a second compile do not compare with the compiled expression the way it compares with itself".into(), case(&log, &exprs, &doc_texts)));
                                }
                            }
                            handles.push((i, if src.flip() { built } else { c }));
                            Ok(a)
                        }
                        Err(e) => Err(format!("{:?}", e)),
                    }
                };
                match asts.get(&i) {
                    None => {
                        asts.insert(i, got);
                    }
                    Some(prev) => {
                        // (compared through the Debug text as well: `==` on trees compares literal
                        // numbers by value, 1 and 1.0 would pass for the same tree)
                        if prev != &got || format!("{:?}", prev) != format!("{:?}", got) {
                            return Err(Failure::new(
                                "history",
                                "compile-not-deterministic",
                                format!("expression {} compiled differently the second time", i),
                                case(&log, &exprs, &doc_texts),
                            ));
                        }
                    }
                }
            }
            2 => {
                if !handles.is_empty() {
                    let h = src.below(handles.len());
                    log.push(format!("clone(h{})", h));
                    let c = handles[h].clone();
                    handles.push(c);
                }
            }
            3 => {
                if !handles.is_empty() {
                    let h = src.below(handles.len());
                    log.push(format!("drop(h{})", h));
                    handles.remove(h);
                }
            }
            _ => {
                if handles.is_empty() {
                    continue;
                }
                let h = src.below(handles.len());
                let j = src.below(shared.len());
                let route = src.below(4);
                let (i, ex) = (&handles[h].0, &handles[h].1);
                log.push(format!("search(h{}=e{}, d{}, route{})", h, i, j, route));
                let r = catch(std::panic::AssertUnwindSafe(|| match route {
                    0 => ex.search(shared[j].clone()),
                    1 => ex.search(&shared[j]),
                    2 => ex.search(&values[j]),
                    _ => ex.search((*shared[j]).clone()),
                }));
                let out = match r {
                    Err(p) => return Err(Failure::new("history", "panic", p, case(&log, &exprs, &doc_texts))),
                    Ok(Ok(v)) => Outcome::Val(var_to_j(&v)),
                    Ok(Err(e)) => {
                        let c = classify(&e);
                        Outcome::Err(format!("{} off={} line={} col={} expr={:?}", c.detail, c.offset, c.line, c.column, c.expression))
                    }
                };
                // a re-used (cloned, long-lived) expression behaves like a freshly compiled one
                if let Ok(fresh) = jmespath::compile(&exprs[*i]) {
                    let fr = catch(std::panic::AssertUnwindSafe(|| fresh.search(&shared[j])));
                    let fo = match fr {
                        Err(p) => return Err(Failure::new("history", "panic", p, case(&log, &exprs, &doc_texts))),
                        Ok(Ok(v)) => Outcome::Val(var_to_j(&v)),
                        Ok(Err(e)) => {
                            let c = classify(&e);
                            Outcome::Err(format!("{} off={} line={} col={} expr={:?}", c.detail, c.offset, c.line, c.column, c.expression))
                        }
                    };
                    if !outcome_eq(&fo, &out) {
                        return Err(Failure::new(
                            "history",
                            "reused-expression-differs-from-fresh",
                            format!("search of e{} on d{} through a long-lived handle gave {} but a freshly compiled expression gives {}", i, j, show(&out), show(&fo)),
                            case(&log, &exprs, &doc_texts),
                        ));
                    }
                }
                let key = (*i, j);
                match table.get(&key) {
                    Some(prev) => {
                        if !outcome_eq(prev, &out) {
                            return Err(Failure::new(
                                "history",
                                "search-depends-on-history",
                                format!("search of e{} on d{} gave {} earlier and {} now", i, j, show(prev), show(&out)),
                                case(&log, &exprs, &doc_texts),
                            ));
                        }
                        if let Some(lf) = last_failed_pair {
                            if lf != key {
                                nontrivial = true;
                            }
                        }
                    }
                    None => {
                        // first observation: must agree with the reference evaluation
                        // (integers lifted beyond 2^53 are outside the reference model's well-separated numbers)
                        if lifted && j < 2 {
                            table.insert(key, out.clone());
                            continue;
                        }
                        if let Ok(tree) = refparse::parse(&exprs[*i], Mode::RelaxedExpref) {
                            let mut cx = refeval::Ctx::default();
                            let want = refeval::eval(&tree, &docs[j], &mut cx);
                            let agrees = match (&want, &out) {
                                (Ok(w), Outcome::Val(g)) => w.approx_eq(g, 1e-9) || !cx.ambiguous.is_empty(),
                                (Err(refeval::EvalErr::Unspecified(_)), _) => true,
                                (Err(_), Outcome::Err(_)) => true,
                                _ => !cx.ambiguous.is_empty(),
                            };
                            if !agrees {
                                return Err(Failure::new(
                                    "history",
                                    "search-result-wrong",
                                    format!("search of e{} on d{} gave {} but the reference gives {:?}", i, j, show(&out), want.map(|w| w.to_json())),
                                    case(&log, &exprs, &doc_texts),
                                ));
                            }
                        }
                        table.insert(key, out.clone());
                    }
                }
                if matches!(out, Outcome::Err(_)) {
                    last_failed_pair = Some(key);
                }
            }
        }
    }
    // searching never changes the documents it was given
    for (j, rc) in shared.iter().enumerate() {
        let now = var_to_j(rc);
        if !now.exact_eq(&docs[j]) || rc.to_string() != jmespath::Variable::from_json(&doc_texts[j]).unwrap().to_string() {
            return Err(Failure::new("history", "shared-document-changed", format!("document {} changed", j), case(&log, &exprs, &doc_texts)));
        }
        let vnow = J::from_value(&values[j]);
        if !vnow.exact_eq(&docs[j]) {
            return Err(Failure::new("history", "shared-document-changed", format!("serde value {} changed", j), case(&log, &exprs, &doc_texts)));
        }
    }
    st.class_n("ops", log.len() as u64);
    if nontrivial && st.nontrivial(&log.join(";")) {
        st.sample(|| json!({"history": log, "expressions": exprs}));
    }
    Ok(())
}

/// Histories on a runtime built by the case itself: user functions declared with
/// signatures (`CustomFunction`), a closure overriding a built-in, with or without the
/// built-ins registered.  Expressions are compiled from that runtime, cloned, re-assembled
/// through `Expression::new`, dropped and searched in generated order; every search must
/// equal a closed-form model of the call (arity first, then parameter types, then the
/// function's value) and every earlier result of the same pair.
fn custom_history(src: &mut Src, st: &mut Stats, _env: &Env) -> CaseResult {
    use jmespath::functions::{ArgumentType, CustomFunction, Signature};
    use jmespath::{Context, Rcvar, Runtime, Variable};
    let bare = src.chance(70);
    let override_abs = src.chance(90);
    let builtins_first = src.flip();
    let mut rt = Runtime::new();
    let num = |x: f64| Rcvar::new(Variable::Number(serde_json::Number::from_f64(x).unwrap()));
    let register_custom = |rt: &mut Runtime| {
        let add2 = move |a: &[Rcvar], _: &mut Context<'_>| -> Result<Rcvar, jmespath::JmespathError> {
            // (called only after the declared signature was validated)
            match (a.first().and_then(|x| x.as_number()), a.get(1).and_then(|x| x.as_number()), a.len()) {
                (Some(x), Some(y), 2) => Ok(num(x + y)),
                _ => Ok(Rcvar::new(Variable::String(format!("add2 was called with {} arguments although its signature says two numbers", a.len())))),
            }
        };
        rt.register_function("add2", Box::new(CustomFunction::new(Signature::new(vec![ArgumentType::Number, ArgumentType::Number], None), Box::new(add2))));
        let cat = |a: &[Rcvar], _: &mut Context<'_>| -> Result<Rcvar, jmespath::JmespathError> {
            let parts: Vec<String> = a.iter().map(|x| x.as_string().cloned().unwrap_or_else(|| "<cat was handed a non-string>".to_string())).collect();
            Ok(Rcvar::new(Variable::String(if parts.is_empty() { "<cat was called without arguments>".to_string() } else { parts.join("") })))
        };
        rt.register_function("cat", Box::new(CustomFunction::new(Signature::new(vec![ArgumentType::String], Some(ArgumentType::String)), Box::new(cat))));
        let first_or = |a: &[Rcvar], _: &mut Context<'_>| -> Result<Rcvar, jmespath::JmespathError> {
            match (a.first().and_then(|x| x.as_array()), a.get(1), a.len()) {
                (Some(items), Some(d), 2) => Ok(items.first().cloned().unwrap_or_else(|| d.clone())),
                _ => Ok(Rcvar::new(Variable::String(format!("first_or was called with {} arguments although its signature says (array, any)", a.len())))),
            }
        };
        rt.register_function("first_or", Box::new(CustomFunction::new(Signature::new(vec![ArgumentType::Array, ArgumentType::Any], None), Box::new(first_or))));
    };
    if !bare && builtins_first {
        rt.register_builtin_functions();
    }
    register_custom(&mut rt);
    if override_abs {
        rt.register_function("abs", Box::new(|a: &[Rcvar], _: &mut Context<'_>| Ok(Rcvar::new(Variable::String(format!("abs!{}", a.len()))))));
    }
    if !bare && !builtins_first {
        // registering the built-ins afterwards replaces the override of `abs`
        rt.register_builtin_functions();
    }
    let abs_is_override = override_abs && (bare || builtins_first);
    // the document
    let (a, b) = (src.range(-50, 50), src.range(-50, 50));
    let (s, t) = (src.pick(&["x", "", "é", "a b"]).to_string(), src.pick(&["y", "zz", "日本"]).to_string());
    let xs: Vec<i64> = (0..src.below(4)).map(|_| src.range(-9, 9)).collect();
    let doc_j = J::Obj(
        [
            ("a".to_string(), J::int(a)),
            ("b".to_string(), J::int(b)),
            ("s".to_string(), J::s(&s)),
            ("t".to_string(), J::s(&t)),
            ("xs".to_string(), J::Arr(xs.iter().map(|x| J::int(*x)).collect())),
            ("e".to_string(), J::Arr(vec![])),
        ]
        .into_iter()
        .collect(),
    );
    let doc_text = doc_j.to_json();
    let doc = Rcvar::new(Variable::from_json(&doc_text).unwrap());
    let value: serde_json::Value = serde_json::from_str(&doc_text).unwrap();
    // atoms and their values
    let atom_val = |atom: &str| -> J {
        match atom {
            "a" => J::int(a),
            "b" => J::int(b),
            "s" => J::s(&s),
            "t" => J::s(&t),
            "xs" => J::Arr(xs.iter().map(|x| J::int(*x)).collect()),
            "e" => J::Arr(vec![]),
            "`3`" => J::int(3),
            "'lit'" => J::s("lit"),
            _ => J::Null,
        }
    };
    let atoms = ["a", "b", "s", "t", "xs", "e", "`3`", "'lit'", "missing"];
    // one call and its modelled outcome: Ok(value) or Err(class)
    let model_call = |f: &str, args: &[&str]| -> Result<J, &'static str> {
        let vals: Vec<J> = args.iter().map(|x| atom_val(x)).collect();
        let is_num = |j: &J| matches!(j, J::Num(_));
        let is_str = |j: &J| matches!(j, J::Str(_));
        let arity = |lo: usize, hi: Option<usize>| -> Result<(), &'static str> {
            if vals.len() < lo {
                Err("NotEnoughArguments")
            } else if hi.map_or(false, |h| vals.len() > h) {
                Err("TooManyArguments")
            } else {
                Ok(())
            }
        };
        match f {
            "add2" => {
                arity(2, Some(2))?;
                if !vals.iter().all(is_num) {
                    return Err("InvalidType");
                }
                let n = |j: &J| if let J::Num(crate::model::N::Int(i)) = j { *i as i64 } else { 0 };
                Ok(J::int(n(&vals[0]) + n(&vals[1])))
            }
            "cat" => {
                arity(1, None)?;
                if !vals.iter().all(is_str) {
                    return Err("InvalidType");
                }
                Ok(J::Str(vals.iter().map(|j| if let J::Str(x) = j { x.clone() } else { String::new() }).collect::<Vec<_>>().join("")))
            }
            "first_or" => {
                arity(2, Some(2))?;
                match &vals[0] {
                    J::Arr(items) => Ok(items.first().cloned().unwrap_or_else(|| vals[1].clone())),
                    _ => Err("InvalidType"),
                }
            }
            "abs" if abs_is_override => Ok(J::Str(format!("abs!{}", vals.len()))),
            "abs" if bare => Err("UnknownFunction"),
            "abs" => {
                arity(1, Some(1))?;
                match &vals[0] {
                    J::Num(crate::model::N::Int(i)) => Ok(J::int(i.abs() as i64)),
                    _ => Err("InvalidType"),
                }
            }
            _ => Err("UnknownFunction"),
        }
    };
    // the pool: (text, modelled outcome)
    let mut exprs: Vec<(String, Result<J, &'static str>)> = vec![];
    let gen_call = |src: &mut Src| -> (String, Result<J, &'static str>) {
        let f = *src.pick(&["add2", "add2", "cat", "first_or", "abs", "nope"]);
        let n = src.below(4);
        let args: Vec<&str> = (0..n)
            .map(|_| {
                // mostly arguments of the declared type
                if src.chance(170) {
                    match f {
                        "add2" | "abs" => *src.pick(&["a", "b", "`3`"]),
                        "cat" => *src.pick(&["s", "t", "'lit'"]),
                        _ => *src.pick(&["xs", "e", "a", "s"]),
                    }
                } else {
                    *src.pick(&atoms)
                }
            })
            .collect();
        (format!("{}({})", f, args.join(", ")), model_call(f, &args))
    };
    for _ in 0..(2 + src.below(5)) {
        let (t1, m1) = gen_call(src);
        let item = match src.below(6) {
            0 => {
                let (t2, m2) = gen_call(src);
                let m = match (m1, m2) {
                    (Err(c), _) => Err(c),
                    (_, Err(c)) => Err(c),
                    (Ok(x), Ok(y)) => Ok(J::Arr(vec![x, y])),
                };
                (format!("[{}, {}]", t1, t2), m)
            }
            1 => {
                let m = if xs.is_empty() { Ok(J::Arr(vec![])) } else { Ok(J::Arr(xs.iter().map(|x| J::int(*x + 1)).collect())) };
                ("xs[*].add2(@, `1`)".to_string(), m)
            }
            2 => {
                // the same function called with different argument counts at two call sites
                let f = *src.pick(&["add2", "first_or", "cat"]);
                let (few, full): (Vec<&str>, Vec<&str>) = match f {
                    "add2" => (vec!["a"], vec!["a", "b"]),
                    "first_or" => (vec!["xs"], vec!["xs", "s"]),
                    _ => (vec![], vec!["s", "t"]),
                };
                let (x, y) = if src.flip() { (few, full) } else { (full, few) };
                let m = match (model_call(f, &x), model_call(f, &y)) {
                    (Err(c), _) => Err(c),
                    (_, Err(c)) => Err(c),
                    (Ok(p), Ok(q)) => Ok(J::Arr(vec![p, q])),
                };
                (format!("[{}({}), {}({})]", f, x.join(", "), f, y.join(", ")), m)
            }
            _ => (t1, m1),
        };
        exprs.push(item);
    }
    let case = |log: &Vec<String>| json!({"runtime": {"builtins": !bare, "builtins_registered_first": builtins_first, "abs_overridden_by_closure": override_abs}, "history": log, "expressions": exprs.iter().map(|e| e.0.clone()).collect::<Vec<_>>(), "document": doc_text});
    let mut log: Vec<String> = vec![];
    let mut handles: Vec<(usize, jmespath::Expression<'_>)> = vec![];
    let mut table: std::collections::HashMap<usize, Outcome> = Default::default();
    let mut repeats = 0;
    st.eval();
    for _ in 0..(6 + src.below(40)) {
        match src.weighted(&[4, 3, 2, 1, 12]) {
            0 => {
                let i = src.below(exprs.len());
                log.push(format!("compile(e{})", i));
                match rt.compile(&exprs[i].0) {
                    Ok(c) => handles.push((i, c)),
                    Err(e) => return Err(Failure::new("custom-history", "compile-fails", format!("{:?} does not compile on the custom runtime: {}", exprs[i].0, e), case(&log))),
                }
            }
            1 => {
                if !handles.is_empty() {
                    let h = src.below(handles.len());
                    log.push(format!("clone(h{})", h));
                    let c = handles[h].clone();
                    handles.push(c);
                }
            }
            2 => {
                if !handles.is_empty() {
                    let h = src.below(handles.len());
                    log.push(format!("Expression::new(text and tree of h{}, the same runtime)", h));
                    let e = jmespath::Expression::new(handles[h].1.as_str(), handles[h].1.as_ast().clone(), &rt);
                    handles.push((handles[h].0, e));
                }
            }
            3 => {
                if !handles.is_empty() {
                    let h = src.below(handles.len());
                    log.push(format!("drop(h{})", h));
                    handles.remove(h);
                }
            }
            _ => {
                if handles.is_empty() {
                    continue;
                }
                let h = src.below(handles.len());
                let route = src.below(3);
                let (i, ex) = (handles[h].0, &handles[h].1);
                log.push(format!("search(h{}=e{}, route{})", h, i, route));
                let r = catch(std::panic::AssertUnwindSafe(|| match route {
                    0 => ex.search(&doc),
                    1 => ex.search(&value),
                    _ => ex.search((*doc).clone()),
                }));
                let (out, class) = match r {
                    Err(p) => return Err(Failure::new("custom-history", "panic", p, case(&log))),
                    Ok(Ok(v)) => (Outcome::Val(var_to_j(&v)), None),
                    Ok(Err(e)) => {
                        let c = classify(&e);
                        (Outcome::Err(format!("{} off={} line={} col={}", c.detail, c.offset, c.line, c.column)), Some(c.class))
                    }
                };
                let agrees = match (&exprs[i].1, &out) {
                    (Ok(w), Outcome::Val(g)) => w.approx_eq(g, 1e-9),
                    (Err(c), Outcome::Err(_)) => class.as_deref() == Some(*c),
                    _ => false,
                };
                if !agrees {
                    return Err(Failure::new(
                        "custom-history",
                        "search-result-wrong",
                        format!("search of {:?} gave {} but the model of the registered functions gives {}", exprs[i].0, show(&out), match &exprs[i].1 { Ok(w) => w.to_json(), Err(c) => format!("error {}", c) }),
                        case(&log),
                    ));
                }
                match table.get(&i) {
                    Some(prev) => {
                        repeats += 1;
                        if !outcome_eq(prev, &out) {
                            return Err(Failure::new("custom-history", "search-depends-on-history", format!("search of {:?} gave {} earlier and {} now", exprs[i].0, show(prev), show(&out)), case(&log)));
                        }
                    }
                    None => {
                        table.insert(i, out);
                    }
                }
            }
        }
    }
    if doc.to_string() != Variable::from_json(&doc_text).unwrap().to_string() {
        return Err(Failure::new("custom-history", "shared-document-changed", "the document changed".into(), case(&log)));
    }
    st.class(if bare { "custom-history:bare-runtime" } else { "custom-history:with-builtins" });
    if repeats > 0 && st.nontrivial(&format!("{:?}{}", log, doc_text)) {
        st.sample(|| json!({"history": log, "expressions": exprs.iter().map(|e| e.0.clone()).collect::<Vec<_>>()}));
    }
    Ok(())
}

fn hex(data: &[u8]) -> String {
    data.iter().map(|b| format!("{:02x}", b)).collect()
}

fn unhex(s: &str) -> Vec<u8> {
    (0..s.len() / 2).filter_map(|i| u8::from_str_radix(&s[2 * i..2 * i + 2], 16).ok()).collect()
}

/// Run one history on a fresh thread (thread-local state of the library starts empty).
fn run_fresh_thread(bytes: Vec<u8>, st: &mut Stats) -> CaseResult {
    let frozen = st.frozen;
    let h = std::thread::Builder::new().stack_size(256 << 20).spawn(move || {
        let mut local = Stats::new();
        local.frozen = frozen;
        let mut src = Src::new(&bytes);
        let r = catch(std::panic::AssertUnwindSafe(|| history_body(&mut src, &mut local)));
        (r, local)
    });
    match h.map(|h| h.join()) {
        Ok(Ok((Ok(r), local))) => {
            st.merge(local);
            r
        }
        Ok(Ok((Err(p), _))) => Err(Failure::new("history", "panic", p, json!({}))),
        _ => Err(Failure::new("history", "harness-thread", "could not run the history thread".into(), json!({}))),
    }
}

/// Executed in a fresh child process: run the given histories one after the
/// other on one thread; print the failure of the LAST one, if it fails.
pub fn child_main() {
    install_panic_hook();
    let mut input = String::new();
    let _ = std::io::Read::read_to_string(&mut std::io::stdin(), &mut input);
    let v: serde_json::Value = serde_json::from_str(&input).unwrap_or(json!({}));
    let seq: Vec<Vec<u8>> = v["sequence"].as_array().cloned().unwrap_or_default().iter().map(|x| unhex(x.as_str().unwrap_or(""))).collect();
    let mut last: CaseResult = Ok(());
    for bytes in &seq {
        let mut st = Stats::new();
        let mut src = Src::new(bytes);
        last = match catch(std::panic::AssertUnwindSafe(|| history_body(&mut src, &mut st))) {
            Ok(r) => r,
            Err(p) => Err(Failure::new("history", "panic", p, json!({}))),
        };
    }
    match last {
        Ok(()) => println!("{}", json!({"ok": true})),
        Err(f) => println!("{}", json!({"ok": false, "sig": f.sig, "message": f.message, "case": f.case})),
    }
}

/// Some(failure) if the last history of the sequence fails in a fresh process.
fn confirm_in_child(seq: &[Vec<u8>]) -> Result<Option<Failure>, String> {
    use std::io::Write;
    let exe = std::env::current_exe().map_err(|e| e.to_string())?;
    let mut child = std::process::Command::new(exe)
        .arg("c13-child")
        .stdin(std::process::Stdio::piped())
        .stdout(std::process::Stdio::piped())
        .stderr(std::process::Stdio::null())
        .spawn()
        .map_err(|e| e.to_string())?;
    let payload = json!({"sequence": seq.iter().map(|b| hex(b)).collect::<Vec<_>>()}).to_string();
    {
        let mut si = child.stdin.take().unwrap();
        let _ = si.write_all(payload.as_bytes());
    }
    let out = child.wait_with_output().map_err(|e| e.to_string())?;
    if !out.status.success() {
        return Ok(Some(Failure::new("history", "crash", format!("child process died: {}", out.status), json!({}))));
    }
    let v: serde_json::Value = serde_json::from_str(String::from_utf8_lossy(&out.stdout).trim()).map_err(|e| e.to_string())?;
    if v["ok"].as_bool() == Some(true) {
        Ok(None)
    } else {
        Ok(Some(Failure::new("history", v["sig"].as_str().unwrap_or("?"), v["message"].as_str().unwrap_or("").to_string(), v["case"].clone())))
    }
}

thread_local! {
    /// every history this runner thread has executed so far, in order
    static EXECUTED: std::cell::RefCell<Vec<Vec<u8>>> = std::cell::RefCell::new(vec![]);
}

/// Long runs on one thread: hundreds to thousands of searches, a good share of
/// them failing in the middle of a nested construct (inside an argument, a
/// projection body, a comparison member, the left side of a pipe).  Whatever
/// accumulates per thread (counters, pools, budgets) must not change any
/// outcome: every pair is re-checked against its first outcome all along.
fn long_history(src: &mut Src, st: &mut Stats, _env: &Env) -> CaseResult {
    let mut bytes = vec![];
    while !src.exhausted() {
        bytes.push(src.byte());
    }
    let b2 = bytes.clone();
    let h = std::thread::Builder::new().stack_size(256 << 20).spawn(move || {
        let mut src = Src::new(&b2);
        let failing = [
            "[abs(s)]", "objs[*].abs(s)", "length(n) == `1`", "abs(s) | @", "map(&abs(s), objs)", "objs[?abs(s) > `1`]", "{k: nope(@)}", "not_null(z, abs(s))", "sort_by(objs, &abs(s))", "nums[::0]",
            "[nums[0], nums[::0]]", "objs[*].[length(n)]", "to_array(abs(s))[0]", "abs(s)", "a | abs(@)", "!length(n)", "o.*.abs(@)", "strs[*].abs(@) | [0]",
        ];
        let fine = ["n", "objs[*].s", "a.b.c[1]", "sort_by(objs, &n)[0].s", "length(strs)", "nums[?@ > `0`]", "{k: n, l: [s, n]}", "o.*", "max(nums)", "a.b.c.d.e.f.g.h.i.j.k.l.m.n.o.p", "[[[[[[[[[[n]]]]]]]]]]", "not_null(z, z, n)"];
        let n_expr = 4 + src.below(8);
        let exprs: Vec<String> = (0..n_expr).map(|i| if i % 2 == 0 { src.pick(&fine).to_string() } else { src.pick(&failing).to_string() }).collect();
        let docs: Vec<String> = (0..3).map(|_| schema_doc(&mut src).to_json()).collect();
        let compiled: Vec<Option<jmespath::Expression<'static>>> = exprs.iter().map(|e| jmespath::compile(e).ok()).collect();
        let vars: Vec<jmespath::Rcvar> = docs.iter().map(|d| jmespath::Rcvar::new(jmespath::Variable::from_json(d).unwrap())).collect();
        let outcome = |i: usize, j: usize| -> String {
            match &compiled[i] {
                None => "does not compile".to_string(),
                Some(c) => match c.search(&vars[j]) {
                    Ok(v) => format!("ok {}", var_to_j(&v).to_json()),
                    Err(e) => {
                        let c = classify(&e);
                        format!("err {} off={}", c.detail, c.offset)
                    }
                },
            }
        };
        let mut first: std::collections::HashMap<(usize, usize), String> = Default::default();
        for i in 0..exprs.len() {
            for j in 0..docs.len() {
                first.insert((i, j), outcome(i, j));
            }
        }
        let n_ops = 300 + src.below(2200);
        let mut failing_runs = 0usize;
        for k in 0..n_ops {
            // mostly the failing ones, now and then a check of everything
            let i = if src.chance(200) { 1 + 2 * src.below(exprs.len() / 2) } else { src.below(exprs.len()) };
            let i = i.min(exprs.len() - 1);
            let j = src.below(docs.len());
            let got = outcome(i, j);
            if got.starts_with("err") {
                failing_runs += 1;
            }
            if got != first[&(i, j)] {
                return Err((format!("after {} searches on this thread ({} of them failing), {:?} on document {} gives {} (at first: {})", k, failing_runs, exprs[i], j, got, first[&(i, j)]), exprs.clone(), docs.clone(), k));
            }
            // a freshly compiled expression must agree as well
            if k % 97 == 0 {
                for (i2, e) in exprs.iter().enumerate() {
                    if let Ok(c) = jmespath::compile(e) {
                        let fresh = match c.search(&vars[0]) {
                            Ok(v) => format!("ok {}", var_to_j(&v).to_json()),
                            Err(e) => {
                                let c = classify(&e);
                                format!("err {} off={}", c.detail, c.offset)
                            }
                        };
                        if fresh != first[&(i2, 0)] {
                            return Err((format!("after {} searches on this thread ({} failing), a fresh compile of {:?} gives {} (at first: {})", k, failing_runs, e, fresh, first[&(i2, 0)]), exprs.clone(), docs.clone(), k));
                        }
                    }
                }
            }
        }
        Ok((n_ops, failing_runs))
    });
    st.eval();
    match h.expect("spawn").join() {
        Ok(Ok((n, f))) => {
            st.class_n("long-history:searches", n as u64);
            st.class_n("long-history:failing-searches", f as u64);
            if f >= 100 && st.nontrivial(&format!("{:?}", &bytes[..bytes.len().min(64)])) {
                st.sample(|| json!({"searches": n, "failing": f}));
            }
            Ok(())
        }
        Ok(Err((m, exprs, docs, k))) => Err(Failure::new("long-history", "outcome-changes-over-a-long-run", m, json!({"expressions": exprs, "documents": docs, "searches_before": k}))),
        Err(_) => Err(Failure::new("long-history", "panic", "the history thread panicked".into(), json!({}))),
    }
}

fn history(src: &mut Src, st: &mut Stats, _env: &Env) -> CaseResult {
    // take the whole choice sequence of this case
    let mut bytes = vec![];
    while !src.exhausted() {
        bytes.push(src.byte());
    }
    EXECUTED.with(|e| e.borrow_mut().push(bytes.clone()));
    let fail = match run_fresh_thread(bytes.clone(), st) {
        Ok(()) => return Ok(()),
        Err(f) => f,
    };
    if fail.sig.starts_with("harness-") {
        return Err(fail);
    }
    // 1. a standalone reproducer?  (fresh process, this history alone)
    match confirm_in_child(&[bytes.clone()]) {
        Ok(Some(f)) => return Err(f),
        Ok(None) => {}
        Err(m) => return Err(Failure::new("history", "harness-child", m, json!({}))),
    }
    // 2. the outcome depends on histories executed earlier in this process:
    //    find a sequence of earlier histories that reproduces it in a fresh process
    let all: Vec<Vec<u8>> = EXECUTED.with(|e| e.borrow().clone());
    let mut seq = all;
    match confirm_in_child(&seq) {
        Ok(Some(_)) => {
            // drop earlier histories in chunks while the last one still fails
            let mut chunk = (seq.len() / 2).max(1);
            let mut budget = 60;
            while budget > 0 {
                let mut i = 0;
                while i + 1 < seq.len() && budget > 0 {
                    let end = (i + chunk).min(seq.len() - 1);
                    let mut cand = seq.clone();
                    cand.drain(i..end);
                    budget -= 1;
                    if matches!(confirm_in_child(&cand), Ok(Some(_))) {
                        seq = cand;
                    } else {
                        i += chunk;
                    }
                }
                if chunk == 1 {
                    break;
                }
                chunk /= 2;
            }
            let case = json!({"sequence": seq.iter().map(|b| hex(b)).collect::<Vec<_>>()});
            let mut f = Failure::new(
                "history",
                "outcome-depends-on-earlier-histories",
                format!("{} -- only after {} earlier histories were executed in the same process (thread-local or static state survives between calls)", fail.message, seq.len() - 1),
                json!({"last_history": fail.case, "earlier_histories": seq.len() - 1}),
            );
            f.replay_override = Some(("sequence".to_string(), json!({"kind": "case", "case": case})));
            Err(f)
        }
        _ => {
            // not reproducible from this runner's own stream (state shared between threads):
            // still a dependence on something other than the inputs
            let mut f = fail;
            f.sig = "outcome-depends-on-earlier-histories".into();
            Err(f)
        }
    }
}

fn no_run(_env: &Env, _st: &mut Stats) -> Vec<Failure> {
    vec![]
}

fn replay_sequence(case: &serde_json::Value, _env: &Env) -> CaseResult {
    let seq: Vec<Vec<u8>> = case["sequence"].as_array().cloned().unwrap_or_default().iter().map(|x| unhex(x.as_str().unwrap_or(""))).collect();
    match confirm_in_child(&seq) {
        Ok(None) => Ok(()),
        Ok(Some(mut f)) => {
            if seq.len() > 1 {
                f.sig = "outcome-depends-on-earlier-histories".into();
            }
            Err(f)
        }
        Err(m) => Err(Failure::new("sequence", "harness-child", m, json!({}))),
    }
}

pub fn property() -> Property {
    Property {
        id: "C13",
        rule: RULE,
        assumptions: vec![
            "the first result of a pair is additionally compared with the reference evaluation unless the reference flags the case as one with several valid answers".into(),
            "all operations of one history run on one thread against the shared default runtime".into(),
        ],
        minimise: None,
        subs: vec![
            Sub::Bytes(BytesSub { name: "history", f: history, max_len: 4000, quick: Budget { threads: 8, cases: 1500 }, thorough: Budget { threads: 16, cases: 60_000 }, keep_unreproducible: true }),
            Sub::Bytes(BytesSub { name: "long-history", f: long_history, max_len: 12000, quick: Budget { threads: 8, cases: 30 }, thorough: Budget { threads: 16, cases: 1500 }, keep_unreproducible: true }),
            Sub::Bytes(BytesSub { name: "custom-history", f: custom_history, max_len: 1500, quick: Budget { threads: 4, cases: 1500 }, thorough: Budget { threads: 16, cases: 40_000 }, keep_unreproducible: false }),
            Sub::Custom(CustomSub { name: "sequence", run: no_run, replay: replay_sequence }),
        ],
    }
}
