//! C13 — compile and search are pure (history independence).

use serde_json::json;

use crate::gen_doc::{gen_doc, DocOpts};
use crate::gen_typed::{gen_typed, schema_doc};
use crate::imp::classify;
use crate::model::J;
use crate::props::c01::spell_tree;
use crate::refeval;
use crate::refparse::{self, Mode};
use crate::runner::*;
use crate::shape::var_to_j;
use crate::src::Src;
use crate::syn::{gen_sentence, mutate};

pub const RULE: &str = "histories of up to 60 operations (compile, parse, clone, drop, search through four conversion routes: owned Variable, Rcvar, &Rcvar, serde_json::Value) over a pool of 6 generated expressions (valid core and typed-function expressions, non-sentences, expressions failing at run time, by-functions) and 5 shared documents; model = a pure table: every search of a pair equals the reference evaluation and every earlier result of that pair, every compile/parse of a string gives the identical tree (offsets included) or identical error, clones behave like their source, shared documents serialise to their initial text at the end; non-trivial = the history repeats a pair after a different, failing search (distinct by history text)";

#[derive(Clone, Debug)]
enum Outcome {
    Val(J),
    Err(String),
}

fn outcome_eq(a: &Outcome, b2: &Outcome) -> bool {
    match (a, b2) {
        (Outcome::Val(x), Outcome::Val(y)) => x.exact_eq(y),
        (Outcome::Err(x), Outcome::Err(y)) => x == y,
        _ => false,
    }
}

fn show(o: &Outcome) -> String {
    match o {
        Outcome::Val(j) => j.to_json(),
        Outcome::Err(e) => format!("error {}", e),
    }
}

fn history(src: &mut Src, st: &mut Stats, _env: &Env) -> CaseResult {
    // pools
    let mut exprs: Vec<String> = vec![];
    for _ in 0..6 {
        let e = match src.below(6) {
            0 | 1 => {
                let d = 1 + src.below(3);
                let t = gen_typed(src, d);
                spell_tree(&t, src, st).map(|x| x.0)
            }
            2 => gen_sentence(src, st, 3),
            3 => {
                let a = gen_sentence(src, st, 2).unwrap_or_else(|| "a".into());
                Some(mutate(&a, "b", src).0)
            }
            4 => Some(src.pick(&["nope(@)", "abs('x')", "nums[::0]", "sort_by(objs, &to_array(n))", "map(&abs(s), objs)", "objs[*].abs(s)", "length(n)", "sum(strs)"]).to_string()),
            _ => Some(src.pick(&["sort_by(objs, &k)", "max_by(objs, &n)", "map(&length(s), objs)", "objs[?n > `0`].s", "nums[::-1]", "merge(o, o2)", "@", "keys(o)"]).to_string()),
        };
        exprs.push(e.unwrap_or_else(|| "@".to_string()));
    }
    let mut docs: Vec<J> = vec![];
    for i in 0..5 {
        docs.push(if i < 3 { schema_doc(src) } else { gen_doc(src, &DocOpts::default()) });
    }
    let doc_texts: Vec<String> = docs.iter().map(|d| d.to_json()).collect();
    let shared: Vec<jmespath::Rcvar> = doc_texts.iter().map(|t| jmespath::Rcvar::new(jmespath::Variable::from_json(t).unwrap())).collect();
    let values: Vec<serde_json::Value> = doc_texts.iter().map(|t| serde_json::from_str(t).unwrap()).collect();

    let mut handles: Vec<(usize, jmespath::Expression<'static>)> = vec![];
    let mut table: std::collections::HashMap<(usize, usize), Outcome> = Default::default();
    let mut asts: std::collections::HashMap<usize, Result<jmespath::ast::Ast, String>> = Default::default();
    let mut log: Vec<String> = vec![];
    let mut last_failed_pair: Option<(usize, usize)> = None;
    let mut nontrivial = false;
    let n_ops = 5 + src.below(56);
    st.eval();
    let case = |log: &Vec<String>, exprs: &Vec<String>, docs: &Vec<String>| json!({"history": log, "expressions": exprs, "documents": docs});

    for _ in 0..n_ops {
        match src.weighted(&[4, 2, 2, 1, 12]) {
            0 | 1 => {
                // compile / parse: identical tree or identical error every time
                let i = src.below(exprs.len());
                let use_parse = src.flip();
                log.push(format!("{}({})", if use_parse { "parse" } else { "compile" }, i));
                let got: Result<jmespath::ast::Ast, String> = if use_parse {
                    jmespath::parse(&exprs[i]).map_err(|e| format!("{:?}", e))
                } else {
                    match jmespath::compile(&exprs[i]) {
                        Ok(c) => {
                            let a = c.as_ast().clone();
                            if c.as_str() != exprs[i] {
                                return Err(Failure::new("history", "compiled-text-differs", format!("as_str() = {:?}", c.as_str()), case(&log, &exprs, &doc_texts)));
                            }
                            handles.push((i, c));
                            Ok(a)
                        }
                        Err(e) => Err(format!("{:?}", e)),
                    }
                };
                match asts.get(&i) {
                    None => {
                        asts.insert(i, got);
                    }
                    Some(prev) => {
                        if prev != &got {
                            return Err(Failure::new(
                                "history",
                                "compile-not-deterministic",
                                format!("expression {} compiled differently the second time", i),
                                case(&log, &exprs, &doc_texts),
                            ));
                        }
                    }
                }
            }
            2 => {
                if !handles.is_empty() {
                    let h = src.below(handles.len());
                    log.push(format!("clone(h{})", h));
                    let c = handles[h].clone();
                    handles.push(c);
                }
            }
            3 => {
                if !handles.is_empty() {
                    let h = src.below(handles.len());
                    log.push(format!("drop(h{})", h));
                    handles.remove(h);
                }
            }
            _ => {
                if handles.is_empty() {
                    continue;
                }
                let h = src.below(handles.len());
                let j = src.below(shared.len());
                let route = src.below(4);
                let (i, ex) = (&handles[h].0, &handles[h].1);
                log.push(format!("search(h{}=e{}, d{}, route{})", h, i, j, route));
                let r = catch(std::panic::AssertUnwindSafe(|| match route {
                    0 => ex.search(shared[j].clone()),
                    1 => ex.search(&shared[j]),
                    2 => ex.search(&values[j]),
                    _ => ex.search((*shared[j]).clone()),
                }));
                let out = match r {
                    Err(p) => return Err(Failure::new("history", "panic", p, case(&log, &exprs, &doc_texts))),
                    Ok(Ok(v)) => Outcome::Val(var_to_j(&v)),
                    Ok(Err(e)) => {
                        let c = classify(&e);
                        Outcome::Err(format!("{} off={} line={} col={} expr={:?}", c.detail, c.offset, c.line, c.column, c.expression))
                    }
                };
                let key = (*i, j);
                match table.get(&key) {
                    Some(prev) => {
                        if !outcome_eq(prev, &out) {
                            return Err(Failure::new(
                                "history",
                                "search-depends-on-history",
                                format!("search of e{} on d{} gave {} earlier and {} now", i, j, show(prev), show(&out)),
                                case(&log, &exprs, &doc_texts),
                            ));
                        }
                        if let Some(lf) = last_failed_pair {
                            if lf != key {
                                nontrivial = true;
                            }
                        }
                    }
                    None => {
                        // first observation: must agree with the reference evaluation
                        if let Ok(tree) = refparse::parse(&exprs[*i], Mode::RelaxedExpref) {
                            let mut cx = refeval::Ctx::default();
                            let want = refeval::eval(&tree, &docs[j], &mut cx);
                            let agrees = match (&want, &out) {
                                (Ok(w), Outcome::Val(g)) => w.approx_eq(g, 1e-9) || !cx.ambiguous.is_empty(),
                                (Err(refeval::EvalErr::Unspecified(_)), _) => true,
                                (Err(_), Outcome::Err(_)) => true,
                                _ => !cx.ambiguous.is_empty(),
                            };
                            if !agrees {
                                return Err(Failure::new(
                                    "history",
                                    "search-result-wrong",
                                    format!("search of e{} on d{} gave {} but the reference gives {:?}", i, j, show(&out), want.map(|w| w.to_json())),
                                    case(&log, &exprs, &doc_texts),
                                ));
                            }
                        }
                        table.insert(key, out.clone());
                    }
                }
                if matches!(out, Outcome::Err(_)) {
                    last_failed_pair = Some(key);
                }
            }
        }
    }
    // searching never changes the documents it was given
    for (j, rc) in shared.iter().enumerate() {
        let now = var_to_j(rc);
        if !now.exact_eq(&docs[j]) || rc.to_string() != jmespath::Variable::from_json(&doc_texts[j]).unwrap().to_string() {
            return Err(Failure::new("history", "shared-document-changed", format!("document {} changed", j), case(&log, &exprs, &doc_texts)));
        }
        let vnow = J::from_value(&values[j]);
        if !vnow.exact_eq(&docs[j]) {
            return Err(Failure::new("history", "shared-document-changed", format!("serde value {} changed", j), case(&log, &exprs, &doc_texts)));
        }
    }
    st.class_n("ops", log.len() as u64);
    if nontrivial && st.nontrivial(&log.join(";")) {
        st.sample(|| json!({"history": log, "expressions": exprs}));
    }
    Ok(())
}

pub fn property() -> Property {
    Property {
        id: "C13",
        rule: RULE,
        assumptions: vec![
            "the first result of a pair is additionally compared with the reference evaluation unless the reference flags the case as one with several valid answers".into(),
            "all operations of one history run on one thread against the shared default runtime".into(),
        ],
        subs: vec![Sub::Bytes(BytesSub { name: "history", f: history, max_len: 4000, quick: Budget { threads: 8, cases: 1500 }, thorough: Budget { threads: 16, cases: 60_000 } })],
    }
}
