//! C06 — built-in functions enforce their signatures (enumerated decision table).

use serde_json::{json, Value};

use crate::imp::{search_text, ImpOut};
use crate::model::J;
use crate::props::c01::seeded_bytes;
use crate::refast::RefExpr;
use crate::refeval::{self, sig_of, ty_accepts, EvalErr, Ty, SIGS};
use crate::refparse;
use crate::runner::*;
use crate::src::Src;

pub const RULE: &str = "complete enumeration of the decision table: 26 built-ins x arities 0..declared+2 x every combination of 11 argument classes per position (null, boolean, number, string, empty array, array of numbers, array of strings, mixed array, array of objects, object, expression reference; for by-functions the reference returns number / string / mixed / boolean), each cell instantiated with a seeded random representative passed as literal or as document field, plus unregistered names; oracle = outcome class from the function specification as transcribed in the reference model (arity error, invalid-type, invalid-return-type, unknown-function, or Ok with the result in the declared result type); every cell is distinct by construction, non-trivial = all of them";

const CLASSES: &[&str] = &["null", "boolean", "number", "string", "empty-array", "array-number", "array-string", "array-mixed", "array-object", "object", "expref"];

fn representative(class: &str, src: &mut Src) -> J {
    use crate::gen_typed::{gen_value_of, schema_number, schema_string};
    match class {
        "null" => J::Null,
        "boolean" => J::Bool(src.flip()),
        "number" => schema_number(src),
        "string" => J::Str(schema_string(src)),
        "empty-array" => J::Arr(vec![]),
        "array-number" => J::Arr((0..1 + src.below(4)).map(|_| schema_number(src)).collect()),
        "array-string" => J::Arr((0..1 + src.below(4)).map(|_| J::Str(schema_string(src))).collect()),
        "array-mixed" => {
            let mut v = vec![schema_number(src), J::Str(schema_string(src))];
            if src.flip() {
                v.push(J::Null);
            }
            if src.flip() {
                v.reverse();
            }
            J::Arr(v)
        }
        "array-object" => J::Arr(
            (0..2 + src.below(2))
                .map(|i| {
                    let mut o = std::collections::BTreeMap::new();
                    o.insert("n".to_string(), schema_number(src));
                    o.insert("s".to_string(), J::Str(schema_string(src)));
                    o.insert("m".to_string(), if i % 2 == 0 { schema_number(src) } else { J::Str(schema_string(src)) });
                    o.insert("b".to_string(), J::Bool(i % 2 == 0));
                    J::Obj(o)
                })
                .collect(),
        ),
        "object" => gen_value_of(src, Ty::Object),
        _ => J::Null,
    }
}

const EXPREF_VARIANTS: &[&str] = &["&n", "&s", "&m", "&b"];

fn result_type_ok(name: &str, args: &[J], r: &J) -> bool {
    let is_names = |s: &str| matches!(s, "number" | "string" | "boolean" | "array" | "object" | "null" | "expref");
    match name {
        "abs" | "ceil" | "floor" | "length" | "sum" => matches!(r, J::Num(_)),
        "avg" | "to_number" => matches!(r, J::Num(_) | J::Null),
        "contains" | "ends_with" | "starts_with" => matches!(r, J::Bool(_)),
        "join" | "to_string" => matches!(r, J::Str(_)),
        "type" => matches!(r, J::Str(s) if is_names(s)),
        "keys" => matches!(r, J::Arr(a) if a.iter().all(|x| matches!(x, J::Str(_)))),
        "values" | "map" | "sort_by" | "to_array" => matches!(r, J::Arr(_)),
        "sort" => match (r, args.first()) {
            (J::Arr(a), Some(J::Arr(b2))) => a.len() == b2.len(),
            _ => false,
        },
        "max" | "min" => matches!(r, J::Num(_) | J::Str(_) | J::Null),
        "merge" => matches!(r, J::Obj(_)),
        "reverse" => match (r, args.first()) {
            (J::Arr(_), Some(J::Arr(_))) | (J::Str(_), Some(J::Str(_))) => true,
            _ => false,
        },
        _ => true, // max_by, min_by, not_null: any
    }
}

/// Decide one cell given as expression text + document text.
pub fn check_cell(sub: &str, expr: &str, doc_text: &str, st: &mut Stats) -> CaseResult {
    let case = json!({"expression": expr, "document": doc_text});
    let tree = refparse::parse_strict(expr).map_err(|e| Failure::new(sub, "harness-expr", e.msg, case.clone()))?;
    let doc = J::parse(doc_text).map_err(|e| Failure::new(sub, "harness-doc", e, case.clone()))?;
    let (name, argtrees) = match &tree {
        RefExpr::Call(n, a) => (n.clone(), a.clone()),
        _ => return Err(Failure::new(sub, "harness-expr", "not a call".into(), case)),
    };
    let mut cx = refeval::Ctx::default();
    let want = refeval::eval(&tree, &doc, &mut cx);
    st.eval();
    let got = search_text(expr, doc_text);
    // separate the two kinds of fault for the lenient case
    let mut argvals = vec![];
    for a in &argtrees {
        let mut c2 = refeval::Ctx::default();
        argvals.push(refeval::eval(a, &doc, &mut c2).unwrap_or(J::Null));
    }
    let (arity_fault, type_fault) = match sig_of(&name) {
        None => (false, false),
        Some(sig) => {
            let n = sig.params.len();
            let arity_fault = argvals.len() < n || (argvals.len() > n && sig.variadic.is_none());
            let mut type_fault = false;
            for (i, a) in argvals.iter().enumerate() {
                let tys: Option<&[Ty]> = if i < n { Some(sig.params[i]) } else { sig.variadic };
                if let Some(tys) = tys {
                    if !tys.iter().any(|t| ty_accepts(*t, a)) {
                        type_fault = true;
                    }
                }
            }
            (arity_fault, type_fault)
        }
    };
    let got_class: String = match &got {
        ImpOut::Ok(_) => "Ok".into(),
        ImpOut::SearchErr(e) => e.class.clone(),
        ImpOut::Panic(p) => return Err(Failure::new(sub, "panic", p.clone(), case)),
        other => return Err(Failure::new(sub, "unexpected-outcome", other.brief(), case)),
    };
    let want_class: String = match &want {
        Ok(_) => "Ok".into(),
        Err(EvalErr::Unspecified(_)) => {
            st.class("cell:unspecified");
            // whatever an implementation does where the specification is silent: a value
            // that comes back is still of the function's declared result type
            if let ImpOut::Ok(g) = &got {
                if !result_type_ok(&name, &argvals, g) {
                    return Err(Failure::new(sub, &format!("{}:result-outside-declared-type", name), format!("{} returned {}", expr, g.to_json()), case));
                }
            }
            return Ok(());
        }
        Err(e) => e.class().to_string(),
    };
    st.class(&format!("expect:{}", want_class));
    let dont_care = cx.ambiguous.contains(&"expref-for-any");
    let ok = if arity_fault && type_fault {
        matches!(got_class.as_str(), "NotEnoughArguments" | "TooManyArguments" | "InvalidType") && (got_class == want_class || got_class == "InvalidType")
    } else if dont_care {
        got_class == "Ok" || got_class == "InvalidType"
    } else {
        got_class == want_class
    };
    if !ok {
        let sig = format!("{}:{}-expected-{}", name, got_class, want_class);
        return Err(Failure::new(sub, &sig, format!("{} gave {} but the signature says {}", expr, got.brief(), want_class), case));
    }
    if let (ImpOut::Ok(g), Ok(_)) = (&got, &want) {
        if !dont_care && !result_type_ok(&name, &argvals, g) {
            return Err(Failure::new(sub, &format!("{}:result-outside-declared-type", name), format!("{} returned {}", expr, g.to_json()), case));
        }
    }
    Ok(())
}

fn cell_text(name: &str, classes: &[usize], variant: usize, src: &mut Src) -> (String, String) {
    cell_text_mode(name, classes, variant, src, false)
}

/// `repeat`: every argument whose class equals its predecessor's is the predecessor again, and
/// arguments are document fields (the very same value object reaches the function twice).
fn cell_text_mode(name: &str, classes: &[usize], variant: usize, src: &mut Src, repeat: bool) -> (String, String) {
    let mut doc = std::collections::BTreeMap::new();
    let mut args = vec![];
    for (i, c) in classes.iter().enumerate() {
        let cls = CLASSES[*c];
        if cls == "expref" {
            args.push(EXPREF_VARIANTS[variant].to_string());
            continue;
        }
        // the same argument again (the very same field or literal) when the class repeats
        if i > 0 && classes[i - 1] == *c && (repeat || src.chance(110)) {
            let again = args[i - 1].clone();
            args.push(again);
            continue;
        }
        let v = representative(cls, src);
        if repeat || src.flip() {
            let k = format!("a{}", i);
            doc.insert(k.clone(), v);
            args.push(k);
        } else {
            args.push(crate::print::spell_backtick(&v.to_json()));
        }
    }
    doc.insert("pad".to_string(), J::int(1));
    (format!("{}({})", name, args.join(", ")), J::Obj(doc).to_json())
}

fn table(env: &Env, st: &mut Stats) -> Vec<Failure> {
    let reps = if env.tier == Tier::Thorough { 12 } else { 1 };
    let fails = std::sync::Mutex::new(vec![]);
    let merged = std::sync::Mutex::new(Stats::new());
    let next = std::sync::atomic::AtomicUsize::new(0);
    std::thread::scope(|sc| {
        for _ in 0..8 {
            sc.spawn(|| loop {
                let fi = next.fetch_add(1, std::sync::atomic::Ordering::SeqCst);
                if fi >= SIGS.len() {
                    break;
                }
                let sig = &SIGS[fi];
                let mut local = Stats::new();
                let max_arity = sig.params.len() + 2;
                let by = matches!(sig.name, "sort_by" | "max_by" | "min_by" | "map");
                let mut cell_no = 0u64;
                for arity in 0..=max_arity {
                    let total = CLASSES.len().pow(arity as u32);
                    for code in 0..total {
                        let mut classes = vec![];
                        let mut c = code;
                        for _ in 0..arity {
                            classes.push(c % CLASSES.len());
                            c /= CLASSES.len();
                        }
                        let has_expref = classes.iter().any(|c| CLASSES[*c] == "expref");
                        let variants = if by && has_expref { EXPREF_VARIANTS.len() } else { 1 };
                        for variant in 0..variants {
                            for rep in 0..reps {
                                cell_no += 1;
                                let bytes = seeded_bytes(env.seed, (fi as u64) << 40 | cell_no << 8 | rep as u64, 96);
                                let mut src = Src::new(&bytes);
                                let (expr, doc) = cell_text(sig.name, &classes, variant, &mut src);
                                if let Err(f) = check_cell("table", &expr, &doc, &mut local) {
                                    let mut fl = fails.lock().unwrap();
                                    if fl.len() < 40 {
                                        fl.push(f);
                                    }
                                }
                                // the same cell with repeated arguments being one and the same field
                                if rep == 0 && (1..classes.len()).any(|i| classes[i] == classes[i - 1] && CLASSES[classes[i]] != "expref") {
                                    let (expr, doc) = cell_text_mode(sig.name, &classes, variant, &mut src, true);
                                    if let Err(f) = check_cell("table", &expr, &doc, &mut local) {
                                        let mut fl = fails.lock().unwrap();
                                        if fl.len() < 40 {
                                            fl.push(f);
                                        }
                                    }
                                }
                                if rep == 0 && variant == 0 {
                                    local.nontrivial(&format!("{}:{}:{}", sig.name, arity, code));
                                    if code % 997 == 3 {
                                        local.sample_budget = 2;
                                        local.sample(|| json!({"expression": expr, "document": doc}));
                                    }
                                }
                            }
                        }
                    }
                }
                merged.lock().unwrap().merge(local);
            });
        }
    });
    st.merge(merged.into_inner().unwrap());
    st.class("table:complete");
    // unregistered names
    for i in 0..200u64 {
        let bytes = seeded_bytes(env.seed, 0xFFFF_0000 + i, 64);
        let mut src = Src::new(&bytes);
        let name = format!("{}{}", src.pick(&["nope", "Length", "sortby", "to_str", "x", "abs_", "_abs", "sum2", "max_", "length1"]), if src.flip() { "" } else { "_z" });
        let n = src.below(3);
        let classes: Vec<usize> = (0..n).map(|_| src.below(CLASSES.len() - 1)).collect();
        let (expr, doc) = cell_text(&name, &classes, 0, &mut src);
        if let Err(f) = check_cell("table", &expr, &doc, st) {
            fails.lock().unwrap().push(f);
        }
        st.nontrivial(&expr);
    }
    // near misses of every registered name, called with arguments the real function would accept
    for (k, sig) in SIGS.iter().enumerate() {
        for (j, name) in near_miss_names(sig.name).into_iter().enumerate() {
            let bytes = seeded_bytes(env.seed, 0xFFFE_0000 + (k * 64 + j) as u64, 400);
            let mut src = Src::new(&bytes);
            let (expr, doc) = well_typed_call(&mut src, sig, &name);
            if let Err(f) = check_cell("table", &expr, &doc, st) {
                fails.lock().unwrap().push(f);
            }
            st.nontrivial(&expr);
            st.class("near-miss-name");
        }
    }
    fails.into_inner().unwrap()
}

/// Wide arities: every built-in with 3 .. 600 arguments (count thresholds).
fn wide_arity(env: &Env, st: &mut Stats) -> Vec<Failure> {
    let mut counts: Vec<usize> = (3..=40).collect();
    counts.extend([63, 64, 65, 100, 127, 128, 129, 200, 254, 255, 256, 257, 258, 300, 511, 512, 513, 600]);
    if env.tier == Tier::Thorough {
        counts.extend(41..=300);
        counts.extend([1023, 1024, 1025, 2000]);
    }
    let mut fails = vec![];
    for sig in SIGS {
        for n in &counts {
            // arguments that satisfy a variadic tail where there is one
            let arg = match sig.name {
                "merge" => "o",
                _ => "`1`",
            };
            let expr = format!("{}({})", sig.name, vec![arg; *n].join(", "));
            let doc = "{\"o\":{\"a\":1}}";
            if let Err(f) = check_cell("wide-arity", &expr, doc, st) {
                let mut f = f;
                f.case = json!({"function": sig.name, "arguments": n, "argument": arg, "document": doc});
                fails.push(f);
                if fails.len() > 20 {
                    return fails;
                }
            }
            st.nontrivial(&format!("{}:{}", sig.name, n));
        }
    }
    st.sample(|| json!({"expression": "not_null(`1`, `1`, ... x 256)"}));
    fails
}

fn replay_wide(case: &Value, _env: &Env) -> CaseResult {
    let n = case["arguments"].as_u64().unwrap_or(3) as usize;
    let expr = format!("{}({})", case["function"].as_str().unwrap_or("abs"), vec![case["argument"].as_str().unwrap_or("`1`"); n].join(", "));
    let mut st = Stats::new();
    check_cell("wide-arity", &expr, case["document"].as_str().unwrap_or("{}"), &mut st)
}

/// Several calls over the SAME (possibly large) array in one expression, with
/// functions that accept it and functions that must reject it: validation
/// state must not carry over from one call to the next.
fn call_sequences(src: &mut Src, st: &mut Stats, _env: &Env) -> CaseResult {
    use crate::gen_typed::{schema_number, schema_string};
    let n = src.size(300);
    let kind = src.below(4);
    let arr = J::Arr((0..n).map(|i| match kind {
        0 => schema_number(src),
        1 => J::Str(schema_string(src)),
        2 => if i == n - 1 && n > 1 { J::Str("odd".into()) } else { schema_number(src) },
        _ => if i % 2 == 0 { schema_number(src) } else { J::Str(schema_string(src)) },
    }).collect());
    let doc = J::Obj([("xs".to_string(), arr), ("s".to_string(), J::s(","))].into_iter().collect());
    let fns = ["max(xs)", "min(xs)", "sum(xs)", "avg(xs)", "sort(xs)", "join(s, xs)", "length(xs)", "reverse(xs)", "to_array(xs)", "contains(xs, `1`)", "not_null(xs)", "max(@.xs)", "sum(xs[*])", "sort(xs[:])"];
    let k = 2 + src.below(3);
    let calls: Vec<&str> = (0..k).map(|_| *src.pick(&fns)).collect();
    let dt = doc.to_json();
    // each call alone and all of them in one multi-select: same outcome classes, call by call
    let mut first_err: Option<String> = None;
    for c in &calls {
        let expr = c.to_string();
        let tree = refparse::parse_strict(&expr).map_err(|e| Failure::new("call-sequences", "harness-expr", e.msg, json!({})))?;
        let mut cx = refeval::Ctx::default();
        if let Err(e) = refeval::eval(&tree, &doc, &mut cx) {
            if !matches!(e, EvalErr::Unspecified(_)) && first_err.is_none() {
                first_err = Some(e.class().to_string());
            }
        }
    }
    let combined = format!("[{}]", calls.join(", "));
    st.eval();
    let got = search_text(&combined, &dt);
    let case = json!({"expression": combined, "document": dt});
    match (&first_err, &got) {
        (None, ImpOut::Ok(_)) => {}
        (Some(want), ImpOut::SearchErr(e)) if &e.class == want => {}
        (_, ImpOut::Panic(p)) => return Err(Failure::new("call-sequences", "panic", p.clone(), case)),
        (want, other) => {
            // the reference flags non-finite sums as unspecified; tolerate the recorded finding
            if let ImpOut::SearchErr(e) = other {
                if e.is_parse && (crate::imp::reference_says_nonfinite(&combined, &dt) || ((combined.contains("sum(") || combined.contains("avg(")) && (e.detail.contains("valid number") || e.detail.contains("valid f64")))) {
                    return Ok(());
                }
            }
            return Err(Failure::new(
                "call-sequences",
                "call-sequence-outcome-differs",
                format!("{} gave {} but call by call the specification says {:?}", combined, other.brief(), want.clone().unwrap_or_else(|| "Ok".into())),
                case,
            ));
        }
    }
    st.class(if first_err.is_some() { "sequence:error" } else { "sequence:ok" });
    if n >= 32 && st.nontrivial(&format!("{}\u{0}{}", combined, dt)) {
        st.sample(|| json!({"expression": combined, "array_len": n}));
    }
    Ok(())
}

/// Calls whose arguments satisfy the signature, with arbitrary representatives
/// of each accepted type (strings that look like numbers or other JSON texts
/// included): never a signature error, result inside the declared type.
fn well_typed_call(src: &mut Src, sig: &crate::refeval::Sig, name: &str) -> (String, String) {
    use crate::gen_typed::gen_value_of;
    let mut doc = std::collections::BTreeMap::new();
    let mut args = vec![];
    let mut n = sig.params.len();
    if sig.variadic.is_some() {
        n += src.below(4);
    }
    let all_literal = src.chance(100);
    for i in 0..n {
        let tys: &[Ty] = if i < sig.params.len() { sig.params[i] } else { sig.variadic.unwrap() };
        let t = tys[src.below(tys.len())];
        if t == Ty::Expref {
            args.push("&n".to_string());
            continue;
        }
        let mut v = if i > 0 && matches!(sig.name, "sort_by" | "max_by" | "min_by" | "map") { gen_value_of(src, Ty::ArrayNumber) } else { gen_value_of(src, t) };
        if matches!(v, J::Str(_)) && matches!(sig.name, "to_number" | "to_string" | "to_array" | "type" | "not_null" | "length" | "reverse") && src.chance(100) {
            // text that is (almost) a JSON value: what comes back must still be of the declared type
            v = J::Str(crate::gen_doc::gen_jsonish(src));
        }
        if sig.name == "to_number" && src.chance(128) {
            v = J::Str(crate::gen_doc::gen_jsonish(src));
        }
        if (all_literal || src.chance(60)) && !matches!(v, J::Num(crate::model::N::F(_))) {
            args.push(crate::print::spell_literal(&v, &mut crate::print::Spell::plain()));
        } else {
            doc.insert(format!("a{}", i), v);
            args.push(format!("a{}", i));
        }
    }
    doc.insert("pad".to_string(), J::int(1));
    (format!("{}({})", name, args.join(", ")), J::Obj(doc).to_json())
}

/// Calls whose arguments satisfy the signature, with arbitrary representatives
/// of each accepted type (strings that look like numbers or other JSON texts
/// included): never a signature error, result inside the declared type.
fn well_typed(src: &mut Src, st: &mut Stats, _env: &Env) -> CaseResult {
    use crate::refeval::SIGS;
    let plain: Vec<&crate::refeval::Sig> = SIGS.iter().filter(|s| !s.params.iter().any(|p| p.contains(&Ty::Expref))).collect();
    let sig = plain[src.below(plain.len())];
    let (expr, dt) = well_typed_call(src, sig, sig.name);
    st.eval();
    check_cell("well-typed", &expr, &dt, st)?;
    // a call whose arguments are all literals does not depend on the current node: behind a
    // pipe or a dot whose left side is null (or anything else) it is looked up, validated and
    // evaluated exactly as on its own -- also when it is wrong (the table's error cells)
    if !expr.contains("a0") && !expr.contains("a1") && !expr.contains("a2") && !expr.contains("a3") && !expr.contains("a4") {
        let variants = [expr.clone(), expr.replacen('(', "(`1`, ", 1), format!("{}_x{}", sig.name, &expr[sig.name.len()..]), expr.replacen('(', "(&@, ", 1)];
        let call = &variants[src.below(variants.len())];
        let plain = search_text(call, &dt);
        let ctx = *src.pick(&["missing | {C}", "missing.{C}", "`null` | {C}", "pad | {C}", "[missing | {C}][0]", "missing.x | {C}", "(missing || `null`) | {C}", "missing[0] | {C}", "{k: missing | {C}}.k"]);
        let wrapped = ctx.replace("{C}", call);
        let got = search_text(&wrapped, &dt);
        let same = match (&plain, &got) {
            (ImpOut::Ok(a), ImpOut::Ok(b2)) => a.deep_eq(b2),
            (ImpOut::SearchErr(a), ImpOut::SearchErr(b2)) => a.class == b2.class,
            _ => false,
        };
        // ... and applied to every element by a projection: an error is an error of the whole
        // search, a value comes back once per element (nulls dropped)
        let proj = *src.pick(&["`[1, 2]`[*].{C}", "`[[1], [2]]`[].{C}", "`{\"a\": 1, \"b\": 2}`.*.{C}", "`[1, 2, 3]`[1:].{C}", "`[1, 2]`[?@].{C}", "`[1, 2]`[?{C} || `true`]", "`[1, 2]`[*].[{C}][0]"]);
        let per_element = search_text(&proj.replace("{C}", call), &dt);
        let proj_ok = match (&plain, &per_element) {
            (ImpOut::SearchErr(a), ImpOut::SearchErr(b2)) => a.class == b2.class,
            (ImpOut::Ok(_), ImpOut::Ok(J::Arr(_))) => true,
            _ => false,
        };
        if !proj_ok {
            return Err(Failure::new(
                "well-typed",
                "call-outcome-lost-in-projection",
                format!("{} gives {} but {} gives {}", call, plain.brief(), proj.replace("{C}", call), per_element.brief()),
                json!({"expression": proj.replace("{C}", call), "document": dt}),
            ));
        }
        if !same {
            return Err(Failure::new(
                "well-typed",
                "call-outcome-depends-on-left-side",
                format!("{} gives {} but {} gives {}", call, plain.brief(), wrapped, got.brief()),
                json!({"expression": wrapped, "document": dt}),
            ));
        }
        st.class("literal-call-behind-null");
    }
    if st.nontrivial(&format!("{}\u{0}{}", expr, dt)) {
        st.sample(|| json!({"expression": expr, "document": dt}));
    }
    Ok(())
}

/// Names one small edit away from a registered name, in every naming
/// convention: none of them is registered.
pub fn near_miss_names(name: &str) -> Vec<String> {
    let mut out: Vec<String> = vec![];
    let cs: Vec<char> = name.chars().collect();
    let cap = |w: &str| -> String {
        let mut c = w.chars();
        match c.next() {
            Some(f) => f.to_uppercase().collect::<String>() + c.as_str(),
            None => String::new(),
        }
    };
    let words: Vec<&str> = name.split('_').collect();
    out.push(cap(name));
    out.push(name.to_uppercase());
    out.push(words.iter().enumerate().map(|(i, w)| if i == 0 { w.to_string() } else { cap(w) }).collect::<String>()); // camelCase
    out.push(words.iter().map(|w| cap(w)).collect::<String>()); // PascalCase
    out.push(words.join("")); // nounderscore
    out.push(words.join("__"));
    out.push(words.iter().map(|w| cap(w)).collect::<Vec<_>>().join("_"));
    out.push(format!("{}_", name));
    out.push(format!("_{}", name));
    out.push(format!("{}s", name));
    out.push(format!("{}2", name));
    out.push(format!("jmespath_{}", name));
    if cs.len() > 1 {
        out.push(cs[..cs.len() - 1].iter().collect());
        out.push(cs[1..].iter().collect());
        let mut sw = cs.clone();
        sw.swap(0, 1);
        out.push(sw.iter().collect());
    }
    out.sort();
    out.dedup();
    out.retain(|n| crate::refeval::sig_of(n).is_none() && !n.is_empty() && n != name);
    out
}

/// The built-in function objects themselves are public: a runtime assembled
/// from `XFn::new()` or `XFn::default()` under the usual names (or under other
/// names) enforces the same signatures as the default runtime.
fn builtin_structs(_env: &Env, st: &mut Stats) -> Vec<Failure> {
    use jmespath::functions::*;
    use jmespath::{Runtime, Variable};
    macro_rules! reg {
        ($rt:expr, $mode:expr, $( $name:literal => $ty:ident ),* ) => {
            $( if $mode == 0 { $rt.register_function($name, Box::new($ty::new())); } else { $rt.register_function($name, Box::new(<$ty as Default>::default())); } )*
        };
    }
    let mut fails = vec![];
    // a runtime without registrations knows no function: every built-in name is unknown there
    // (also nested in another call's reference, in a projection, after a pipe)
    {
        let empty = Runtime::new();
        let mut other = Runtime::new();
        other.register_builtin_functions();
        for sig in SIGS {
            for form in ["{F}(@)", "xs[*].{F}(@)", "z | {F}(@)", "[{F}(xs)]", "xs[?{F}(@)]"] {
                let call = form.replace("{F}", sig.name);
                st.eval();
                let got = catch(std::panic::AssertUnwindSafe(|| empty.compile(&call).map(|c| c.search(Variable::from_json("{\"xs\":[1,2],\"z\":null}").unwrap()))));
                let ok = matches!(&got, Ok(Ok(Err(e))) if crate::imp::classify(e).class == "UnknownFunction");
                if !ok {
                    fails.push(Failure::new(
                        "builtin-structs",
                        "unregistered-name-resolves",
                        format!("{} on Runtime::new() gives {:?}, expected unknown-function", call, got.map(|r| r.map(|x| x.map(|v| v.to_string()).map_err(|e| e.to_string())).map_err(|e| e.to_string()))),
                        json!({"expression": call, "runtime": "Runtime::new() (another runtime with the built-ins exists beside it)"}),
                    ));
                    if fails.len() > 5 {
                        return fails;
                    }
                }
            }
        }
        let _ = other;
        // ... and a name removed from a runtime that had all built-ins is unknown again, while
        // every other built-in keeps answering
        for sig in SIGS {
            let mut rt = Runtime::new();
            rt.register_builtin_functions();
            let removed = rt.deregister_function(sig.name).is_some();
            st.eval();
            let call = format!("{}(@)", sig.name);
            let got = catch(std::panic::AssertUnwindSafe(|| rt.compile(&call).map(|c| c.search(Variable::from_json("{\"xs\":[1,2],\"z\":null}").unwrap()))));
            let unknown = matches!(&got, Ok(Ok(Err(e))) if crate::imp::classify(e).class == "UnknownFunction");
            let other_name = if sig.name == "type" { "length" } else { "type" };
            let still = catch(std::panic::AssertUnwindSafe(|| rt.compile(&format!("{}(xs)", other_name)).map(|c| c.search(Variable::from_json("{\"xs\":[1,2]}").unwrap()).map(|v| v.to_string()))));
            let mut still_ok = matches!(&still, Ok(Ok(Ok(v))) if v == "\"array\"" || v == "2");
            // every other built-in is still registered (whatever it says about this argument, it is
            // not an unknown function) and still is the function of that name
            for other in SIGS {
                if other.name == sig.name {
                    continue;
                }
                st.eval();
                let call = format!("{}(@)", other.name);
                let on_this = catch(std::panic::AssertUnwindSafe(|| rt.compile(&call).map(|c| c.search(Variable::from_json("[3, 1]").unwrap()).map(|v| v.to_string()).map_err(|e| crate::imp::classify(&e).class))));
                let on_default = catch(std::panic::AssertUnwindSafe(|| jmespath::compile(&call).map(|c| c.search(Variable::from_json("[3, 1]").unwrap()).map(|v| v.to_string()).map_err(|e| crate::imp::classify(&e).class))));
                let same = match (&on_this, &on_default) {
                    (Ok(Ok(a)), Ok(Ok(b2))) => a == b2,
                    _ => false,
                };
                if !same {
                    still_ok = false;
                    fails.push(Failure::new(
                        "builtin-structs",
                        "deregistration-disturbs-another-builtin",
                        format!("after register_builtin_functions(); deregister_function({:?}): {} gives {:?} but on the default runtime {:?}", sig.name, call, on_this.map(|r| r.map_err(|e| e.to_string())), on_default.map(|r| r.map_err(|e| e.to_string()))),
                        json!({"expression": call, "runtime": format!("register_builtin_functions(); deregister_function({:?})", sig.name)}),
                    ));
                    break;
                }
            }
            if !unknown || !still_ok {
                fails.push(Failure::new(
                    "builtin-structs",
                    "deregistered-builtin-still-resolves",
                    format!("register_builtin_functions(); deregister_function({:?}) returned a function: {}; {} then gives {:?} (expected unknown-function); {}(xs) gives {:?}", sig.name, removed, call, got.map(|r| r.map(|x| x.map(|v| v.to_string()).map_err(|e| e.to_string())).map_err(|e| e.to_string())), other_name, still.map(|r| r.map(|x| x.map_err(|e| e.to_string())).map_err(|e| e.to_string()))),
                    json!({"expression": call, "runtime": format!("register_builtin_functions(); deregister_function({:?})", sig.name)}),
                ));
                if fails.len() > 5 {
                    return fails;
                }
            }
        }
    }
    for mode in 0..2 {
        let mut rt = Runtime::new();
        reg!(rt, mode,
            "abs" => AbsFn, "avg" => AvgFn, "ceil" => CeilFn, "contains" => ContainsFn, "ends_with" => EndsWithFn, "floor" => FloorFn, "join" => JoinFn, "keys" => KeysFn,
            "length" => LengthFn, "map" => MapFn, "max" => MaxFn, "max_by" => MaxByFn, "merge" => MergeFn, "min" => MinFn, "min_by" => MinByFn, "not_null" => NotNullFn,
            "reverse" => ReverseFn, "sort" => SortFn, "sort_by" => SortByFn, "starts_with" => StartsWithFn, "sum" => SumFn, "to_array" => ToArrayFn, "to_number" => ToNumberFn,
            "to_string" => ToStringFn, "type" => TypeFn, "values" => ValuesFn);
        let doc = "{\"n\":-3,\"s\":\"abc\",\"ns\":[3,1,2],\"ss\":[\"b\",\"a\"],\"o\":{\"a\":1},\"objs\":[{\"k\":2},{\"k\":1}],\"z\":null,\"b\":true}";
        for sig in SIGS {
            // valid call, one argument too few, one too many, first argument of a wrong type
            let good: Vec<&str> = sig
                .params
                .iter()
                .map(|p| match p[0] {
                    Ty::Number => "n",
                    Ty::Str => "s",
                    Ty::ArrayNumber => "ns",
                    Ty::ArrayString => "ss",
                    Ty::Array => if matches!(sig.name, "sort_by" | "max_by" | "min_by") { "objs" } else { "ns" },
                    Ty::Object => "o",
                    Ty::Expref => if sig.name == "map" { "&@" } else { "&k" },
                    _ => "n",
                })
                .collect();
            let wrong_first = match sig.params[0][0] {
                Ty::Any => None,
                Ty::Expref => Some("n"),
                Ty::Number => Some("s"),
                _ => Some("b"),
            };
            let mut calls = vec![format!("{}({})", sig.name, good.join(", "))];
            calls.push(format!("{}({})", sig.name, good[..good.len() - 1].join(", ")));
            if sig.variadic.is_none() {
                calls.push(format!("{}({}, n)", sig.name, good.join(", ")));
            }
            if let Some(w) = wrong_first {
                let mut g2 = good.clone();
                g2[0] = w;
                calls.push(format!("{}({})", sig.name, g2.join(", ")));
            }
            for call in calls {
                st.eval();
                let want = search_text(&call, doc);
                let got = match catch(std::panic::AssertUnwindSafe(|| rt.compile(&call).map(|c| c.search(Variable::from_json(doc).unwrap())))) {
                    Err(p) => {
                        fails.push(Failure::new("builtin-structs", "panic", p, json!({"expression": call, "constructed_with": if mode == 0 { "new()" } else { "default()" }})));
                        continue;
                    }
                    Ok(Err(e)) => ImpOut::CompileErr(crate::imp::classify(&e)),
                    Ok(Ok(Ok(v))) => ImpOut::Ok(crate::shape::var_to_j(&v)),
                    Ok(Ok(Err(e))) => ImpOut::SearchErr(crate::imp::classify(&e)),
                };
                let same = match (&want, &got) {
                    (ImpOut::Ok(a), ImpOut::Ok(b2)) => a.exact_eq(b2),
                    (ImpOut::SearchErr(a), ImpOut::SearchErr(b2)) => a.class == b2.class,
                    _ => false,
                };
                if !same {
                    fails.push(Failure::new(
                        "builtin-structs",
                        "builtin-struct-differs-from-default-runtime",
                        format!("{} on a runtime of {}::{} gives {} but the default runtime gives {}", call, sig.name, if mode == 0 { "new()" } else { "default()" }, got.brief(), want.brief()),
                        json!({"expression": call, "constructed_with": if mode == 0 { "new()" } else { "default()" }, "document": doc}),
                    ));
                    if fails.len() > 5 {
                        return fails;
                    }
                }
                st.nontrivial(&format!("{}|{}", mode, call));
            }
        }
    }
    fails
}

fn replay_structs(_case: &Value, env: &Env) -> CaseResult {
    let mut st = Stats::new();
    match builtin_structs(env, &mut st).into_iter().next() {
        None => Ok(()),
        Some(f) => Err(f),
    }
}

/// The type predicate itself (`ArgumentType::is_valid`), for generated type
/// terms (the eight base types, typed arrays and unions nested up to three
/// levels) against every class of value, with an independent reading of the
/// same rule: a typed array accepts an array all of whose elements are accepted
/// (the empty array included), a union accepts what one of its members accepts.
fn argument_types(src: &mut Src, st: &mut Stats, _env: &Env) -> CaseResult {
    use jmespath::functions::ArgumentType as A;
    #[derive(Clone, Debug)]
    enum T {
        Any,
        Null,
        Str,
        Num,
        Bool,
        Obj,
        Arr,
        Expref,
        Typed(Box<T>),
        Union(Vec<T>),
    }
    fn gen_t(src: &mut Src, d: usize) -> T {
        match src.below(if d >= 3 { 8 } else { 10 }) {
            0 => T::Any,
            1 => T::Null,
            2 => T::Str,
            3 => T::Num,
            4 => T::Bool,
            5 => T::Obj,
            6 => T::Arr,
            7 => T::Expref,
            8 => T::Typed(Box::new(gen_t(src, d + 1))),
            _ => T::Union((0..src.below(4)).map(|_| gen_t(src, d + 1)).collect()),
        }
    }
    fn to_a(t: &T) -> A {
        match t {
            T::Any => A::Any,
            T::Null => A::Null,
            T::Str => A::String,
            T::Num => A::Number,
            T::Bool => A::Bool,
            T::Obj => A::Object,
            T::Arr => A::Array,
            T::Expref => A::Expref,
            T::Typed(x) => A::TypedArray(Box::new(to_a(x))),
            T::Union(xs) => A::Union(xs.iter().map(to_a).collect()),
        }
    }
    fn accepts(t: &T, v: &jmespath::Variable) -> bool {
        use jmespath::Variable as V;
        match t {
            T::Any => true,
            T::Null => matches!(v, V::Null),
            T::Str => matches!(v, V::String(_)),
            T::Num => matches!(v, V::Number(_)),
            T::Bool => matches!(v, V::Bool(_)),
            T::Obj => matches!(v, V::Object(_)),
            T::Arr => matches!(v, V::Array(_)),
            T::Expref => matches!(v, V::Expref(_)),
            T::Typed(x) => match v {
                V::Array(a) => a.iter().all(|e| accepts(x, e)),
                _ => false,
            },
            T::Union(xs) => xs.iter().any(|x| accepts(x, v)),
        }
    }
    let t = gen_t(src, 0);
    let values = [
        "null", "true", "1", "-0.5", "\"s\"", "\"\"", "[]", "[1]", "[1, 2.5]", "[\"a\"]", "[1, \"a\"]", "[null]", "[[1], [2]]", "[[1], [\"a\"]]", "[[], [1]]", "[[[1]]]", "{}", "{\"a\": 1}", "[{}]", "[true, false]",
        "[1, [2]]", "[[\"a\"], \"b\"]", "[[]]",
    ];
    let at = to_a(&t);
    st.eval();
    for vt in values {
        let v = jmespath::Variable::from_json(vt).unwrap();
        let rv = jmespath::Rcvar::new(v.clone());
        let (got, want) = (at.is_valid(&rv), accepts(&t, &v));
        if got != want {
            return Err(Failure::new("argument-types", "type-predicate-wrong", format!("{:?} is_valid({}) = {} expected {}", t, vt, got, want), json!({"type": format!("{:?}", t), "value": vt})));
        }
    }
    // long arrays: uniform but for a few members of another kind at generated places
    for _ in 0..3 {
        let n = 1 + src.size(90);
        let kinds = ["1", "\"s\"", "[1]", "[\"a\"]", "{}", "null", "true", "[]", "2.5"];
        let base = *src.pick(&kinds);
        let mut items: Vec<&str> = vec![base; n];
        let odd_count = src.below(3);
        for _ in 0..odd_count {
            let at = match src.below(4) {
                0 => 0,
                1 => n - 1,
                2 => n.saturating_sub(1 + src.below(8)),
                _ => src.below(n),
            };
            items[at] = *src.pick(&kinds);
        }
        let vt = format!("[{}]", items.join(", "));
        let vt2 = format!("[{}]", vt);
        for text in [vt, vt2] {
            let v = jmespath::Variable::from_json(&text).unwrap();
            let rv = jmespath::Rcvar::new(v.clone());
            let (got, want) = (at.is_valid(&rv), accepts(&t, &v));
            if got != want {
                return Err(Failure::new("argument-types", "type-predicate-wrong", format!("{:?} is_valid({}) = {} expected {}", t, clip(&text, 400), got, want), json!({"type": format!("{:?}", t), "value": text})));
            }
        }
        st.class("argument-types:long-array");
    }
    // an expression reference as a value
    let ex = jmespath::Variable::Expref(jmespath::parse("a").unwrap());
    let rex = jmespath::Rcvar::new(ex.clone());
    if at.is_valid(&rex) != accepts(&t, &ex) {
        return Err(Failure::new("argument-types", "type-predicate-wrong", format!("{:?} is_valid(&a) = {} expected {}", t, at.is_valid(&rex), accepts(&t, &ex)), json!({"type": format!("{:?}", t), "value": "&a"})));
    }
    let nested = matches!(t, T::Typed(_) | T::Union(_));
    if nested && st.nontrivial(&format!("{:?}", t)) {
        st.sample(|| json!({"type": format!("{:?}", t)}));
    }
    Ok(())
}

fn replay_cell(case: &Value, _env: &Env) -> CaseResult {
    let mut st = Stats::new();
    check_cell("table", case["expression"].as_str().unwrap_or(""), case["document"].as_str().unwrap_or("null"), &mut st)
}

pub fn property() -> Property {
    Property {
        id: "C06",
        rule: RULE,
        assumptions: vec![
            "when a call has both a wrong argument count and a wrongly typed argument, either error kind is accepted; when several arguments are wrong only the kind is compared".into(),
            "an expression reference passed to a parameter declared `any` is a don't-care (Ok or invalid-type)".into(),
            "merge() with no argument is treated as an arity error (the suite and jmespath.py agree; the specification text is ambiguous)".into(),
        ],
        minimise: None,
        subs: vec![
            Sub::Custom(CustomSub { name: "table", run: table, replay: replay_cell }),
            Sub::Custom(CustomSub { name: "wide-arity", run: wide_arity, replay: replay_wide }),
            Sub::Custom(CustomSub { name: "builtin-structs", run: builtin_structs, replay: replay_structs }),
            Sub::Bytes(BytesSub { name: "argument-types", f: argument_types, max_len: 64, quick: Budget { threads: 4, cases: 5000 }, thorough: Budget { threads: 16, cases: 100_000 }, keep_unreproducible: false }),
            Sub::Bytes(BytesSub { name: "well-typed", f: well_typed, max_len: 1500, quick: Budget { threads: 8, cases: 16000 }, thorough: Budget { threads: 16, cases: 150_000 }, keep_unreproducible: false }),
            Sub::Bytes(BytesSub { name: "call-sequences", f: call_sequences, max_len: 2000, quick: Budget { threads: 8, cases: 10000 }, thorough: Budget { threads: 16, cases: 100_000 }, keep_unreproducible: false }),
        ],
    }
}
