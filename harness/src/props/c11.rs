//! C11 — compositionality (implementation-only oracle).

use serde_json::json;

use crate::gen_doc::{gen_doc, DocOpts};
use crate::gen_expr::{gen_expr, gen_slice_kind, ExprOpts};
use crate::imp::{search_text, ImpOut};
use crate::model::J;
use crate::props::c01::spell_tree;
use crate::refast::ProjKind;
use crate::refeval::slice_indices;
use crate::runner::*;
use crate::src::Src;

pub const RULE: &str = "sub-expressions L, R, P, E1..En from the tree generator (any core form, random spelling) and generated documents; compounds (L)|(R), (L).step, (L)[*]/[a:b:c]/[]/.*/[?P] with and without a right-hand side (wrapped as not_null(R)), multi-select list/hash, !, &&, ||, comparisons; oracle = the implementation's own results for the parts combined by the rule of the statement (separate search calls per element); non-trivial = a projection over >= 2 elements on which R gives >= 2 distinct results, or boolean operands of different truthiness, or a pipe whose left result is a container (distinct by compound text + document)";

#[derive(Clone, Debug)]
enum Out {
    Val(J),
    Err(String),
}

fn run(expr: &str, doc: &str) -> Result<Out, String> {
    match search_text(expr, doc) {
        ImpOut::Ok(j) => Ok(Out::Val(j)),
        ImpOut::SearchErr(e) => Ok(Out::Err(e.class)),
        other => Err(other.brief()),
    }
}

fn part(src: &mut Src, st: &mut Stats, hint: Option<&J>, depth: usize) -> Option<String> {
    // a quarter of the parts call (untyped) functions: many of those fail on some elements only
    let o = ExprOpts { max_depth: depth, extremes: false, funcs: src.chance(64), ..ExprOpts::default() };
    let t = gen_expr(src, 0, hint, &o);
    let text = spell_tree(&t, src, st).map(|x| x.0)?;
    // sometimes the part goes through a total built-in (defined on every value, nulls included)
    Some(match src.below(12) {
        0 => format!("type({})", text),
        1 => format!("not_null({}, 'dflt')", text),
        2 => format!("to_array({})", text),
        3 => format!("type(@) == 'null' || ({})", text),
        _ => text,
    })
}

fn same(a: &Out, b2: &Out) -> bool {
    match (a, b2) {
        (Out::Val(x), Out::Val(y)) => x.deep_eq(y),
        (Out::Err(_), Out::Err(_)) => true,
        _ => false,
    }
}

fn show(o: &Out) -> String {
    match o {
        Out::Val(j) => j.to_json(),
        Out::Err(e) => format!("error {}", e),
    }
}

fn fail(sig: &str, compound: &str, doc: &str, got: &Out, want: &Out, parts: serde_json::Value) -> Failure {
    Failure::new(
        "compound",
        sig,
        format!("compound gives {} but its parts combine to {}", show(got), show(want)),
        json!({"expression": compound, "document": doc, "parts": parts}),
    )
}

fn harness_err(m: String, compound: &str, doc: &str) -> Failure {
    Failure::new("compound", "unexpected-outcome", m, json!({"expression": compound, "document": doc}))
}

fn hint_of(expr: &str, doc: &str) -> Option<J> {
    match search_text(expr, doc) {
        ImpOut::Ok(j) if !j.contains_expref() => Some(j),
        _ => None,
    }
}

/// Apply `r` to each element with separate searches, dropping nulls.
fn map_elements(items: &[J], r: Option<&str>) -> Result<(Out, usize), String> {
    let mut out = vec![];
    let mut distinct: Vec<String> = vec![];
    for e in items {
        let v = match r {
            None => Out::Val(e.clone()),
            Some(rt) => run(rt, &e.to_json())?,
        };
        match v {
            Out::Err(c) => return Ok((Out::Err(c), 0)),
            Out::Val(j) => {
                let t = j.to_json();
                if !distinct.contains(&t) {
                    distinct.push(t);
                }
                if !j.is_null() {
                    out.push(j);
                }
            }
        }
    }
    Ok((Out::Val(J::Arr(out)), distinct.len()))
}

/// The implementation reads the shortest spelling of `x` back as `x` (its
/// JSON parser is only accurate to 2 ulp on 17-digit numerals).
fn stable(x: f64) -> bool {
    let t = J::f(x).to_json();
    match search_text("@", &t) {
        ImpOut::Ok(J::Num(n)) => n.f().to_bits() == x.to_bits(),
        _ => false,
    }
}

/// Records whose field `n` holds numbers that are equal, one or two units in
/// the last place apart, or clearly different, and a predicate comparing `n`
/// with a literal from the same family.
fn near_numbers(src: &mut Src) -> (J, String) {
    let x: f64 = [0.3, 0.1 + 0.2, 1e22, 100.0, 1.0, 0.7100000000000002, 1.0 / 3.0, 123456.789, 4.35, 1e-7, 2.5e15][src.below(11)];
    let mut family: Vec<J> = vec![];
    for y in [x, f64::from_bits(x.to_bits() + 1), f64::from_bits(x.to_bits() - 1), f64::from_bits(x.to_bits() + 2), x * (1.0 + 1e-12), x + 1.0, -x] {
        if stable(y) {
            family.push(J::f(y));
        }
    }
    family.push(J::int(9007199254740992));
    family.push(J::int(9007199254740993));
    family.push(J::int(1));
    family.push(J::s("1"));
    family.push(J::Null);
    let n = 2 + src.below(6);
    let mut rows = vec![];
    for i in 0..n {
        let mut m = std::collections::BTreeMap::new();
        m.insert("id".to_string(), J::int(i as i64));
        m.insert("n".to_string(), family[src.below(family.len())].clone());
        rows.push(J::Obj(m));
    }
    let lit = family[src.below(family.len())].to_json();
    let pred = match src.below(10) {
        0 | 1 => format!("n == `{}`", lit),
        2 => format!("n != `{}`", lit),
        3 => format!("`{}` == n", lit),
        4 => format!("n <= `{}`", lit),
        5 => format!("n >= `{}`", lit),
        6 => format!("`{}` >= n", lit),
        7 => format!("@.n == `{}`", lit),
        8 => format!("[n] == [`{}`]", lit),
        _ => format!("n == `{}` && id >= `0`", lit),
    };
    let mut m = std::collections::BTreeMap::new();
    m.insert("xs".to_string(), J::Arr(rows));
    // short decimals whose sums and averages are NOT short decimals (0.1 + 0.2): the left
    // side of a pipe can compute a double that no document spelled
    let ds: Vec<J> = (0..2 + src.below(5)).map(|_| J::f(*src.pick(&[0.1, 0.2, 0.7, 1.1, 2.2, 0.3, 4.35, 100.1, 1e-7, 0.01]))).collect();
    m.insert("ds".to_string(), J::Arr(ds));
    (J::Obj(m), pred)
}

/// Every double in the value is written with at most 15 significant digits
/// (those are read back exactly by the JSON parser the library builds on).
fn only_short_floats(j: &J) -> bool {
    match j {
        J::Num(crate::model::N::F(f)) => {
            let t = format!("{:e}", f);
            let mant = t.split('e').next().unwrap_or("");
            mant.chars().filter(|c| c.is_ascii_digit()).count() <= 15
        }
        J::Arr(a) => a.iter().all(only_short_floats),
        J::Obj(o) => o.values().all(only_short_floats),
        _ => true,
    }
}

fn compound(src: &mut Src, st: &mut Stats, _env: &Env) -> CaseResult {
    let near = if src.chance(14) { Some(near_numbers(src)) } else { None };
    let mut doc = match &near {
        Some((d, _)) => d.clone(),
        None => gen_doc(src, &DocOpts::default()),
    };
    if near.is_none() && src.chance(20) {
        crate::gen_doc::scale_some_array(&mut doc, src, 2500);
        st.class("scaled-document");
    }
    let dt = doc.to_json();
    let kind = if near.is_some() {
        st.class("near-equal-numbers");
        match src.below(3) {
            0 => 6,
            1 => 2,
            _ => 0,
        }
    } else {
        src.below(12)
    };
    let near_l = if kind == 0 { *src.pick(&["xs[*].n", "xs", "xs[0].n", "xs[-1]", "xs[?id > `0`].n", "[xs[0].n, xs[1].n]", "sum(ds)", "avg(ds)", "[sum(ds), avg(ds), ds]", "{s: sum(ds), a: avg(ds[1:])}", "ds[*].[@, sum([@, `0.2`])]"]) } else { "xs" };
    let l = match if near.is_some() { Some(near_l.to_string()) } else { part(src, st, Some(&doc), 3) } {
        Some(x) => x,
        None => {
            st.discard();
            return Ok(());
        }
    };
    // for pipes: often a left side that ENDS in a bare projection over mixed data
    let l = if kind == 0 && near.is_none() && src.chance(90) {
        // partial functions: defined on some element types only, so a projection over mixed
        // data fails at the first element outside the domain (wherever it is)
        let partial = *src.pick(&["abs(@)", "length(@)", "keys(@)", "ceil(@)", "sort(@)", "max(@)", "starts_with(@, 'a')", "join(',', @)", "a.abs(@)", "not_null(a, @).length(@)", "reverse(@)", "values(@)", "sum(@)"]);
        match src.below(9) {
            5 => format!("({})[*].{}", l, partial),
            6 => format!("({})[].{}", l, partial),
            7 => format!("({})[?{}]", l, partial),
            8 => format!("`[1, -2, \"x\", [3], null, {{\"a\": 1}}, 4]`[{}].{}", src.pick(&["*", "1:", "::2", "::-1"]), partial),
            0 => format!("({})[*]", l),
            1 => format!("({})[]", l),
            2 => format!("({})[1:]", l),
            3 => "`[1, null, \"x\", [2, null], {\"a\": null}]`[*]".to_string(),
            _ => "`[[1, null], null, [\"x\"]]`[]".to_string(),
        }
    } else {
        l
    };
    let lv = run(&l, &dt).map_err(|m| harness_err(m, &l, &dt))?;
    let lj = match &lv {
        Out::Val(j) if !j.contains_expref() => Some(j.clone()),
        _ => None,
    };
    let l_result_text = lj.as_ref().map(|j| j.to_json()).unwrap_or_else(|| "null".to_string());
    st.eval();
    let mut nontrivial = false;
    let compound_text: String;
    match kind {
        0 => {
            // pipe; the right side is often a projection that calls a function on each element
            let r = if src.chance(80) {
                src.pick(&[
                    "@",
                    "to_string(@)",
                    "[*].to_string(@)",
                    "[?@ > `0.3`]",
                    "[@, @]",
                    "[0]",
                    "[1]",
                    "[2]",
                    "[-1]",
                    "[0][0]",
                    "[:1]",
                    "[*].type(@)",
                    "[*].not_null(@, 'x')",
                    "[?type(@) == 'null']",
                    "[?not_null(@, `true`)]",
                    "[].to_array(@)",
                    "[*].[@, type(@)]",
                    "[*].to_array(@)[0]",
                    "[?type(@) != 'number'].type(@)",
                    "[::2].type(@)",
                    "*.type(@)",
                ])
                .to_string()
            } else {
                match part(src, st, lj.as_ref(), 3) {
                    Some(x) => x,
                    None => return Ok(()),
                }
            };
            let c = format!("({}) | ({})", l, r);
            let got = run(&c, &dt).map_err(|m| harness_err(m, &c, &dt))?;
            // (a computed double with 16-17 significant digits does not survive a trip through
            // JSON text exactly - the parser is accurate to 2 ulp - so for such left results only
            // the value route below is compared)
            let text_route_exact = lj.as_ref().map(|j| only_short_floats(j)).unwrap_or(true);
            let want = match (&lv, &lj) {
                (Out::Err(e), _) => Out::Err(e.clone()),
                (_, Some(j)) if text_route_exact => run(&r, &j.to_json()).map_err(|m| harness_err(m, &r, &dt))?,
                (_, Some(_)) => got.clone(),
                _ => return Ok(()),
            };
            if !same(&got, &want) {
                return Err(fail("pipe-not-compositional", &c, &dt, &got, &want, json!({"L": l, "R": r, "L_result": show(&lv)})));
            }
            // "searching R on the result of searching L", literally: the value that the first
            // search returned is handed to the second search as it is (no JSON text in between)
            if lj.is_some() {
                for (i, o) in crate::imp::search_chain(&l, &r, &dt).into_iter().enumerate() {
                    let o2 = match o {
                        ImpOut::Ok(j) => Out::Val(j),
                        ImpOut::SearchErr(e) => Out::Err(e.class),
                        other => return Err(harness_err(other.brief(), &c, &dt)),
                    };
                    let exact = match (&got, &o2) {
                        (Out::Val(x), Out::Val(y)) => x.exact_eq(y),
                        (Out::Err(_), Out::Err(_)) => true,
                        _ => false,
                    };
                    if !exact {
                        let route = ["Rcvar by value", "&Rcvar", "Variable by value", "&Variable"][i.min(3)];
                        return Err(fail("pipe-not-compositional", &c, &dt, &got, &o2, json!({"L": l, "R": r, "second_search_input": route})));
                    }
                }
                st.class("pipe:result-fed-back-as-value");
            }
            nontrivial = matches!(&lj, Some(J::Arr(_)) | Some(J::Obj(_)));
            st.class("form:pipe");
            compound_text = c;
        }
        1 => {
            // dot step: identifier or multi-select applied to the result of L
            let step = match src.below(3) {
                0 => crate::print::spell_field(&crate::gen_doc::gen_key(src, true), &mut crate::print::Spell::with(src)),
                1 => match part(src, st, lj.as_ref(), 2) {
                    Some(x) => format!("[({})]", x),
                    None => return Ok(()),
                },
                _ => match part(src, st, lj.as_ref(), 2) {
                    Some(x) => format!("{{k: {}}}", x),
                    None => return Ok(()),
                },
            };
            let c = format!("({}).{}", l, step);
            let got = run(&c, &dt).map_err(|m| harness_err(m, &c, &dt))?;
            let want = match (&lv, &lj) {
                (Out::Err(e), _) => Out::Err(e.clone()),
                (_, Some(j)) => run(&step, &j.to_json()).map_err(|m| harness_err(m, &step, &dt))?,
                _ => return Ok(()),
            };
            if !same(&got, &want) {
                return Err(fail("subexpression-not-compositional", &c, &dt, &got, &want, json!({"L": l, "step": step})));
            }
            nontrivial = matches!(&lj, Some(J::Obj(_)));
            st.class("form:dot");
            compound_text = c;
        }
        2..=6 => {
            // projections
            let elem_hint = match &lj {
                Some(J::Arr(a)) if !a.is_empty() => Some(a[src.below(a.len())].clone()),
                Some(J::Obj(m)) if !m.is_empty() => m.values().next().cloned(),
                _ => None,
            };
            let with_rhs = src.chance(180);
            let r = match (&near, kind) {
                (Some((_, p)), 2) => Some(p.clone()),
                _ => {
                    if with_rhs {
                        part(src, st, elem_hint.as_ref(), 3)
                    } else {
                        None
                    }
                }
            };
            let mut rhs_txt = r.as_ref().map(|r| format!(".not_null({})", r)).unwrap_or_default();
            // ... or a right-hand side that is itself a bracket form written directly after the
            // projection (a second filter, wildcard, index or slice): it belongs to the projection
            // and is applied to each element separately
            let adjacent = near.is_none() && src.chance(60);
            let (r, l, lv, lj) = if adjacent {
                let adj = *src.pick(&["[?@]", "[?@ > `1`]", "[?a]", "[*]", "[0]", "[-1]", "[1:]", "[::-1]", "[*][0]", "[?@][0]", "[?@ > `4`][?@ > `6`]", "[*].a", "[0][0]", "[?type(@) == 'number']"]);
                rhs_txt = adj.to_string();
                if src.chance(100) {
                    // a left side with arrays (and other things) as elements
                    let lit = *src.pick(&["`[[1, 5, 7], [], [2, 9], {\"n\": 6}, 8]`", "`[[{\"a\": 1}, {\"a\": null}], [[3], 4], \"s\", null, [0, 2]]`", "`[[[1, 2], [3]], [[]], [5, [6, 7]]]`"]);
                    let v = run(lit, &dt).map_err(|m| harness_err(m, lit, &dt))?;
                    let j = match &v {
                        Out::Val(j) => Some(j.clone()),
                        _ => None,
                    };
                    (Some(adj.to_string()), lit.to_string(), v, j)
                } else {
                    (Some(adj.to_string()), l, lv, lj)
                }
            } else {
                (r, l, lv, lj)
            };
            if adjacent {
                st.class("projection:adjacent-bracket-rhs");
            }
            let (c, items, form): (String, Option<Vec<J>>, &str) = match kind {
                2 => (format!("({})[*]{}", l, rhs_txt), lj.as_ref().and_then(|j| j.as_arr().cloned()), "listwild"),
                3 => {
                    let len = lj.as_ref().and_then(|j| j.as_arr()).map(|a| a.len()).unwrap_or(0);
                    let k = gen_slice_kind(src, len, &ExprOpts { step_zero: false, extremes: false, ..ExprOpts::default() });
                    let (a, b2, cc) = match k {
                        ProjKind::Slice(a, b2, cc) => (a, b2, cc),
                        _ => (None, None, None),
                    };
                    let f = |x: Option<i32>| x.map(|v| v.to_string()).unwrap_or_default();
                    let txt = format!("({})[{}:{}:{}]{}", l, f(a), f(b2), f(cc), rhs_txt);
                    let items = lj.as_ref().and_then(|j| j.as_arr().cloned()).map(|arr| {
                        slice_indices(arr.len(), a, b2, cc.unwrap_or(1)).into_iter().map(|i| arr[i].clone()).collect::<Vec<J>>()
                    });
                    (txt, items, "slice")
                }
                4 => {
                    let items = lj.as_ref().and_then(|j| j.as_arr().cloned()).map(|arr| {
                        let mut out = vec![];
                        for x in arr {
                            match x {
                                J::Arr(inner) => out.extend(inner),
                                other => out.push(other),
                            }
                        }
                        out
                    });
                    (format!("({})[]{}", l, rhs_txt), items, "flatten")
                }
                5 => {
                    let items = match &lj {
                        Some(J::Obj(m)) => Some(m.values().cloned().collect::<Vec<J>>()),
                        _ => None,
                    };
                    (format!("({}).*{}", l, rhs_txt), items, "objwild")
                }
                _ => {
                    // filter: select the elements whose predicate result is truthy
                    let p = match &near {
                        Some((_, p)) => p.clone(),
                        None => match part(src, st, elem_hint.as_ref(), 3) {
                            Some(x) => x,
                            None => return Ok(()),
                        },
                    };
                    // (the plain spelling `L[?P]` as well as the parenthesised one)
                    let txt = if near.is_some() && src.flip() { format!("{}[?{}]{}", l, p, rhs_txt) } else { format!("({})[?{}]{}", l, p, rhs_txt) };
                    let mut sel: Option<Vec<J>> = None;
                    let mut pred_err: Option<String> = None;
                    if let Some(J::Arr(arr)) = &lj {
                        let mut v = vec![];
                        for e in arr {
                            match run(&p, &e.to_json()).map_err(|m| harness_err(m, &p, &dt))? {
                                Out::Err(c) => {
                                    pred_err = Some(c);
                                    break;
                                }
                                Out::Val(j) => {
                                    if j.truthy() {
                                        // the right-hand side runs before the next predicate
                                        if let Some(rt) = &r {
                                            if let Out::Err(c) = run(rt, &e.to_json()).map_err(|m| harness_err(m, rt, &dt))? {
                                                pred_err = Some(c);
                                                break;
                                            }
                                        }
                                        v.push(e.clone());
                                    }
                                }
                            }
                        }
                        sel = Some(v);
                    }
                    if let Some(c) = pred_err {
                        let got = run(&txt, &dt).map_err(|m| harness_err(m, &txt, &dt))?;
                        if !matches!(got, Out::Err(_)) {
                            return Err(fail("filter-error-lost", &txt, &dt, &got, &Out::Err(c), json!({"L": l, "P": p})));
                        }
                        return Ok(());
                    }
                    (txt, sel, "filter")
                }
            };
            let got = run(&c, &dt).map_err(|m| harness_err(m, &c, &dt))?;
            let want = match (&lv, &lj) {
                (Out::Err(e), _) => Out::Err(e.clone()),
                (_, None) => return Ok(()),
                (_, Some(_)) => match &items {
                    None => Out::Val(J::Null),
                    Some(its) => {
                        let (w, distinct) = map_elements(its, r.as_deref()).map_err(|m| harness_err(m, &c, &dt))?;
                        nontrivial = its.len() >= 2 && distinct >= 2;
                        w
                    }
                },
            };
            if !same(&got, &want) {
                return Err(fail("projection-not-compositional", &c, &dt, &got, &want, json!({"L": l, "R": r, "form": form})));
            }
            st.class(&format!("form:{}", form));
            compound_text = c;
        }
        7 | 8 => {
            // multi-select list / hash
            let n = 1 + src.below(3);
            let mut es = vec![l.clone()];
            for _ in 1..n {
                match part(src, st, Some(&doc), 2) {
                    Some(x) => es.push(x),
                    None => return Ok(()),
                }
            }
            let mut vals = vec![];
            let mut err: Option<String> = None;
            for e in &es {
                match run(e, &dt).map_err(|m| harness_err(m, e, &dt))? {
                    Out::Val(j) => vals.push(j),
                    Out::Err(c) => {
                        err = Some(c);
                        break;
                    }
                }
            }
            let (c, want_val) = if kind == 7 {
                (format!("[{}]", es.iter().map(|e| format!("({})", e)).collect::<Vec<_>>().join(", ")), J::Arr(vals.clone()))
            } else {
                let mut m = std::collections::BTreeMap::new();
                for (i, v) in vals.iter().enumerate() {
                    m.insert(format!("k{}", i), v.clone());
                }
                (format!("{{{}}}", es.iter().enumerate().map(|(i, e)| format!("k{}: {}", i, e)).collect::<Vec<_>>().join(", ")), J::Obj(m))
            };
            let got = run(&c, &dt).map_err(|m| harness_err(m, &c, &dt))?;
            let want = if doc.is_null() {
                Out::Val(J::Null)
            } else if let Some(e) = err {
                Out::Err(e)
            } else {
                Out::Val(want_val)
            };
            if !same(&got, &want) {
                return Err(fail("multiselect-not-compositional", &c, &dt, &got, &want, json!({"members": es})));
            }
            nontrivial = es.len() >= 2 && !doc.is_null();
            st.class(if kind == 7 { "form:multilist" } else { "form:multihash" });
            compound_text = c;
        }
        _ => {
            // boolean forms and comparison
            let b2 = match part(src, st, Some(&doc), 3) {
                Some(x) => x,
                None => return Ok(()),
            };
            let bv = run(&b2, &dt).map_err(|m| harness_err(m, &b2, &dt))?;
            let (c, want, form): (String, Out, &str) = match kind {
                9 => {
                    let w = match &lv {
                        Out::Err(e) => Out::Err(e.clone()),
                        Out::Val(j) => Out::Val(J::Bool(!j.truthy())),
                    };
                    (format!("!({})", l), w, "not")
                }
                10 => {
                    let and = src.flip();
                    let w = match &lv {
                        Out::Err(e) => Out::Err(e.clone()),
                        Out::Val(j) => {
                            if j.truthy() == and {
                                bv.clone()
                            } else {
                                Out::Val(j.clone())
                            }
                        }
                    };
                    if let (Out::Val(x), Out::Val(y)) = (&lv, &bv) {
                        nontrivial = x.truthy() != y.truthy();
                    }
                    (format!("({}) {} ({})", l, if and { "&&" } else { "||" }, b2), w, if and { "and" } else { "or" })
                }
                _ => {
                    let op = *src.pick(&["==", "!=", "<", "<=", ">", ">="]);
                    let w = match (&lv, &bv) {
                        (Out::Err(e), _) => Out::Err(e.clone()),
                        (_, Out::Err(e)) => Out::Err(e.clone()),
                        (Out::Val(x), Out::Val(y)) => {
                            if x.contains_expref() || y.contains_expref() {
                                return Ok(());
                            }
                            let d2 = format!("{{\"l\":{},\"r\":{}}}", x.to_json(), y.to_json());
                            run(&format!("l {} r", op), &d2).map_err(|m| harness_err(m, "l op r", &d2))?
                        }
                    };
                    nontrivial = true;
                    (format!("({}) {} ({})", l, op, b2), w, "cmp")
                }
            };
            let got = run(&c, &dt).map_err(|m| harness_err(m, &c, &dt))?;
            if !same(&got, &want) {
                return Err(fail("boolean-not-compositional", &c, &dt, &got, &want, json!({"A": l, "B": b2, "A_result": show(&lv), "B_result": show(&bv)})));
            }
            st.class(&format!("form:{}", form));
            compound_text = c;
        }
    }
    let _ = hint_of;
    // the same compiled compound on this document, on documents where its parts mean something
    // else (null, an empty object, the left part's own result), and on this document again
    if src.chance(60) {
        crate::imp::reuse_agrees("compound", &compound_text, &[dt.as_str(), "null", "{}", l_result_text.as_str(), dt.as_str()])?;
        st.class("compound:reused-on-other-documents");
    }
    if nontrivial && st.nontrivial(&format!("{}\u{0}{}", compound_text, dt)) {
        st.sample(|| json!({"expression": compound_text, "document": dt}));
    }
    Ok(())
}

/// Equivalent rewritings: one sub-expression X (anywhere an expression may
/// stand) is replaced by `X | @`, `@ | X`, `not_null(X)`, `X || X` or `X && X`.
/// The whole expression must give the identical result on every document.
fn rewrites(src: &mut Src, st: &mut Stats, _env: &Env) -> CaseResult {
    use crate::gen_expr::rewrite_somewhere;
    let wild = src.chance(60);
    let doc = match src.below(3) {
        0 => crate::gen_typed::schema_doc(src),
        _ => gen_doc(src, &DocOpts { wild_numbers: wild, ..DocOpts::default() }),
    };
    let dt = doc.to_json();
    let tree = match src.below(3) {
        0 => {
            let d = 1 + src.below(3);
            crate::gen_typed::gen_typed(src, d)
        }
        _ => {
            let o = ExprOpts { max_depth: 2 + src.below(3), extremes: false, funcs: src.chance(100), ..ExprOpts::default() };
            gen_expr(src, 0, Some(&doc), &o)
        }
    };
    let (tree2, how) = match rewrite_somewhere(&tree, src) {
        Some(x) => x,
        None => {
            st.discard();
            return Ok(());
        }
    };
    let (t1, t2) = match (crate::print::minimal_text(&tree), crate::print::minimal_text(&tree2)) {
        (Ok(a), Ok(b2)) => (a, b2),
        _ => {
            st.discard();
            return Ok(());
        }
    };
    st.eval();
    let case = json!({"expression": t1, "rewritten": t2, "rewrite": how, "document": dt});
    let a = search_text(&t1, &dt);
    let b2 = search_text(&t2, &dt);
    let same = match (&a, &b2) {
        (ImpOut::Ok(x), ImpOut::Ok(y)) => x.exact_eq(y),
        (ImpOut::SearchErr(_), ImpOut::SearchErr(_)) => true,
        (ImpOut::CompileErr(_), ImpOut::CompileErr(_)) => true,
        _ => false,
    };
    if !same {
        return Err(Failure::new("rewrites", "equivalent-rewriting-changes-result", format!("{} gives {} but {} gives {}", t1, a.brief(), t2, b2.brief()), case));
    }
    st.class(&format!("rewrite:{}", how));
    if matches!(a, ImpOut::Ok(ref v) if !v.is_null()) && st.nontrivial(&format!("{}\u{0}{}\u{0}{}", t1, t2, dt)) {
        st.sample(|| json!({"expression": t1, "rewritten": t2}));
    }
    Ok(())
}

/// How often the parts are evaluated: a compound evaluates each part exactly as
/// often as the rule says (a projection its right-hand side once per element,
/// `&&` / `||` their right operand only when needed, a pipe each side once).
/// A logging identity function stands in for the part; the count is compared
/// with the reference evaluator's, the value with the built-in `not_null`.
fn evaluation_counts(src: &mut Src, st: &mut Stats, _env: &Env) -> CaseResult {
    let forms = [
        "xs[*].{C}", "xs[].{C}", "xs[1:].{C}", "xs[::-1].{C}", "o.*.{C}", "xs[?{C}]", "objs[?a == `1`].{C}", "objs[*].a | {C}", "xs[*].[{C}]", "xs[*].{k: {C}}", "xs[*].{C}.{C}", "(xs[*].{C})[0]",
        "xs[*].{C} | [0]", "[{C}, {C}]", "{a: {C}, b: {C}}", "{C} | {C}", "{C}.a", "{C} && {C}", "{C} || {C}", "z && {C}", "n || {C}", "!{C}", "{C} == {C}", "{C} < n", "objs[*].a[?{C}]", "xs[*] | [*].{C}",
        "objs[*].{C}.a", "map(&{C}, xs)", "xs[*].{C} || xs[*].{C}", "[xs[*].{C}, o.*.{C}]", "xs[?{C}].{C}", "xs[*].to_array({C})[]",
    ];
    let calls = ["rec(@)", "rec(n)", "rec(z)", "rec(xs)", "rec(@.a)"];
    let form = *src.pick(&forms);
    let call = *src.pick(&calls);
    let text = form.replace("{C}", call);
    st.class("evaluation-count-form");
    crate::props::c15::check_call_text("evaluation-counts", &text, src, st)
}

/// Compositionality on the public tree itself: the Ast of a compiled expression
/// is taken apart, each part wrapped with `Expression::new` and searched on its
/// own, and the parts' results are combined by the rule of the node (documented
/// on the `Ast` variants).  Checked at the root and down one random path.
fn ast_parts(src: &mut Src, st: &mut Stats, _env: &Env) -> CaseResult {
    use jmespath::ast::Ast;
    use jmespath::{Rcvar, Variable};
    let doc = gen_doc(src, &DocOpts::default());
    let dt = doc.to_json();
    let o = ExprOpts { max_depth: 2 + src.below(3), extremes: false, step_zero: false, ..ExprOpts::default() };
    let tree = gen_expr(src, 0, Some(&doc), &o);
    let text = match crate::print::minimal_text(&tree) {
        Ok(t) => t,
        Err(_) => {
            st.discard();
            return Ok(());
        }
    };
    let root = match jmespath::parse(&text) {
        Ok(a) => a,
        Err(_) => {
            st.discard();
            return Ok(());
        }
    };
    let mut rt = jmespath::Runtime::new();
    rt.register_builtin_functions();
    let eval = |a: &Ast, input: &Rcvar| -> Result<Rcvar, String> {
        match catch(std::panic::AssertUnwindSafe(|| jmespath::Expression::new("", a.clone(), &rt).search(input))) {
            Err(p) => Err(format!("panic: {}", p)),
            Ok(Ok(v)) => Ok(v),
            Ok(Err(e)) => Err(crate::imp::classify(&e).class),
        }
    };
    let null = || Rcvar::new(Variable::Null);
    let mut node: Ast = root;
    let mut input: Rcvar = Rcvar::new(Variable::from_json(&dt).unwrap());
    st.eval();
    for _level in 0..4 {
        let whole = eval(&node, &input);
        // what the parts say
        let mut next: Option<(Ast, Rcvar)> = None;
        let parts: Option<Result<Rcvar, String>> = match &node {
            Ast::Subexpr { lhs, rhs, .. } => Some(eval(lhs, &input).and_then(|l| {
                let r = eval(rhs, &l);
                next = Some(if src.flip() { ((**lhs).clone(), input.clone()) } else { ((**rhs).clone(), l) });
                r
            })),
            Ast::Projection { lhs, rhs, .. } => Some(eval(lhs, &input).and_then(|l| match l.as_array() {
                None => Ok(null()),
                Some(items) => {
                    let mut out = vec![];
                    for e in items {
                        let r = eval(rhs, e)?;
                        if !r.is_null() {
                            out.push(r);
                        }
                    }
                    if !items.is_empty() && src.flip() {
                        next = Some(((**rhs).clone(), items[src.below(items.len())].clone()));
                    } else {
                        next = Some(((**lhs).clone(), input.clone()));
                    }
                    Ok(Rcvar::new(Variable::Array(out)))
                }
            })),
            Ast::Condition { predicate, then, .. } => Some(eval(predicate, &input).and_then(|p| if p.is_truthy() { eval(then, &input) } else { Ok(null()) })),
            Ast::And { lhs, rhs, .. } => Some(eval(lhs, &input).and_then(|l| if l.is_truthy() { eval(rhs, &input) } else { Ok(l) })),
            Ast::Or { lhs, rhs, .. } => Some(eval(lhs, &input).and_then(|l| if l.is_truthy() { Ok(l) } else { eval(rhs, &input) })),
            Ast::Not { node: n, .. } => Some(eval(n, &input).map(|v| Rcvar::new(Variable::Bool(!v.is_truthy())))),
            Ast::MultiList { elements, .. } => {
                if input.is_null() {
                    Some(Ok(null()))
                } else {
                    let mut out = vec![];
                    let mut err = None;
                    for e in elements {
                        match eval(e, &input) {
                            Ok(v) => out.push(v),
                            Err(c) => {
                                err = Some(c);
                                break;
                            }
                        }
                    }
                    if !elements.is_empty() {
                        next = Some((elements[src.below(elements.len())].clone(), input.clone()));
                    }
                    Some(match err {
                        Some(c) => Err(c),
                        None => Ok(Rcvar::new(Variable::Array(out))),
                    })
                }
            }
            Ast::MultiHash { elements, .. } => {
                if input.is_null() {
                    Some(Ok(null()))
                } else {
                    let mut out = std::collections::BTreeMap::new();
                    let mut err = None;
                    for kv in elements {
                        match eval(&kv.value, &input) {
                            Ok(v) => {
                                out.insert(kv.key.clone(), v);
                            }
                            Err(c) => {
                                err = Some(c);
                                break;
                            }
                        }
                    }
                    Some(match err {
                        Some(c) => Err(c),
                        None => Ok(Rcvar::new(Variable::Object(out))),
                    })
                }
            }
            Ast::Flatten { node: n, .. } => Some(eval(n, &input).map(|v| match v.as_array() {
                None => null(),
                Some(items) => {
                    let mut out = vec![];
                    for e in items {
                        match e.as_array() {
                            Some(inner) => out.extend(inner.iter().cloned()),
                            None => out.push(e.clone()),
                        }
                    }
                    Rcvar::new(Variable::Array(out))
                }
            })),
            Ast::ObjectValues { node: n, .. } => Some(eval(n, &input).map(|v| match v.as_object() {
                None => null(),
                Some(m) => Rcvar::new(Variable::Array(m.values().cloned().collect())),
            })),
            _ => None,
        };
        let parts = match parts {
            Some(p) => p,
            None => break,
        };
        let same = match (&whole, &parts) {
            (Ok(a), Ok(b2)) => crate::shape::var_to_j(a).exact_eq(&crate::shape::var_to_j(b2)),
            (Err(a), Err(b2)) => !a.starts_with("panic") && !b2.starts_with("panic") && (a == b2 || true),
            _ => false,
        };
        if !same {
            let show = |r: &Result<Rcvar, String>| match r {
                Ok(v) => clip(&v.to_string(), 300),
                Err(c) => format!("error {}", c),
            };
            let kind = format!("{:?}", node).split(' ').next().unwrap_or("").to_string();
            return Err(Failure::new(
                "ast-parts",
                "node-differs-from-its-parts",
                format!("the {} node of {} gives {} on {} but its parts, searched separately, combine to {}", kind, text, show(&whole), clip(&input.to_string(), 200), show(&parts)),
                json!({"expression": text, "document": dt, "node": kind}),
            ));
        }
        st.class(&format!("node:{}", format!("{:?}", node).split(' ').next().unwrap_or("")));
        match next {
            Some((n, i)) => {
                node = n;
                input = i;
            }
            None => break,
        }
    }
    if st.nontrivial(&format!("{}\u{0}{}", text, dt)) {
        st.sample(|| json!({"expression": text}));
    }
    Ok(())
}

/// Projections over large arrays (1000..5000 elements): the result is still the
/// per-element results in order, however many elements there are.
fn scale(env: &Env, st: &mut Stats) -> Vec<Failure> {
    let sizes: &[usize] = if env.tier == Tier::Thorough { &[255, 256, 257, 1000, 1023, 1024, 1025, 1100, 2047, 2048, 2049, 4096, 5000, 10000] } else { &[256, 1000, 1023, 1024, 1025, 1100, 2048, 5000] };
    let rhs_forms = ["a[*]", "a.*", "a[1:]", "[a[*], b[*]]", "b[?@ > `1`]", "length(b)", "b[*][0]", "c.a[*]", "not_null(a[*], b[0])", "a[*].x", "b[*].to_string(@)"];
    let mut fails = vec![];
    for &n in sizes {
        // elements: mostly objects whose `a` is NOT an array, some arrays, some nulls
        let elems: Vec<serde_json::Value> = (0..n)
            .map(|i| match i % 7 {
                3 => json!({"a": [i, i + 1], "b": [i % 3, 2, 5], "c": {"a": [1]}}),
                5 => json!(null),
                6 => json!([i]),
                _ => json!({"a": i, "b": [i % 4], "c": {"a": i}}),
            })
            .collect();
        let doc = serde_json::Value::Array(elems.clone()).to_string();
        for rhs in rhs_forms {
            st.eval();
            let compound = format!("[*].{}", if rhs.starts_with('[') { format!("not_null({})", rhs) } else { rhs.to_string() });
            let got = match run(&compound, &doc) {
                Ok(o) => o,
                Err(m) => {
                    fails.push(Failure::new("scale", "unexpected-outcome", m, json!({"expression": compound, "elements": n})));
                    continue;
                }
            };
            // per element, separate searches (memoised by element shape would hide nothing: run them all)
            let mut want_items = vec![];
            let mut want_err: Option<String> = None;
            for e in &elems {
                match run(rhs, &e.to_string()) {
                    Ok(Out::Val(j)) => {
                        if !j.is_null() {
                            want_items.push(j);
                        }
                    }
                    Ok(Out::Err(c)) => {
                        want_err = Some(c);
                        break;
                    }
                    Err(m) => {
                        fails.push(Failure::new("scale", "unexpected-outcome", m, json!({"expression": rhs})));
                        return fails;
                    }
                }
            }
            let want = match want_err {
                Some(c) => Out::Err(c),
                None => Out::Val(J::Arr(want_items)),
            };
            if !same(&got, &want) {
                let brief = |o: &Out| match o {
                    Out::Val(J::Arr(a)) => format!("an array of {} results", a.len()),
                    other => show(other),
                };
                fails.push(Failure::new(
                    "scale",
                    "projection-not-compositional",
                    format!("{} over {} elements gives {} but element by element it is {}", compound, n, brief(&got), brief(&want)),
                    json!({"expression": compound, "rhs": rhs, "elements": n}),
                ));
                if fails.len() > 10 {
                    return fails;
                }
            } else {
                st.nontrivial(&format!("{}|{}", compound, n));
            }
        }
    }
    st.sample(|| json!({"expression": "[*].a[*]", "elements": 1024}));
    fails
}

fn replay_scale(case: &serde_json::Value, env: &Env) -> CaseResult {
    // re-run the whole (small) table and report the entry for this expression / size
    let mut st = Stats::new();
    let want_expr = case["expression"].as_str().unwrap_or("");
    let want_n = case["elements"].as_u64().unwrap_or(0);
    let thorough = Env { property: env.property, tier: Tier::Thorough, seed: env.seed, known: env.known.clone(), strict: env.strict };
    for f in scale(&thorough, &mut st) {
        if f.case["expression"].as_str() == Some(want_expr) && f.case["elements"].as_u64() == Some(want_n) {
            return Err(f);
        }
    }
    Ok(())
}

pub fn property() -> Property {
    Property {
        id: "C11",
        rule: RULE,
        assumptions: vec![
            "not_null(R) is the identity wrapper that makes an arbitrary R legal after a projection".into(),
            "which elements a slice / flatten / object wildcard iterates over is computed from the left result by the harness (Python slice rule, one-level flatten, values in key order)".into(),
            "when several parts fail, only the presence of an error is compared".into(),
        ],
        minimise: None,
        subs: vec![
            Sub::Custom(CustomSub { name: "scale", run: scale, replay: replay_scale }),
            Sub::Bytes(BytesSub { name: "evaluation-counts", f: evaluation_counts, max_len: 64, quick: Budget { threads: 4, cases: 1500 }, thorough: Budget { threads: 16, cases: 20_000 }, keep_unreproducible: false }),
            Sub::Bytes(BytesSub { name: "ast-parts", f: ast_parts, max_len: 1500, quick: Budget { threads: 8, cases: 8000 }, thorough: Budget { threads: 16, cases: 200_000 }, keep_unreproducible: false }),
            Sub::Bytes(BytesSub { name: "rewrites", f: rewrites, max_len: 1500, quick: Budget { threads: 8, cases: 12000 }, thorough: Budget { threads: 16, cases: 300_000 }, keep_unreproducible: false }),
            Sub::Bytes(BytesSub { name: "compound", f: compound, max_len: 1500, quick: Budget { threads: 8, cases: 24000 }, thorough: Budget { threads: 16, cases: 200_000 }, keep_unreproducible: false }),
        ],
    }
}
