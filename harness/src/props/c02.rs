//! C02 — every built-in computes the specified value.

use std::collections::BTreeMap;
use std::sync::{Arc, Mutex};

use serde_json::json;

use crate::gen_typed::*;
use crate::imp::{search_text, ImpOut};
use crate::model::{J, N};
use crate::print::{spell_backtick, Spell};
use crate::props::c01::{compare, record_kinds, spell_tree};
use crate::refeval::{self, Sig, Ty as RT, SIGS};
use crate::runner::*;
use crate::shape::var_to_j;
use crate::src::Src;

pub const RULE: &str = "(direct) each of the 26 built-ins called with arguments drawn from its full declared domain (arrays of 0..40 elements with many duplicates and integer/float spellings of equal numbers, strings over all of Unicode, objects with overlapping keys, negative and fractional numbers), passed as literals or document fields; (nested) typed expressions mixing all built-ins, projections and literals to depth 4 over schema documents; (counting) by-functions and map with a recording custom function in the runtime; oracle = reference implementations written for obviousness (insertion sort, linear scans, code-point comparisons) plus validity predicates where the specification admits several answers; non-trivial = a successful result where some built-in received a non-empty argument (distinct by expression + document)";

fn fn_classes(cx: &refeval::Ctx, st: &mut Stats) {
    for c in &cx.calls {
        st.class(&format!("fn:{}", c));
    }
    if cx.big_sorts_with_ties > 0 {
        st.class_n("sorts>20-with-ties", cx.big_sorts_with_ties as u64);
    }
}

fn nested(src: &mut Src, st: &mut Stats, _env: &Env) -> CaseResult {
    let doc = schema_doc(src);
    let depth = 2 + src.below(3);
    let tree = gen_typed(src, depth);
    let (text, _, _) = match spell_tree(&tree, src, st) {
        Some(x) => x,
        None => {
            st.discard();
            return Ok(());
        }
    };
    st.eval();
    let dt = doc.to_json();
    let mut cx = refeval::Ctx::default();
    let want = refeval::eval(&tree, &doc, &mut cx);
    let c = compare("nested", &tree, &text, &doc, &dt, st, true)?;
    record_kinds(&tree, st);
    // the same calls through an expression object assembled by hand from the public Ast
    if src.chance(50) {
        crate::imp::ast_route_agrees("nested", &tree, &text, &dt, src)?;
        st.class("hand-built-ast-route");
    }
    if want.is_ok() {
        fn_classes(&cx, st);
    }
    if c.nontrivial && !cx.calls.is_empty() && st.nontrivial(&format!("{}\u{0}{}", text, dt)) {
        st.sample(|| json!({"expression": text, "document_keys": "schema", "result": want.as_ref().map(|v| v.to_json()).unwrap_or_default()}));
    }
    Ok(())
}

fn pick_ty(src: &mut Src, alts: &[RT]) -> RT {
    alts[src.below(alts.len())]
}

struct Direct {
    text: String,
    doc: J,
    args: Vec<J>,
    name: &'static str,
}

fn elem_expref(src: &mut Src, arr: &J, want_key: bool) -> (String, crate::refast::RefExpr) {
    use crate::refast::RefExpr as R;
    // choose an expression reference appropriate for the elements
    let first = arr.as_arr().and_then(|a| a.first()).cloned();
    let cands: Vec<(&str, R)> = match first {
        Some(J::Obj(_)) => vec![
            ("&k", R::field("k")),
            ("&n", R::field("n")),
            ("&s", R::field("s")),
            ("&length(s)", R::Call("length".into(), vec![R::field("s")])),
            ("&abs(n)", R::Call("abs".into(), vec![R::field("n")])),
            ("&id", R::field("id")),
        ],
        Some(J::Num(_)) => vec![("&@", R::Current), ("&abs(@)", R::Call("abs".into(), vec![R::Current])), ("&to_string(@)", R::Call("to_string".into(), vec![R::Current])), ("&abs(@)", R::Call("abs".into(), vec![R::Current])), ("&type(@)", R::Call("type".into(), vec![R::Current])), ("&floor(@)", R::Call("floor".into(), vec![R::Current]))],
        Some(J::Str(_)) => vec![("&@", R::Current), ("&length(@)", R::Call("length".into(), vec![R::Current])), ("&reverse(@)", R::Call("reverse".into(), vec![R::Current])), ("&length(@)", R::Call("length".into(), vec![R::Current])), ("&type(@)", R::Call("type".into(), vec![R::Current]))],
        Some(J::Arr(_)) => vec![("&length(@)", R::Call("length".into(), vec![R::Current])), ("&type(@)", R::Call("type".into(), vec![R::Current])), ("&length(@)", R::Call("length".into(), vec![R::Current]))],
        _ => vec![("&@", R::Current), ("&type(@)", R::Call("type".into(), vec![R::Current]))],
    };
    // sometimes an arbitrary core expression as the reference: constants, multi-selects,
    // comparisons, projections (for by-functions most of them have the wrong key type,
    // which the model knows)
    if !want_key && src.chance(50) {
        // a reference that does not look at its element at all
        let e = crate::gen_expr::gen_constant_expr(src, 0);
        if let Ok(t) = crate::print::minimal_text(&e) {
            return (format!("&{}", t), e);
        }
    }
    if src.chance(if want_key { 30 } else { 110 }) {
        let o = crate::gen_expr::ExprOpts { max_depth: 2, extremes: false, step_zero: false, ..crate::gen_expr::ExprOpts::default() };
        let e = crate::gen_expr::gen_expr(src, 0, first.as_ref(), &o);
        if let Ok(t) = crate::print::minimal_text(&e) {
            return (format!("&{}", t), e);
        }
    }
    let (t, e) = cands[src.below(cands.len())].clone();
    (t.to_string(), e)
}

fn by_array(src: &mut Src) -> J {
    by_array_of(src, true)
}

fn by_array_of(src: &mut Src, other_elements: bool) -> J {
    // objects with a duplicate-rich key k, unique id, numeric n, string s
    let n = match src.weighted(&[1, 6, 4]) {
        0 => 0,
        1 => src.below(8),
        _ => 21 + src.below(20),
    };
    // now and then elements that are not objects, with keys that tie (|x|, the length, the
    // type): equal keys keep the input order whatever the elements are
    if other_elements && src.chance(50) {
        return match src.below(3) {
            0 => J::Arr((0..n).map(|_| if src.flip() { J::int(src.range(-3, 3)) } else { J::f(src.range(-6, 6) as f64 / 2.0) }).collect()),
            1 => J::Arr((0..n).map(|_| J::Str(src.pick(&["b", "a", "é", "ab", "ba", "", "B", "aa", "zz", "z"]).to_string())).collect()),
            _ => J::Arr((0..n).map(|_| J::Arr((0..src.below(3)).map(|_| J::int(src.range(0, 3))).collect())).collect()),
        };
    }
    let k_num = src.flip();
    J::Arr(
        (0..n)
            .map(|i| {
                let mut o = BTreeMap::new();
                o.insert("id".to_string(), J::int(i as i64));
                o.insert(
                    "k".to_string(),
                    if k_num {
                        if src.chance(24) {
                            // a negative zero ties with every other zero
                            J::f(-0.0)
                        } else if src.flip() {
                            J::int(src.range(0, 3))
                        } else {
                            J::f(src.range(0, 3) as f64)
                        }
                    } else {
                        J::Str(src.pick(&["a", "b", "é", "", "ab"]).to_string())
                    },
                );
                o.insert("n".to_string(), schema_number(src));
                o.insert("s".to_string(), J::Str(schema_string(src)));
                J::Obj(o)
            })
            .collect(),
    )
}

fn build_direct(src: &mut Src, sig: &'static Sig) -> (Direct, Vec<crate::refast::RefExpr>) {
    use crate::refast::RefExpr as R;
    let mut arg_texts = vec![];
    let mut arg_trees = vec![];
    let mut args = vec![];
    let mut doc = BTreeMap::new();
    let extra = if sig.variadic.is_some() { src.below(3) } else { 0 };
    let n = sig.params.len() + extra;
    // by-functions and map need the array before the expref
    let by_arr = if matches!(sig.name, "sort_by" | "max_by" | "min_by") { Some(by_array(src)) } else { None };
    let map_arr = if sig.name == "map" { Some(gen_value_of(src, RT::Array)) } else { None };
    for i in 0..n {
        let alts: &[RT] = if i < sig.params.len() { sig.params[i] } else { sig.variadic.unwrap() };
        let t = pick_ty(src, alts);
        if t == RT::Expref {
            let arr = by_arr.as_ref().or(map_arr.as_ref()).unwrap();
            let (txt, e) = elem_expref(src, arr, sig.name != "map");
            arg_texts.push(txt);
            arg_trees.push(R::Expref(Box::new(e)));
            args.push(J::Expref(None));
            continue;
        }
        let v = match (sig.name, i) {
            ("sort_by", 0) | ("max_by", 0) | ("min_by", 0) => by_arr.clone().unwrap(),
            ("map", 1) => map_arr.clone().unwrap(),
            ("contains", 1) => {
                // often an element / substring of the haystack
                match &args[0] {
                    J::Arr(a) if !a.is_empty() && src.chance(150) => a[src.below(a.len())].clone(),
                    J::Str(s) if !s.is_empty() && src.chance(150) => {
                        let cs: Vec<char> = s.chars().collect();
                        let i = src.below(cs.len());
                        let j = i + src.below(cs.len() - i + 1);
                        J::Str(cs[i..j].iter().collect())
                    }
                    _ => gen_value_of(src, RT::Any),
                }
            }
            ("starts_with", 1) | ("ends_with", 1) => match &args[0] {
                J::Str(s) if src.chance(150) => {
                    let cs: Vec<char> = s.chars().collect();
                    let k = src.below(cs.len() + 1);
                    if sig.name == "starts_with" {
                        J::Str(cs[..k].iter().collect())
                    } else {
                        J::Str(cs[cs.len() - k..].iter().collect())
                    }
                }
                _ => gen_value_of(src, t),
            },
            ("to_number", 0) => match src.below(5) {
                4 => {
                    // number-like strings assembled from (possibly malformed) parts
                    let sign = *src.pick(&["", "-", "-", "+", "--"]);
                    let int = *src.pick(&["0", "00", "007", "1", "12", "9007199254740993", "", "10", "05"]);
                    let frac = *src.pick(&["", "", ".", ".5", ".50", ".e", ".0"]);
                    let exp = *src.pick(&["", "", "e2", "E+2", "e-2", "e", "e+", "E02", "e308", "e-400"]);
                    J::Str(format!("{}{}{}{}", sign, int, frac, exp))
                }
                0 => J::Str(
                    src.pick(&["1", "-1", "1.5", "1e2", "1E+2", "-0", "0.0", "true", "null", "[1]", "{\"a\":1}", "\"1\"", "01", "1.", ".5", "+1", "0x10", "", "abc", "1e", "NaN", "Infinity", "-", "1 2", "1,2"]).to_string(),
                ),
                _ => gen_value_of(src, RT::Any),
            },
            // a later argument is often the first one again or one step away from it
            // (same keys / elements, one leaf changed)
            _ if i > 0 && src.chance(50) && crate::refeval::ty_accepts(t, &args[0]) => {
                if src.flip() {
                    args[0].clone()
                } else {
                    let nv = crate::gen_doc::near_value(&args[0], src);
                    if crate::refeval::ty_accepts(t, &nv) { nv } else { args[0].clone() }
                }
            }
            _ => gen_value_of(src, t),
        };
        if src.flip() {
            let name = format!("a{}", i);
            doc.insert(name.clone(), v.clone());
            arg_texts.push(name.clone());
            arg_trees.push(R::Field(name));
        } else {
            arg_texts.push(spell_backtick(&crate::print::spell_json(&v, &mut Spell::with(src))));
            arg_trees.push(R::Literal(v.clone()));
        }
        args.push(v);
    }
    doc.insert("pad".to_string(), J::int(0));
    (Direct { text: format!("{}({})", sig.name, arg_texts.join(", ")), doc: J::Obj(doc), args, name: sig.name }, arg_trees)
}

fn is_perm(a: &[J], b2: &[J]) -> bool {
    if a.len() != b2.len() {
        return false;
    }
    let mut used = vec![false; b2.len()];
    'outer: for x in a {
        for (i, y) in b2.iter().enumerate() {
            if !used[i] && x.exact_eq(y) {
                used[i] = true;
                continue 'outer;
            }
        }
        return false;
    }
    true
}

/// One search that calls a by-function many times (17..80 calls, most of them on empty arrays,
/// inside a projection or under `map`): each call's value is the one the function defines,
/// however many calls came before it in the same search.
fn many_small_calls(src: &mut Src, st: &mut Stats) -> CaseResult {
    let n = 17 + src.below(64);
    let xs: Vec<J> = (0..n)
        .map(|i| {
            let m = if src.chance(170) { 0 } else { 1 + src.below(3) };
            J::Arr(
                (0..m)
                    .map(|k| {
                        let mut o = BTreeMap::new();
                        o.insert("k".to_string(), J::int(((i * 7 + k * 3) % 11) as i64 * 10 + k as i64));
                        o.insert("id".to_string(), J::int((i * 10 + k) as i64));
                        J::Obj(o)
                    })
                    .collect(),
            )
        })
        .collect();
    let mut doc = BTreeMap::new();
    doc.insert("xs".to_string(), J::Arr(xs));
    let doc = J::Obj(doc);
    let text = *src.pick(&[
        "xs[*].max_by(@, &k)",
        "xs[*].min_by(@, &k)",
        "map(&max_by(@, &k), xs)",
        "xs[*].sort_by(@, &k)",
        "xs[*].max_by(@, &k).id",
        "map(&min_by(@, &k).id, xs)",
        "xs[*].[max_by(@, &k), min_by(@, &k)]",
        "map(&map(&k, @), xs)",
        "xs[*].sort_by(@, &k)[*].id",
        "map(&length(sort_by(@, &id)), xs)",
        "[xs[*].max_by(@, &k), xs[*].min_by(@, &id)]",
    ]);
    let dt = doc.to_json();
    st.eval();
    let tree = match crate::refparse::parse(text, crate::refparse::Mode::Strict) {
        Ok(t) => t,
        Err(e) => return Err(Failure::new("direct", "harness-bad-expr", e.msg, json!({"expression": text}))),
    };
    let mut cx = refeval::Ctx::default();
    let want = refeval::eval(&tree, &doc, &mut cx);
    let got = search_text(text, &dt);
    let ok = match (&want, &got) {
        (Ok(w), ImpOut::Ok(g)) => g.deep_eq(w),
        _ => false,
    };
    if !ok {
        return Err(Failure::new("direct", "many-calls-in-one-search-wrong", format!("gave {} expected {:?}", got.brief(), want.map(|w| w.to_json())), json!({"expression": text, "document": dt})));
    }
    st.class("direct:many-small-calls");
    Ok(())
}

fn direct(src: &mut Src, st: &mut Stats, _env: &Env) -> CaseResult {
    if src.chance(10) {
        return many_small_calls(src, st);
    }
    let sig = &SIGS[src.below(SIGS.len())];
    let (d, trees) = build_direct(src, sig);
    let tree = crate::refast::RefExpr::Call(d.name.to_string(), trees);
    let dt = d.doc.to_json();
    st.eval();
    let mut cx = refeval::Ctx::default();
    let want = refeval::eval(&tree, &d.doc, &mut cx);
    let got = search_text(&d.text, &dt);
    let case = json!({"expression": d.text, "document": dt});
    let fail = |sig: &str, msg: String| Err(Failure::new("direct", sig, msg, json!({"expression": d.text, "document": dt})));
    let g = match (&want, &got) {
        (_, ImpOut::Panic(p)) => return fail("panic", p.clone()),
        (Err(refeval::EvalErr::Unspecified(_)), _) => {
            st.class("skip:unspecified");
            return Ok(());
        }
        (Err(_), ImpOut::SearchErr(e)) if !e.is_parse => {
            st.class("direct:error-agreed");
            return Ok(());
        }
        (Err(e), other) => return fail(&format!("{}-should-fail", d.name), format!("reference error {:?}, implementation {}", e, other.brief())),
        (Ok(w), ImpOut::Ok(g)) => {
            let _ = w;
            g.clone()
        }
        (Ok(w), other) => return fail(&format!("{}-wrong", d.name), format!("reference {} implementation {}", w.to_json(), other.brief())),
    };
    let w = want.unwrap();
    let sigkey = format!("{}-wrong", d.name);
    let ok = match d.name {
        // stable ascending permutation: exact order including integer/float spelling of equal numbers
        "sort" | "sort_by" => g.exact_eq(&w) || (g.deep_eq(&w) && matches!((&g, &w), (J::Arr(a), J::Arr(b2)) if a.iter().zip(b2).all(|(x, y)| x.to_json() == y.to_json()))),
        "max_by" | "min_by" => {
            if cx.ambiguous.contains(&"by-tie") {
                // validity: an input element whose key equals the extreme key
                let arr = d.args[0].as_arr().cloned().unwrap_or_default();
                arr.iter().any(|x| x.exact_eq(&g)) && {
                    // key of the returned element equals key of the reference's element
                    let keyexpr = match &tree {
                        crate::refast::RefExpr::Call(_, a) => match &a[1] {
                            crate::refast::RefExpr::Expref(e) => (**e).clone(),
                            _ => crate::refast::RefExpr::Current,
                        },
                        _ => crate::refast::RefExpr::Current,
                    };
                    let mut c2 = refeval::Ctx::default();
                    let kg = refeval::eval(&keyexpr, &g, &mut c2);
                    let kw = refeval::eval(&keyexpr, &w, &mut c2);
                    matches!((kg, kw), (Ok(a), Ok(b2)) if a.deep_eq(&b2))
                }
            } else {
                g.deep_eq(&w)
            }
        }
        "keys" | "values" => match (&g, &w) {
            (J::Arr(a), J::Arr(b2)) => is_perm(a, b2),
            _ => false,
        },
        "to_string" => match (&d.args[0], &g) {
            (J::Str(s), J::Str(t)) => s == t,
            (v, J::Str(t)) => J::parse(t).map(|p| p.exact_eq(v)).unwrap_or(false),
            _ => false,
        },
        "to_number" => {
            (matches!(g, J::Num(_)) || g.is_null()) && (g.deep_eq(&w) || cx.ambiguous.iter().any(|a| a.starts_with("to_number")))
        }
        "sum" | "avg" => {
            g.approx_eq(&w, 1e-9) || {
                // cancellation: any summation method within the a-priori error bound is "the sum"
                let xs: Vec<f64> = d.args[0].as_arr().map(|a| a.iter().filter_map(|x| x.as_num()).collect()).unwrap_or_default();
                let scale = if d.name == "avg" { xs.len().max(1) as f64 } else { 1.0 };
                cx.ambiguous.contains(&"sum-rounding") && matches!((g.as_num(), w.as_num()), (Some(a), Some(b2)) if (a - b2).abs() <= refeval::sum_bound(&xs) / scale)
            }
        }
        "type" if cx.ambiguous.contains(&"expref-for-any") => true,
        _ => g.deep_eq(&w),
    };
    if !ok && cx.ambiguous.contains(&"to_string-format") {
        // how a non-integer number is spelled inside a string is the formatter's choice
        st.class("skip:ambiguous");
        return Ok(());
    }
    if !ok {
        return Err(Failure::new("direct", &sigkey, format!("gave {} expected {}", g.to_json(), w.to_json()), case));
    }
    // keys and values correspond pairwise
    if d.name == "keys" || d.name == "values" {
        let arg = match &tree {
            crate::refast::RefExpr::Call(_, a) => a[0].clone(),
            _ => crate::refast::RefExpr::Current,
        };
        let at = match &arg {
            crate::refast::RefExpr::Field(n) => n.clone(),
            crate::refast::RefExpr::Literal(v) => spell_backtick(&v.to_json()),
            _ => "@".into(),
        };
        let both = format!("[keys({}), values({})]", at, at);
        if let ImpOut::Ok(J::Arr(kv)) = search_text(&both, &dt) {
            if let (Some(J::Arr(ks)), Some(J::Arr(vs)), J::Obj(o)) = (kv.first(), kv.get(1), &d.args[0]) {
                let pairs_ok = ks.len() == vs.len()
                    && ks.len() == o.len()
                    && ks.iter().zip(vs.iter()).all(|(k, v)| match k {
                        J::Str(k) => o.get(k).map(|x| x.exact_eq(v)).unwrap_or(false),
                        _ => false,
                    });
                if !pairs_ok {
                    return Err(Failure::new("direct", "keys-values-do-not-correspond", format!("{} gave {}", both, J::Arr(kv.clone()).to_json()), case));
                }
            }
        }
    }
    fn_classes(&cx, st);
    let nonempty = d.args.iter().any(|a| match a {
        J::Arr(x) => !x.is_empty(),
        J::Str(x) => !x.is_empty(),
        J::Obj(x) => !x.is_empty(),
        J::Null | J::Expref(_) => false,
        _ => true,
    });
    if nonempty && st.nontrivial(&format!("{}\u{0}{}", d.text, dt)) {
        st.sample(|| json!({"expression": d.text, "document": dt, "result": g.to_json()}));
    }
    Ok(())
}

/// A runtime with the built-ins plus a recording function `rec`: observes how
/// often and on what an expression reference is evaluated.
/// Structural identities, checked with the implementation's own results and
/// compared exactly (integer / float spelling and every bit of a double):
/// functions that move values around without computing on them hand back the
/// very values they were given.  No reference values are involved, so the
/// documents are free to contain numbers that are one unit in the last place
/// apart, the same value in several spellings, and neighbouring large integers.
fn structural(src: &mut Src, st: &mut Stats, _env: &Env) -> CaseResult {
    use crate::gen_doc::{gen_json, near_value_opt, DocOpts};
    // a cluster of values that are pairwise "almost" the same
    let o = DocOpts { max_depth: 2, max_width: 3, wild_numbers: true, ..DocOpts::default() };
    let seed_val = match src.below(6) {
        0 => J::f([0.3, 0.1 + 0.2, 1e22, 1.0, 100.0, 1.0 / 3.0, 2.5e15, 5e-324, 4.35][src.below(9)]),
        1 => J::Num(N::Int([1i128 << 53, (1 << 53) + 1, i64::MAX as i128, u64::MAX as i128 - 1, 0, 1, -1][src.below(7)])),
        2 => J::Str(crate::gen_doc::gen_string(src)),
        _ => gen_json(src, 1, &o),
    };
    let mut cluster = vec![seed_val.clone()];
    for _ in 0..src.below(6) {
        let base = cluster[src.below(cluster.len())].clone();
        cluster.push(near_value_opt(&base, src, true));
    }
    let pick = |src: &mut Src| cluster[src.below(cluster.len())].clone();
    // a: object, b: object with (mostly) the same keys and clustered values; xs: array; objs: keyed rows
    let keys = ["k", "n", "s", "ab", "foo"];
    let nk = 1 + src.below(keys.len());
    let mut a = BTreeMap::new();
    let mut b2 = BTreeMap::new();
    for k in keys.iter().take(nk) {
        a.insert(k.to_string(), pick(src));
        b2.insert(k.to_string(), pick(src));
    }
    if src.chance(60) {
        b2.insert("extra".to_string(), pick(src));
    }
    let n = if src.chance(60) { 21 + src.below(80) } else { src.below(9) };
    let xs: Vec<J> = (0..n).map(|_| if src.chance(20) { J::Null } else { pick(src) }).collect();
    let key_num = src.flip();
    let objs: Vec<J> = (0..n)
        .map(|i| {
            let mut m = BTreeMap::new();
            m.insert("i".to_string(), J::int(i as i64));
            m.insert("k".to_string(), if key_num { J::int(src.range(0, 2)) } else { J::Str(src.pick(&["a", "b", ""]).to_string()) });
            m.insert("v".to_string(), pick(src));
            J::Obj(m)
        })
        .collect();
    let homogeneous: Option<Vec<J>> = {
        // a sortable array: only numbers or only strings from the cluster
        let nums: Vec<J> = xs.iter().filter(|x| matches!(x, J::Num(_))).cloned().collect();
        let strs: Vec<J> = xs.iter().filter(|x| matches!(x, J::Str(_))).cloned().collect();
        if !nums.is_empty() && src.flip() {
            Some(nums)
        } else if !strs.is_empty() {
            Some(strs)
        } else {
            None
        }
    };
    let mut doc = BTreeMap::new();
    doc.insert("a".to_string(), J::Obj(a));
    doc.insert("b".to_string(), J::Obj(b2.clone()));
    doc.insert("xs".to_string(), J::Arr(xs.clone()));
    doc.insert("objs".to_string(), J::Arr(objs));
    doc.insert("z".to_string(), J::Null);
    if let Some(h) = &homogeneous {
        doc.insert("hs".to_string(), J::Arr(h.clone()));
    }
    let dt = J::Obj(doc).to_json();
    // (expression, expression whose result must be identical) or multiset relations
    let same: Vec<(String, String)> = vec![
        ("merge(a, b)".into(), if b2.len() >= nk { "b".into() } else { "merge(a, b)".into() }),
        ("merge(a, b, b)".into(), "merge(a, b)".into()),
        ("merge(b)".into(), "b".into()),
        ("merge(b, `{}`)".into(), "b".into()),
        ("merge(`{}`, a)".into(), "a".into()),
        ("reverse(reverse(xs))".into(), "xs".into()),
        ("values(b)[?type(@) != 'null']".into(), "b.*".into()),
        ("map(&@, xs)".into(), "xs".into()),
        ("map(&[@][0], xs)".into(), "xs".into()),
        ("not_null(z, a)".into(), "a".into()),
        ("not_null(xs)".into(), "xs".into()),
        ("to_array(xs)".into(), "xs".into()),
        ("to_array(a)[0]".into(), "a".into()),
        ("[a, b][1]".into(), "b".into()),
        ("{p: xs, q: a}.p".into(), "xs".into()),
        ("xs[*]".into(), "xs[?type(@) != 'null']".into()),
        ("xs[::-1]".into(), "reverse(xs)[*]".into()),
        ("objs[*].v".into(), "map(&v, objs)[?type(@) != 'null']".into()),
        ("sort_by(objs, &i)".into(), "objs".into()),
        ("sort_by(objs, &k)[?i == `0`] | [0]".into(), "objs[0]".into()),
        ("reverse(sort_by(reverse(objs), &i))".into(), "reverse(objs)".into()),
        ("max_by(objs, &i)".into(), "objs[-1]".into()),
        ("min_by(objs, &i)".into(), "objs[0]".into()),
        ("(xs || z)".into(), if xs.is_empty() { "z".into() } else { "xs".into() }),
        ("[xs, a] | [0]".into(), "xs".into()),
        ("xs[0:]".into(), "xs[*]".into()),
        ("[xs[]][0]".into(), "xs[]".into()),
    ];
    let (e1, e2) = same[src.below(same.len())].clone();
    st.eval();
    let run = |e: &str| search_text(e, &dt);
    let case = json!({"expression": e1, "same_as": e2, "document": dt});
    match (run(&e1), run(&e2)) {
        (ImpOut::Ok(x), ImpOut::Ok(y)) => {
            if !x.exact_eq(&y) {
                return Err(Failure::new("structural", "structural-identity-broken", format!("{} gave {} but {} gave {}", e1, clip(&x.to_json(), 300), e2, clip(&y.to_json(), 300)), case));
            }
        }
        (ImpOut::Panic(p), _) | (_, ImpOut::Panic(p)) => return Err(Failure::new("structural", "panic", p, case)),
        (ImpOut::SearchErr(_), ImpOut::SearchErr(_)) => {}
        (x, y) => return Err(Failure::new("structural", "structural-identity-broken", format!("{} gave {} but {} gave {}", e1, x.brief(), e2, y.brief()), case)),
    }
    // sorting / extremes of a homogeneous array: a permutation of the input, element by element exact
    // (the input elements as the implementation itself reads them: its JSON parser is only
    // accurate to 2 ulp on long numerals, which is outside this property)
    let homogeneous: Option<Vec<J>> = match (&homogeneous, run("hs")) {
        (Some(_), ImpOut::Ok(J::Arr(h))) => Some(h),
        _ => None,
    };
    if let Some(h) = &homogeneous {
        for (e, want_len) in [("sort(hs)", h.len()), ("sort_by(hs, &@)", h.len()), ("[max(hs)]", 1), ("[min(hs)]", 1), ("reverse(sort(hs))", h.len())] {
            match run(e) {
                ImpOut::Ok(J::Arr(got)) => {
                    let mut used = vec![false; h.len()];
                    let mut ok = got.len() == want_len;
                    for g in &got {
                        match h.iter().enumerate().position(|(i, x)| !used[i] && x.exact_eq(g)) {
                            Some(i) => used[i] = true,
                            None => ok = false,
                        }
                    }
                    if !ok {
                        return Err(Failure::new("structural", "result-not-made-of-input-elements", format!("{} gave {} from {}", e, clip(&J::Arr(got.clone()).to_json(), 300), clip(&J::Arr(h.clone()).to_json(), 300)), json!({"expression": e, "document": dt})));
                    }
                }
                ImpOut::Panic(p) => return Err(Failure::new("structural", "panic", p, json!({"expression": e, "document": dt}))),
                other => return Err(Failure::new("structural", "result-not-made-of-input-elements", format!("{} gave {}", e, other.brief()), json!({"expression": e, "document": dt}))),
            }
        }
    }
    st.class(&format!("identity:{}", e1.split('(').next().unwrap_or("")));
    if cluster.len() >= 3 && st.nontrivial(&format!("{}\u{0}{}", e1, dt)) {
        st.sample(|| json!({"expression": e1, "same_as": e2, "cluster": cluster.iter().map(|c| c.to_json()).collect::<Vec<_>>()}));
    }
    Ok(())
}

fn counting(src: &mut Src, st: &mut Stats, _env: &Env) -> CaseResult {
    let log: Arc<Mutex<Vec<String>>> = Arc::new(Mutex::new(vec![]));
    let log2 = log.clone();
    let mut rt = jmespath::Runtime::new();
    rt.register_builtin_functions();
    rt.register_function(
        "rec",
        Box::new(move |args: &[jmespath::Rcvar], _ctx: &mut jmespath::Context<'_>| {
            log2.lock().unwrap().push(args.iter().map(|a| a.to_string()).collect::<Vec<_>>().join("|"));
            Ok(args[0].clone())
        }),
    );
    let arr = by_array_of(src, false);
    let n = arr.as_arr().map(|a| a.len()).unwrap_or(0);
    let key = *src.pick(&["k", "n", "id", "s"]);
    let (f, expr) = match src.below(4) {
        0 => ("map", format!("map(&rec({}), xs)", key)),
        1 => ("sort_by", format!("sort_by(xs, &rec({}))", key)),
        2 => ("max_by", format!("max_by(xs, &rec({}))", key)),
        _ => ("min_by", format!("min_by(xs, &rec({}))", key)),
    };
    let doc = json!({ "xs": arr.to_value() }).to_string();
    st.eval();
    let case = json!({"expression": expr, "document": doc});
    let compiled = rt.compile(&expr).map_err(|e| Failure::new("counting", "harness-compile", e.to_string(), case.clone()))?;
    let v = jmespath::Variable::from_json(&doc).unwrap();
    let res = catch(std::panic::AssertUnwindSafe(|| compiled.search(v).map(|r| var_to_j(&r))));
    let got = match res {
        Err(p) => return Err(Failure::new("counting", "panic", p, case)),
        Ok(Err(e)) => return Err(Failure::new("counting", "by-function-failed", e.to_string(), case)),
        Ok(Ok(j)) => j,
    };
    let seen = log.lock().unwrap().clone();
    let expected: Vec<String> = arr.as_arr().unwrap().iter().map(|e| match e {
        J::Obj(o) => o.get(key).map(|v| v.to_json()).unwrap_or_else(|| "null".into()),
        _ => "null".into(),
    }).collect();
    // evaluated exactly once per element, against that element, in order
    let seen_vals: Vec<J> = seen.iter().filter_map(|s| J::parse(s).ok()).collect();
    let exp_vals: Vec<J> = expected.iter().filter_map(|s| J::parse(s).ok()).collect();
    let same = seen_vals.len() == exp_vals.len() && seen_vals.iter().zip(exp_vals.iter()).all(|(a, b2)| a.deep_eq(b2));
    if !same {
        return Err(Failure::new(
            "counting",
            "expref-not-once-per-element",
            format!("{}: expression reference saw {:?}, expected one evaluation per element: {:?}", f, seen, expected),
            case,
        ));
    }
    // and the result agrees with the reference (rec is the identity)
    let plain = expr.replace(&format!("rec({})", key), key);
    let tree = crate::refparse::parse_strict(&plain).map_err(|e| Failure::new("counting", "harness-ref", e.msg, case.clone()))?;
    let mut cx = refeval::Ctx::default();
    let d = J::parse(&doc).unwrap();
    if let Ok(w) = refeval::eval(&tree, &d, &mut cx) {
        let ok = if cx.ambiguous.is_empty() { got.deep_eq(&w) } else { true };
        if !ok {
            return Err(Failure::new("counting", &format!("{}-wrong", f), format!("gave {} expected {}", got.to_json(), w.to_json()), case));
        }
    }
    st.class(&format!("counting:{}", f));
    if n > 0 && st.nontrivial(&format!("{}\u{0}{}", expr, doc)) {
        st.sample(|| json!({"expression": expr, "elements": n, "evaluations": seen.len()}));
    }
    let _ = N::Int(0);
    Ok(())
}

/// Core expressions over heterogeneous documents (nulls, mixed arrays) in which
/// sub-expressions are wrapped in *total* built-ins (type, not_null, to_array,
/// to_string of strings): functions meet nulls and non-uniform data inside
/// pipes, projections and filters.
fn mixed(src: &mut Src, st: &mut Stats, _env: &Env) -> CaseResult {
    use crate::gen_doc::{gen_doc, DocOpts};
    use crate::gen_expr::{gen_expr, ExprOpts};
    use crate::refast::RefExpr as R;
    let doc = gen_doc(src, &DocOpts::default());
    let o = ExprOpts { max_depth: 4, step_zero: false, extremes: false, ..ExprOpts::default() };
    let tree = gen_expr(src, 0, Some(&doc), &o);
    // wrap some sub-expressions / projection right-hand sides in total functions
    fn wrap(e: R, src: &mut Src, budget: &mut usize) -> R {
        let e = match e {
            R::Proj { kind, subject, rhs } => {
                let rhs = if *budget > 0 && src.chance(110) {
                    *budget -= 1;
                    // applied to each element: `.type(@)`-like steps are expressed as a call on the current element
                    let f = *src.pick(&["type", "not_null", "to_array"]);
                    let inner = wrap(*rhs, src, budget);
                    let arg = inner;
                    match f {
                        "not_null" => R::Call("not_null".into(), vec![arg, R::Literal(J::s("dflt"))]),
                        other => R::Call(other.into(), vec![arg]),
                    }
                } else {
                    wrap(*rhs, src, budget)
                };
                R::Proj { kind, subject: subject.map(|s| Box::new(wrap(*s, src, budget))), rhs: Box::new(rhs) }
            }
            R::Pipe(l, r) => R::Pipe(Box::new(wrap(*l, src, budget)), Box::new(wrap(*r, src, budget))),
            R::Or(l, r) => R::Or(Box::new(wrap(*l, src, budget)), Box::new(wrap(*r, src, budget))),
            R::And(l, r) => R::And(Box::new(wrap(*l, src, budget)), Box::new(wrap(*r, src, budget))),
            R::Not(x) => R::Not(Box::new(wrap(*x, src, budget))),
            R::MultiList(es) => R::MultiList(es.into_iter().map(|x| wrap(x, src, budget)).collect()),
            other => other,
        };
        if *budget > 0 && src.chance(40) {
            *budget -= 1;
            match src.below(3) {
                0 => R::Call("type".into(), vec![e]),
                1 => R::Call("not_null".into(), vec![e, R::Literal(J::Null), R::Literal(J::int(0))]),
                _ => R::Call("to_array".into(), vec![e]),
            }
        } else {
            e
        }
    }
    let mut budget = 4;
    let tree = wrap(tree, src, &mut budget);
    let (text, _, _) = match spell_tree(&tree, src, st) {
        Some(x) => x,
        None => {
            st.discard();
            return Ok(());
        }
    };
    st.eval();
    let dt = doc.to_json();
    let mut cx = refeval::Ctx::default();
    let want = refeval::eval(&tree, &doc, &mut cx);
    let c = compare("mixed", &tree, &text, &doc, &dt, st, true)?;
    if want.is_ok() {
        fn_classes(&cx, st);
    }
    if c.nontrivial && !cx.calls.is_empty() && st.nontrivial(&format!("{}\u{0}{}", text, dt)) {
        st.sample(|| json!({"expression": text, "document": dt}));
    }
    Ok(())
}

/// Call towers: a multi-argument call under 1..16 enclosing calls, with
/// further calls in non-first argument positions at every level.
fn call_towers(src: &mut Src, st: &mut Stats, _env: &Env) -> CaseResult {
    let doc = schema_doc(src);
    let depth = 1 + src.below(16);
    let core = *src.pick(&[
        "starts_with(s, to_string(s))",
        "join(s, sort(strs))",
        "contains(nums, abs(n))",
        "merge(o, not_null(z, o2), on)",
        "not_null(z, length(strs), n)",
        "max_by(objs, &abs(n))",
        "ends_with(to_string(n), to_string(n))",
    ]);
    let mut text = core.to_string();
    for i in 0..depth {
        text = match (i + src.below(3)) % 4 {
            0 => format!("not_null(z, {})", text),
            1 => format!("not_null({}, length(s))", text),
            2 => format!("to_array({})[0]", text),
            _ => format!("not_null(z, not_null(z, z), {}, to_string(n))", text),
        };
    }
    let tree = crate::refparse::parse_strict(&text).map_err(|e| Failure::new("call-towers", "harness-ref", e.msg, json!({"expression": text})))?;
    st.eval();
    let dt = doc.to_json();
    let c = compare("call-towers", &tree, &text, &doc, &dt, st, true)?;
    st.class(if depth >= 8 { "call-tower:deep" } else { "call-tower:shallow" });
    if c.nontrivial && st.nontrivial(&format!("{}\u{0}{}", text, dt)) {
        st.sample(|| json!({"expression": text}));
    }
    Ok(())
}

/// Every compliance expression that uses a function x every compliance
/// document and 40 schema documents (enumerated).
fn cross(env: &Env, st: &mut Stats) -> Vec<Failure> {
    let c = crate::corpus::corpus();
    let mut docs: Vec<(J, String)> = c.documents().into_iter().map(|(j, t)| (j.clone(), t.to_string())).collect();
    for i in 0..40u64 {
        let bytes = crate::props::c01::seeded_bytes(env.seed, 0x5C4E + i, 2500);
        let mut s = Src::new(&bytes);
        let d = schema_doc(&mut s);
        let t = d.to_json();
        docs.push((d, t));
    }
    let mut fails = vec![];
    let mut n = 0u64;
    for e in c.valid_expressions() {
        let tree = match crate::refparse::parse_strict(e) {
            Ok(t) => t,
            Err(_) => continue,
        };
        if crate::props::c01::is_core(&tree) {
            continue;
        }
        n += 1;
        for (d, dt) in &docs {
            st.eval();
            match compare("cross", &tree, e, d, dt, st, true) {
                Ok(cmp) => {
                    if cmp.nontrivial && st.nontrivial(&format!("{}\u{0}{}", e, dt)) {
                        st.sample(|| json!({"expression": e, "document": dt}));
                    }
                }
                Err(f) => {
                    fails.push(f);
                    if fails.len() > 20 {
                        return fails;
                    }
                }
            }
        }
    }
    st.class_n("cross:function-expressions", n);
    fails
}

fn replay_cross(case: &serde_json::Value, _env: &Env) -> CaseResult {
    let e = case["expression"].as_str().unwrap_or("");
    let dt = case["document"].as_str().unwrap_or("null");
    let d = J::parse(dt).map_err(|m| Failure::new("cross", "harness-bad-doc", m, case.clone()))?;
    let tree = crate::refparse::parse(e, crate::refparse::Mode::RelaxedExpref).map_err(|m| Failure::new("cross", "harness-bad-expr", m.msg, case.clone()))?;
    let mut st = Stats::new();
    compare("cross", &tree, e, &d, dt, &mut st, true).map(|_| ())
}

/// Token- and document-level minimisation (replayed by `cross`).
fn minimise(f: &Failure, env: &Env) -> Option<(Failure, serde_json::Value)> {
    let e = f.case["expression"].as_str()?;
    let d = f.case["document"].as_str()?;
    let check = |e: &str, d: &str| -> Option<String> {
        match replay_cross(&json!({"expression": e, "document": d}), env) {
            Err(fl) if !fl.sig.starts_with("harness-") => Some(fl.sig),
            _ => None,
        }
    };
    if check(e, d).as_deref() != Some(f.sig.as_str()) {
        return None;
    }
    let (e2, d2) = crate::minimise::minimise_pair(e, d, &f.sig, &check);
    let case = json!({"expression": e2, "document": d2});
    match replay_cross(&case, env) {
        Err(mut fl) => {
            fl.message = format!("{} [minimised from a case of sub-check {}]", fl.message, f.sub);
            Some((fl, json!({"kind": "case", "case": case})))
        }
        Ok(()) => None,
    }
}

pub fn property() -> Property {
    Property {
        id: "C02",
        rule: RULE,
        assumptions: vec![
            "where the specification admits several answers only validity is asserted: which tied element max_by/min_by return, the order of keys()/values() (permutation + pairwise correspondence), the formatting of to_string on non-strings (re-parse equality), to_number on padded or unrepresentable numerals".into(),
            "sums and averages are compared with relative tolerance 1e-9; magnitudes stay finite".into(),
            "an expression reference passed where `any` is declared is a don't-care".into(),
        ],
        minimise: Some(minimise),
        subs: vec![
            Sub::Custom(CustomSub { name: "cross", run: cross, replay: replay_cross }),
            Sub::Bytes(BytesSub { name: "direct", f: direct, max_len: 700, quick: Budget { threads: 8, cases: 24000 }, thorough: Budget { threads: 16, cases: 300_000 }, keep_unreproducible: false }),
            Sub::Bytes(BytesSub { name: "structural", f: structural, max_len: 1500, quick: Budget { threads: 8, cases: 8000 }, thorough: Budget { threads: 16, cases: 200_000 }, keep_unreproducible: false }),
            Sub::Bytes(BytesSub { name: "nested", f: nested, max_len: 2500, quick: Budget { threads: 8, cases: 12000 }, thorough: Budget { threads: 16, cases: 120_000 }, keep_unreproducible: false }),
            Sub::Bytes(BytesSub { name: "mixed", f: mixed, max_len: 1500, quick: Budget { threads: 8, cases: 12000 }, thorough: Budget { threads: 16, cases: 120_000 }, keep_unreproducible: false }),
            Sub::Bytes(BytesSub { name: "call-towers", f: call_towers, max_len: 2500, quick: Budget { threads: 4, cases: 4000 }, thorough: Budget { threads: 16, cases: 40_000 }, keep_unreproducible: false }),
            Sub::Bytes(BytesSub { name: "counting", f: counting, max_len: 500, quick: Budget { threads: 4, cases: 6000 }, thorough: Budget { threads: 16, cases: 50_000 }, keep_unreproducible: false }),
        ],
    }
}
