//! Document generators (decoders from a choice source).

use std::collections::BTreeMap;

use crate::model::{J, N};
use crate::src::Src;

/// Keys shared between documents and expressions so that look-ups hit often.
pub const KEYS: &[&str] = &["a", "b", "c", "d", "foo", "bar", "id", "k", "n", "s", "ab", "ba", "aa", "abc"];
/// Keys that need the quoted-identifier spelling.
pub const ODD_KEYS: &[&str] = &[
    "", "a b", "0", "a-b", "é", "日本", "😀", "q\"q", "b\\s", "@", "*", "a.b", "\n", "true", "e\u{301}", "\u{e9}\u{301}", "ß", "SS", "ǆ", "\u{5d0}\u{5d1}", "\u{d7ff}", "\u{e000}", "\u{fffe}", "\u{ffff}",
    "a\u{0}b", "A", "İ", "ı", "ﬁ", "a ", " a",
];

pub const STRINGS: &[&str] = &[
    "", "a", "b", "abc", "foo", "bar", "Bar", "é", "日本語", "😀", "a b", "0", "1", "true", "null", "1.5", "[1]", "aé😀", "x'y", "q\"q",
    "b\\s", "`t`", "zz", "A", "ab", "ba", "e\u{301}", "\u{5d0}\u{5d1}", "\t", "foo bar",
];

#[derive(Clone, Copy)]
pub struct DocOpts {
    pub max_depth: usize,
    pub max_width: usize,
    pub odd_keys: bool,
    /// allow arbitrary doubles (not only the well-separated pool)
    pub wild_numbers: bool,
}

impl Default for DocOpts {
    fn default() -> Self {
        DocOpts { max_depth: 4, max_width: 5, odd_keys: true, wild_numbers: false }
    }
}

/// Well-separated number pool: small integers, dyadic fractions, a few large
/// exact integers, and integer-valued doubles (same value, float spelling).
/// A value that is *almost* `v`: the same number in another spelling or the
/// next representable neighbour, a string with one character changed, a
/// container with one leaf changed.  Siblings like these expose deduplication,
/// interning and caching that key too coarsely.
pub fn near_value(v: &J, src: &mut Src) -> J {
    near_value_opt(v, src, false)
}

/// `ulp`: also produce the neighbouring double (only where the consumer tolerates the
/// JSON parser's 2 ulp accuracy on 17-digit numerals).
pub fn near_value_opt(v: &J, src: &mut Src, ulp: bool) -> J {
    match v {
        // the zero family: 0, 0.0 and -0.0 are one value in three spellings
        J::Num(N::Int(0)) if src.chance(100) => J::Num(N::F(if src.flip() { -0.0 } else { 0.0 })),
        J::Num(N::F(f)) if *f == 0.0 && src.chance(160) => {
            if f.is_sign_negative() {
                if src.flip() {
                    J::Num(N::F(0.0))
                } else {
                    J::Num(N::Int(0))
                }
            } else {
                J::Num(N::F(-0.0))
            }
        }
        J::Num(N::Int(i)) => match src.below(3) {
            // (only while the float spelling stays within 15 written digits, which the JSON parser reads exactly)
            0 if i.abs() < 10_000_000_000_000 => J::Num(N::F(*i as f64)),
            1 if *i < u64::MAX as i128 => J::Num(N::Int(*i + 1)),
            1 => J::Num(N::Int(*i - 1)),
            _ => J::Num(N::Int(*i)),
        },
        J::Num(N::F(f)) => match src.below(3) {
            0 if f.fract() == 0.0 && f.abs() < 1e15 => J::Num(N::Int(*f as i128)),
            1 if ulp => J::Num(N::F(f64::from_bits(f.to_bits() ^ 1))),
            _ => J::Num(N::F(*f + 0.5)),
        },
        J::Str(s) => {
            let mut cs: Vec<char> = s.chars().collect();
            if cs.is_empty() {
                return J::s(" ");
            }
            let i = src.below(cs.len());
            match src.below(3) {
                0 => cs[i] = if cs[i] == 'a' { 'b' } else { 'a' },
                1 => cs.push(cs[i]),
                _ => {
                    cs.remove(i);
                }
            }
            J::Str(cs.into_iter().collect())
        }
        J::Arr(a) if !a.is_empty() => {
            let mut b2 = a.clone();
            let i = src.below(b2.len());
            b2[i] = near_value_opt(&b2[i], src, ulp);
            J::Arr(b2)
        }
        J::Obj(o) if !o.is_empty() => {
            let mut m = o.clone();
            let ks: Vec<String> = m.keys().cloned().collect();
            let k = ks[src.below(ks.len())].clone();
            let nv = near_value_opt(&m[&k], src, ulp);
            m.insert(k, nv);
            J::Obj(m)
        }
        J::Bool(b) => J::Bool(!b),
        other => other.clone(),
    }
}

pub fn gen_number(src: &mut Src) -> J {
    if src.chance(6) {
        // huge but well-separated integers (beyond i64) and magnitudes next to zero
        return match src.below(8) {
            0 => J::Num(N::Int(9223372036854775808)),
            1 => J::Num(N::Int(18446744073709551615)),
            2 => J::Num(N::Int(12000000000000000000)),
            3 => J::Num(N::Int(-9223372036854775808)),
            4 => J::f(1e-17),
            5 => J::f(-3e-200),
            6 => J::f(5e-324),
            _ => if src.flip() { J::f(-0.0) } else { J::int(0) },
        };
    }
    match src.weighted(&[10, 6, 2, 3, 2]) {
        4 => match src.below(3) {
            0 => J::int(0),
            1 => J::f(0.0),
            _ => J::f(-0.0),
        },
        0 => J::int(src.range(-3, 12)),
        1 => {
            let k = src.range(-40, 40);
            J::f(k as f64 / 8.0)
        }
        2 => {
            let bigs: [i64; 8] = [1 << 31, (1 << 31) - 1, -(1 << 31), 1 << 40, (1 << 53) - 1, -((1 << 53) - 1), 1_000_000, -1_000_000];
            J::int(*src.pick(&bigs))
        }
        _ => J::f(src.range(-3, 12) as f64),
    }
}

/// Text that looks like (or almost like) a JSON value: numerals in every
/// spelling, other JSON texts, each optionally padded with JSON blanks, other
/// Unicode white space or stray characters.  What `to_number`, literal
/// decoding and comparisons make of such strings is decided by exact rules.
pub fn gen_jsonish(src: &mut Src) -> String {
    const CORES: &[&str] = &[
        "42", "-7", "0", "-0", "1.5", "-0.25", "1e3", "1E+2", "2.5e-3", "1e400", "-1e400", "01", "-01", "1.", ".5", "+1", "--1", "1e", "0x10", "1_000", "1,5",
        "\u{ff11}\u{ff12}", "\u{663}", "\u{b2}", "NaN", "Infinity", "-Infinity", "true", "false", "null", "[1]", "[1, 2]", "{\"a\":1}", "\"abc\"", "\"1\"", "[]", "{}",
        "9007199254740993", "18446744073709551616", "0.1", "123456789012", "1e-7", "4 2", "",
    ];
    const PADS: &[&str] = &[
        " ", "\t", "\n", "\r", "  ", "\r\n", "\u{a0}", "\u{b}", "\u{c}", "\u{85}", "\u{1680}", "\u{2003}", "\u{2028}", "\u{2029}", "\u{202f}", "\u{205f}", "\u{3000}", "\u{feff}", "\u{200b}",
        "\u{0}", "x", "'", "\"",
    ];
    let mut s = String::new();
    let pad = |src: &mut Src, s: &mut String| {
        if src.chance(90) {
            for _ in 0..1 + src.below(2) {
                // JSON's own blanks as often as everything else together
                s.push_str(if src.flip() { *src.pick(&[" ", "\t", "\n", "\r"]) } else { *src.pick(PADS) });
            }
        }
    };
    pad(src, &mut s);
    if src.chance(60) {
        // a generated numeral
        match gen_number(src) {
            J::Num(N::Int(i)) => s.push_str(&i.to_string()),
            other => s.push_str(&other.to_json()),
        }
    } else {
        s.push_str(*src.pick(CORES));
    }
    pad(src, &mut s);
    s
}

pub fn gen_string(src: &mut Src) -> String {
    if src.chance(14) {
        return gen_jsonish(src);
    }
    if src.chance(200) {
        src.pick(STRINGS).to_string()
    } else {
        let n = if src.chance(20) { src.size(200) } else { src.below(6) };
        let mut s = String::new();
        for _ in 0..n {
            s.push(gen_char(src));
        }
        s
    }
}

pub fn gen_char(src: &mut Src) -> char {
    match src.weighted(&[10, 3, 2, 2, 2, 1]) {
        0 => (b'a' + src.below(26) as u8) as char,
        1 => *src.pick(&['\'', '"', '`', '\\', ' ', '/', '-', '0', '9', '_', 'A', 'Z']),
        2 => *src.pick(&['é', 'ß', 'λ', 'Ж', 'א', '\u{301}', '\u{200d}', 'İ', 'ı', 'ǆ', 'ŉ', 'ﬁ', '\u{308}', '\u{5d1}', '\u{627}', '\u{200f}', '\u{202e}', 'Σ', 'ς']),
        3 => *src.pick(&['日', '本', '語', '한', '\u{ffff}', '\u{fffd}', '\u{d7ff}', '\u{e000}', '\u{fffe}', '\u{fdd0}', '\u{1fffe}', '\u{7ff}', '\u{800}']),
        4 => *src.pick(&['😀', '𝄞', '\u{10000}', '\u{10ffff}', '🇺']),
        _ => *src.pick(&['\n', '\t', '\r', '\u{0}', '\u{1f}', '\u{7f}', '\u{8}', '\u{c}', '\u{80}', '\u{85}', '\u{9f}', '\u{a0}', '\u{ad}', '\u{2028}', '\u{feff}']),
    }
}

pub fn gen_key(src: &mut Src, odd: bool) -> String {
    if odd && src.chance(30) {
        src.pick(ODD_KEYS).to_string()
    } else {
        src.pick(KEYS).to_string()
    }
}

pub fn gen_scalar(src: &mut Src) -> J {
    match src.weighted(&[2, 2, 6, 5]) {
        0 => J::Null,
        1 => J::Bool(src.flip()),
        2 => gen_number(src),
        _ => J::Str(gen_string(src)),
    }
}

pub fn gen_json(src: &mut Src, depth: usize, o: &DocOpts) -> J {
    let container_w = if depth >= o.max_depth { 0 } else { 5 };
    match src.weighted(&[2, 2, 6, 5, container_w, container_w]) {
        0 => J::Null,
        1 => J::Bool(src.flip()),
        2 => {
            if o.wild_numbers && src.chance(64) {
                let f = f64::from_bits(src.u64());
                if f.is_finite() {
                    J::f(f)
                } else {
                    J::int(0)
                }
            } else {
                gen_number(src)
            }
        }
        3 => J::Str(gen_string(src)),
        4 => gen_array(src, depth, o),
        _ => gen_object(src, depth, o),
    }
}

pub fn gen_array(src: &mut Src, depth: usize, o: &DocOpts) -> J {
    let n = if depth <= 1 && src.chance(10) { src.size(150) } else { src.below(o.max_width + 1) };
    // sometimes homogeneous arrays of objects (useful for filters / projections)
    let homogeneous = src.chance(96);
    let mut out: Vec<J> = vec![];
    for _ in 0..n {
        // sometimes an exact or near duplicate of the previous element
        if !out.is_empty() && src.chance(24) {
            let prev = out[out.len() - 1].clone();
            out.push(if src.flip() { prev } else { near_value(&prev, src) });
        } else if homogeneous && depth < o.max_depth {
            out.push(gen_object(src, depth + 1, o));
        } else {
            out.push(gen_json(src, depth + 1, o));
        }
    }
    J::Arr(out)
}

pub fn gen_object(src: &mut Src, depth: usize, o: &DocOpts) -> J {
    let n = src.below(o.max_width + 1);
    let mut m = BTreeMap::new();
    for _ in 0..n {
        let k = gen_key(src, o.odd_keys);
        let v = gen_json(src, depth + 1, o);
        m.insert(k, v);
    }
    J::Obj(m)
}

/// A top-level document: usually an object, sometimes an array or scalar.
pub fn gen_doc(src: &mut Src, o: &DocOpts) -> J {
    match src.weighted(&[12, 3, 1]) {
        0 => gen_object(src, 0, o),
        1 => gen_array(src, 0, o),
        _ => gen_scalar(src),
    }
}

pub fn is_int_valued(n: &N) -> bool {
    match n {
        N::Int(_) => true,
        N::F(f) => f.fract() == 0.0,
    }
}

/// Replicate the elements of one array of the document (top two levels) up to
/// a large length: crosses count thresholds inside projections and functions.
pub fn scale_some_array(doc: &mut J, src: &mut Src, max: usize) {
    // how the long array is filled: 0 = the existing elements repeated; 1 = every element
    // wrapped in a one-element list; 2 = scalars, one-element lists, and empty lists balanced
    // by pairs (as many members after a flatten as before); 3 = the existing elements with
    // nulls sprinkled in; 4 = all elements equal but the last few
    let mode = src.below(5);
    let grow = |a: &mut Vec<J>, n: usize| {
        if a.is_empty() {
            a.push(J::Obj([("a".to_string(), J::int(1))].into_iter().collect()));
            a.push(J::int(2));
        }
        let base = a.clone();
        let mut i = 0;
        while a.len() < n {
            a.push(base[i % base.len()].clone());
            i += 1;
        }
        match mode {
            1 => {
                for x in a.iter_mut() {
                    *x = J::Arr(vec![x.clone()]);
                }
            }
            2 => {
                let len = a.len();
                for (k, x) in a.iter_mut().enumerate() {
                    let keep = x.clone();
                    *x = match k % 4 {
                        0 => J::Arr(vec![keep]),
                        1 if k + 1 < len => J::Arr(vec![]),
                        2 => J::Arr(vec![keep.clone(), keep]),
                        _ => {
                            if matches!(keep, J::Arr(_)) {
                                J::int(k as i64)
                            } else {
                                keep
                            }
                        }
                    };
                }
            }
            3 => {
                let len = a.len();
                for k in [0, len / 3, len / 2, len - 1] {
                    a[k] = J::Null;
                }
            }
            4 => {
                let first = a[0].clone();
                let len = a.len();
                for (k, x) in a.iter_mut().enumerate() {
                    if k + 3 < len {
                        *x = first.clone();
                    }
                }
            }
            _ => {}
        }
    };
    let n = match src.below(4) {
        0 => 100 + src.below(200),
        1 => 1000 + src.below(100),
        2 => 9 + src.below(70),
        _ => src.size(max).max(64),
    };
    match doc {
        J::Arr(a) => grow(a, n),
        J::Obj(m) => {
            let keys: Vec<String> = m.iter().filter(|(_, v)| matches!(v, J::Arr(_))).map(|(k, _)| k.clone()).collect();
            if let Some(k) = keys.get(src.below(keys.len().max(1))) {
                if let Some(J::Arr(a)) = m.get_mut(k) {
                    grow(a, n);
                }
            } else {
                let mut a = vec![];
                grow(&mut a, n);
                m.insert("a".to_string(), J::Arr(a));
            }
        }
        _ => {}
    }
}
