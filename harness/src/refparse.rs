//! Reference parser: precedence climbing over the documented binding-power
//! order (pipe 1 < or 2 < and 3 < comparators 5 < flatten 9 < star 20 <
//! filter 21 < dot 40 < not 45 < brace 50 < bracket 55 < paren 60; a
//! projection's right-hand side stops at anything binding looser than 10).
//! Written from the ABNF and the statement of C03/C04.

use crate::reflex::{tokenize, LexError, Tokens, T};
use crate::refast::*;

#[derive(Clone, Copy, PartialEq, Eq, Debug)]
pub enum Mode {
    /// `&expr` only as a function argument (the grammar).
    Strict,
    /// `&expr` wherever an operand may start and after a dot (delimits the
    /// known finding C03/expref-outside-argument).
    RelaxedExpref,
}

#[derive(Clone, Debug)]
pub struct ParseError {
    pub pos: usize,
    pub msg: String,
    pub lexical: bool,
}

impl From<LexError> for ParseError {
    fn from(e: LexError) -> Self {
        ParseError { pos: e.pos, msg: e.msg, lexical: true }
    }
}

pub fn lbp(t: &T) -> u32 {
    match t {
        T::Pipe => 1,
        T::Or => 2,
        T::And => 3,
        T::Eq | T::Ne | T::Lt | T::Le | T::Gt | T::Ge => 5,
        T::Flatten => 9,
        T::Star => 20,
        T::Filter => 21,
        T::Dot => 40,
        T::Not => 45,
        T::LBrace => 50,
        T::LBracket => 55,
        T::LParen => 60,
        _ => 0,
    }
}

const PROJECTION_STOP: u32 = 10;
const RBP_STAR: u32 = 20;
const RBP_FILTER: u32 = 21;
const RBP_FLATTEN: u32 = 9;
const RBP_DOT: u32 = 40;
const RBP_NOT: u32 = 45;
const RBP_CMP: u32 = 5;

struct P<'a> {
    toks: &'a Tokens,
    i: usize,
    mode: Mode,
    depth: usize,
}

type R<X> = Result<X, ParseError>;

/// Far above anything the checks generate in-process (threads have a 1 GiB stack);
/// hitting it is a limit of the harness, never a verdict.
pub const MAX_DEPTH: usize = 200_000;

impl<'a> P<'a> {
    fn peek(&self) -> &T {
        &self.toks[self.i.min(self.toks.len() - 1)].1
    }
    fn peek_at(&self, k: usize) -> &T {
        &self.toks[(self.i + k).min(self.toks.len() - 1)].1
    }
    fn pos(&self) -> usize {
        self.toks[self.i.min(self.toks.len() - 1)].0
    }
    fn next(&mut self) -> T {
        let t = self.peek().clone();
        if self.i < self.toks.len() - 1 {
            self.i += 1;
        }
        t
    }
    fn err<X>(&self, msg: &str) -> R<X> {
        Err(ParseError { pos: self.pos(), msg: format!("{} (found {})", msg, self.peek().class()), lexical: false })
    }
    fn expect(&mut self, want: &str) -> R<()> {
        if self.peek().class() == want {
            self.next();
            Ok(())
        } else {
            self.err(&format!("expected {}", want))
        }
    }

    fn expr(&mut self, rbp: u32) -> R<RefExpr> {
        self.depth += 1;
        if self.depth > MAX_DEPTH {
            return self.err("reference parser depth limit");
        }
        let left = self.nud()?;
        let r = self.led_loop(left, rbp);
        self.depth -= 1;
        r
    }

    fn led_loop(&mut self, mut left: RefExpr, rbp: u32) -> R<RefExpr> {
        while rbp < lbp(self.peek()) {
            left = self.led(left)?;
        }
        Ok(left)
    }

    fn nud(&mut self) -> R<RefExpr> {
        match self.peek().clone() {
            T::At => {
                self.next();
                Ok(RefExpr::Current)
            }
            T::Ident(name) => {
                self.next();
                if matches!(self.peek(), T::LParen) {
                    self.next();
                    let args = self.args()?;
                    Ok(RefExpr::Call(name, args))
                } else {
                    Ok(RefExpr::Field(name))
                }
            }
            T::QIdent(name) => {
                self.next();
                if matches!(self.peek(), T::LParen) {
                    return self.err("quoted identifier cannot name a function");
                }
                Ok(RefExpr::Field(name))
            }
            T::Lit(v) => {
                self.next();
                Ok(RefExpr::Literal(v))
            }
            T::Star => {
                self.next();
                let rhs = self.chain(RBP_STAR)?;
                Ok(RefExpr::Proj { kind: ProjKind::ObjWild, subject: None, rhs: b(rhs) })
            }
            T::Flatten => {
                self.next();
                let rhs = self.chain(RBP_FLATTEN)?;
                Ok(RefExpr::Proj { kind: ProjKind::Flatten, subject: None, rhs: b(rhs) })
            }
            T::Filter => {
                self.next();
                self.filter(None)
            }
            T::LBracket => {
                self.next();
                match self.peek() {
                    T::Num(_) | T::Colon => self.bracket_index(None),
                    T::Star if matches!(self.peek_at(1), T::RBracket) => {
                        self.next();
                        self.next();
                        let rhs = self.chain(RBP_STAR)?;
                        Ok(RefExpr::Proj { kind: ProjKind::ListWild, subject: None, rhs: b(rhs) })
                    }
                    _ => self.multi_list(),
                }
            }
            T::LBrace => {
                self.next();
                self.multi_hash()
            }
            T::Not => {
                self.next();
                let e = self.expr(RBP_NOT)?;
                Ok(RefExpr::Not(b(e)))
            }
            T::LParen => {
                self.next();
                let e = self.expr(0)?;
                self.expect(")")?;
                Ok(e)
            }
            T::Amp if self.mode == Mode::RelaxedExpref => {
                self.next();
                let e = self.expr(0)?;
                Ok(RefExpr::Expref(b(e)))
            }
            _ => self.err("expected the start of an expression"),
        }
    }

    fn led(&mut self, left: RefExpr) -> R<RefExpr> {
        match self.peek().clone() {
            T::Dot => {
                self.next();
                if matches!(self.peek(), T::Star) {
                    self.next();
                    let rhs = self.chain(RBP_STAR)?;
                    Ok(RefExpr::Proj { kind: ProjKind::ObjWild, subject: Some(b(left)), rhs: b(rhs) })
                } else {
                    let rhs = self.dot_rhs(RBP_DOT)?;
                    Ok(RefExpr::Dot(b(left), b(rhs)))
                }
            }
            T::LBracket => {
                self.next();
                match self.peek() {
                    T::Num(_) | T::Colon => self.bracket_index(Some(left)),
                    T::Star => {
                        self.next();
                        self.expect("]")?;
                        let rhs = self.chain(RBP_STAR)?;
                        Ok(RefExpr::Proj { kind: ProjKind::ListWild, subject: Some(b(left)), rhs: b(rhs) })
                    }
                    _ => self.err("after an expression a bracket must hold a number, a slice or '*'"),
                }
            }
            T::Flatten => {
                self.next();
                let rhs = self.chain(RBP_FLATTEN)?;
                Ok(RefExpr::Proj { kind: ProjKind::Flatten, subject: Some(b(left)), rhs: b(rhs) })
            }
            T::Filter => {
                self.next();
                self.filter(Some(left))
            }
            T::Pipe => {
                self.next();
                let r = self.expr(1)?;
                Ok(RefExpr::Pipe(b(left), b(r)))
            }
            T::Or => {
                self.next();
                let r = self.expr(2)?;
                Ok(RefExpr::Or(b(left), b(r)))
            }
            T::And => {
                self.next();
                let r = self.expr(3)?;
                Ok(RefExpr::And(b(left), b(r)))
            }
            t @ (T::Eq | T::Ne | T::Lt | T::Le | T::Gt | T::Ge) => {
                self.next();
                let op = match t {
                    T::Eq => CmpOp::Eq,
                    T::Ne => CmpOp::Ne,
                    T::Lt => CmpOp::Lt,
                    T::Le => CmpOp::Le,
                    T::Gt => CmpOp::Gt,
                    _ => CmpOp::Ge,
                };
                let r = self.expr(RBP_CMP)?;
                Ok(RefExpr::Cmp(op, b(left), b(r)))
            }
            _ => self.err("token cannot continue an expression"),
        }
    }

    /// What may follow a dot: identifier (possibly a call), quoted identifier,
    /// multi-select list, multi-select hash; continues with everything that
    /// binds tighter than `rbp`.
    fn dot_rhs(&mut self, rbp: u32) -> R<RefExpr> {
        self.depth += 1;
        if self.depth > MAX_DEPTH {
            return self.err("reference parser depth limit");
        }
        let first = match self.peek().clone() {
            T::Ident(_) | T::QIdent(_) | T::LBrace | T::Star => self.nud()?,
            T::LBracket => {
                self.next();
                self.multi_list()?
            }
            T::Amp if self.mode == Mode::RelaxedExpref => self.nud()?,
            _ => return self.err("expected identifier, '*', '[', or '{' after '.'"),
        };
        let r = self.led_loop(first, rbp);
        self.depth -= 1;
        r
    }

    /// Right-hand side of a projection.
    fn chain(&mut self, rbp: u32) -> R<RefExpr> {
        match self.peek() {
            T::Dot => {
                self.next();
                self.dot_rhs(rbp)
            }
            // after an expression a bracket is a bracket-specifier: index,
            // slice or '[*]' -- never a multi-select list
            T::LBracket => match self.peek_at(1) {
                T::Num(_) | T::Colon => self.expr(rbp),
                T::Star if matches!(self.peek_at(2), T::RBracket) => self.expr(rbp),
                _ => self.err("after a projection a bracket must hold a number, a slice or '*'"),
            },
            T::Filter => self.expr(rbp),
            t if lbp(t) < PROJECTION_STOP => Ok(RefExpr::Current),
            _ => self.err("expected '.', '[' or '[?' after a projection"),
        }
    }

    fn filter(&mut self, subject: Option<RefExpr>) -> R<RefExpr> {
        let pred = self.expr(0)?;
        self.expect("]")?;
        let rhs = self.chain(RBP_FILTER)?;
        Ok(RefExpr::Proj { kind: ProjKind::Filter(b(pred)), subject: subject.map(b), rhs: b(rhs) })
    }

    /// After '[' when the next token is a number or a colon.
    fn bracket_index(&mut self, subject: Option<RefExpr>) -> R<RefExpr> {
        let mut parts: [Option<i32>; 3] = [None, None, None];
        let mut colons = 0usize;
        if let T::Num(n) = self.peek().clone() {
            self.next();
            parts[0] = Some(n);
        }
        while matches!(self.peek(), T::Colon) {
            self.next();
            colons += 1;
            if colons > 2 {
                return self.err("too many colons in slice");
            }
            if let T::Num(n) = self.peek().clone() {
                self.next();
                parts[colons] = Some(n);
            }
        }
        self.expect("]")?;
        if colons == 0 {
            match parts[0] {
                Some(n) => Ok(RefExpr::Index(subject.map(b), n)),
                None => self.err("empty index"),
            }
        } else {
            let rhs = self.chain(RBP_STAR)?;
            Ok(RefExpr::Proj {
                kind: ProjKind::Slice(parts[0], parts[1], parts[2]),
                subject: subject.map(b),
                rhs: b(rhs),
            })
        }
    }

    fn multi_list(&mut self) -> R<RefExpr> {
        let mut es = vec![self.expr(0)?];
        loop {
            match self.peek() {
                T::Comma => {
                    self.next();
                    es.push(self.expr(0)?);
                }
                T::RBracket => {
                    self.next();
                    return Ok(RefExpr::MultiList(es));
                }
                _ => return self.err("expected ',' or ']' in multi-select list"),
            }
        }
    }

    fn multi_hash(&mut self) -> R<RefExpr> {
        let mut kvs = vec![];
        loop {
            let key = match self.peek().clone() {
                T::Ident(k) | T::QIdent(k) => {
                    self.next();
                    k
                }
                _ => return self.err("expected a key in multi-select hash"),
            };
            self.expect(":")?;
            let v = self.expr(0)?;
            kvs.push((key, v));
            match self.peek() {
                T::Comma => {
                    self.next();
                }
                T::RBrace => {
                    self.next();
                    return Ok(RefExpr::MultiHash(kvs));
                }
                _ => return self.err("expected ',' or '}' in multi-select hash"),
            }
        }
    }

    fn arg(&mut self) -> R<RefExpr> {
        if matches!(self.peek(), T::Amp) {
            self.next();
            let e = self.expr(0)?;
            Ok(RefExpr::Expref(b(e)))
        } else {
            self.expr(0)
        }
    }

    fn args(&mut self) -> R<Vec<RefExpr>> {
        let mut out = vec![];
        if matches!(self.peek(), T::RParen) {
            self.next();
            return Ok(out);
        }
        out.push(self.arg()?);
        loop {
            match self.peek() {
                T::Comma => {
                    self.next();
                    out.push(self.arg()?);
                }
                T::RParen => {
                    self.next();
                    return Ok(out);
                }
                _ => return self.err("expected ',' or ')' in argument list"),
            }
        }
    }
}

pub fn parse_tokens(toks: &Tokens, mode: Mode) -> R<RefExpr> {
    let mut p = P { toks, i: 0, mode, depth: 0 };
    let e = p.expr(0)?;
    if !matches!(p.peek(), T::Eof) {
        return p.err("trailing tokens");
    }
    Ok(e)
}

pub fn parse(s: &str, mode: Mode) -> R<RefExpr> {
    let toks = tokenize(s)?;
    parse_tokens(&toks, mode)
}

pub fn parse_strict(s: &str) -> R<RefExpr> {
    parse(s, Mode::Strict)
}
