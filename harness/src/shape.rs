//! Conversions from the implementation's public types into the harness model,
//! and shape comparison modulo associativity of `Subexpr`.

use jmespath::ast::{Ast, Comparator};
use jmespath::Variable;

use crate::model::{num_from_serde, J};
use crate::refast::{CmpOp, Shape};

pub fn var_to_j(v: &Variable) -> J {
    match v {
        Variable::Null => J::Null,
        Variable::Bool(b) => J::Bool(*b),
        Variable::String(s) => J::Str(s.clone()),
        Variable::Number(n) => J::Num(num_from_serde(n)),
        Variable::Array(a) => J::Arr(a.iter().map(|x| var_to_j(x)).collect()),
        Variable::Object(o) => J::Obj(o.iter().map(|(k, x)| (k.clone(), var_to_j(x))).collect()),
        Variable::Expref(_) => J::Expref(None),
    }
}

fn bs(s: Shape) -> Box<Shape> {
    Box::new(s)
}

pub fn strip(a: &Ast) -> Shape {
    match a {
        Ast::Comparison { comparator, lhs, rhs, .. } => {
            let op = match comparator {
                Comparator::Equal => CmpOp::Eq,
                Comparator::NotEqual => CmpOp::Ne,
                Comparator::LessThan => CmpOp::Lt,
                Comparator::LessThanEqual => CmpOp::Le,
                Comparator::GreaterThan => CmpOp::Gt,
                Comparator::GreaterThanEqual => CmpOp::Ge,
            };
            Shape::Comparison(op, bs(strip(lhs)), bs(strip(rhs)))
        }
        Ast::Condition { predicate, then, .. } => Shape::Condition(bs(strip(predicate)), bs(strip(then))),
        Ast::Identity { .. } => Shape::Identity,
        Ast::Expref { ast, .. } => Shape::Expref(bs(strip(ast))),
        Ast::Flatten { node, .. } => Shape::Flatten(bs(strip(node))),
        Ast::Function { name, args, .. } => Shape::Function(name.clone(), args.iter().map(strip).collect()),
        Ast::Field { name, .. } => Shape::Field(name.clone()),
        Ast::Index { idx, .. } => Shape::Index(*idx),
        Ast::Literal { value, .. } => Shape::Literal(var_to_j(value)),
        Ast::MultiList { elements, .. } => Shape::MultiList(elements.iter().map(strip).collect()),
        Ast::MultiHash { elements, .. } => {
            Shape::MultiHash(elements.iter().map(|kv| (kv.key.clone(), strip(&kv.value))).collect())
        }
        Ast::Not { node, .. } => Shape::Not(bs(strip(node))),
        Ast::Projection { lhs, rhs, .. } => Shape::Projection(bs(strip(lhs)), bs(strip(rhs))),
        Ast::ObjectValues { node, .. } => Shape::ObjectValues(bs(strip(node))),
        Ast::And { lhs, rhs, .. } => Shape::And(bs(strip(lhs)), bs(strip(rhs))),
        Ast::Or { lhs, rhs, .. } => Shape::Or(bs(strip(lhs)), bs(strip(rhs))),
        Ast::Slice { start, stop, step, .. } => Shape::Slice(*start, *stop, *step),
        Ast::Subexpr { lhs, rhs, .. } => Shape::Subexpr(bs(strip(lhs)), bs(strip(rhs))),
    }
}

/// Flatten a tree of Subexpr nodes into its sequence of stages.
fn stages<'a>(s: &'a Shape, out: &mut Vec<&'a Shape>) {
    if let Shape::Subexpr(a, b) = s {
        stages(a, out);
        stages(b, out);
    } else {
        out.push(s);
    }
}

/// Equality of shapes modulo associativity of Subexpr: `(a.b).c` and
/// `a.(b.c)` are the same pipeline of stages.
pub fn normal_eq(x: &Shape, y: &Shape) -> bool {
    use Shape::*;
    match (x, y) {
        (Subexpr(..), _) | (_, Subexpr(..)) => {
            let mut a = vec![];
            let mut b = vec![];
            stages(x, &mut a);
            stages(y, &mut b);
            a.len() == b.len() && a.iter().zip(b.iter()).all(|(p, q)| normal_eq(p, q))
        }
        (Comparison(o1, a, b), Comparison(o2, c, d)) => o1 == o2 && normal_eq(a, c) && normal_eq(b, d),
        (Condition(a, b), Condition(c, d)) | (Projection(a, b), Projection(c, d)) | (And(a, b), And(c, d)) | (Or(a, b), Or(c, d)) => {
            normal_eq(a, c) && normal_eq(b, d)
        }
        (Identity, Identity) => true,
        (Expref(a), Expref(b)) | (Flatten(a), Flatten(b)) | (Not(a), Not(b)) | (ObjectValues(a), ObjectValues(b)) => normal_eq(a, b),
        (Function(n1, a), Function(n2, b)) => n1 == n2 && a.len() == b.len() && a.iter().zip(b).all(|(p, q)| normal_eq(p, q)),
        (Field(a), Field(b)) => a == b,
        (Index(a), Index(b)) => a == b,
        (Literal(a), Literal(b)) => a.exact_eq(b),
        (MultiList(a), MultiList(b)) => a.len() == b.len() && a.iter().zip(b).all(|(p, q)| normal_eq(p, q)),
        (MultiHash(a), MultiHash(b)) => {
            a.len() == b.len() && a.iter().zip(b).all(|((k1, p), (k2, q))| k1 == k2 && normal_eq(p, q))
        }
        (Slice(a, b, c), Slice(d, e, f)) => a == d && b == e && c == f,
        _ => false,
    }
}

pub fn shape_text(s: &Shape) -> String {
    format!("{:?}", s)
}
