//! Conversions from the implementation's public types into the harness model,
//! and shape comparison modulo associativity of `Subexpr`.

use jmespath::ast::{Ast, Comparator};
use jmespath::Variable;

use crate::model::{num_from_serde, J};
use crate::refast::{CmpOp, Shape};

pub fn var_to_j(v: &Variable) -> J {
    match v {
        Variable::Null => J::Null,
        Variable::Bool(b) => J::Bool(*b),
        Variable::String(s) => J::Str(s.clone()),
        Variable::Number(n) => J::Num(num_from_serde(n)),
        Variable::Array(a) => J::Arr(a.iter().map(|x| var_to_j(x)).collect()),
        Variable::Object(o) => J::Obj(o.iter().map(|(k, x)| (k.clone(), var_to_j(x))).collect()),
        Variable::Expref(_) => J::Expref(None),
    }
}

fn bs(s: Shape) -> Box<Shape> {
    Box::new(s)
}

/// The public Ast for a shape, built by hand (not by the parser): every node
/// takes its `offset` from `next_offset`.
pub fn unstrip(s: &Shape, next_offset: &mut dyn FnMut() -> usize) -> Ast {
    let offset = next_offset();
    let bx = |x: &Shape, f: &mut dyn FnMut() -> usize| Box::new(unstrip(x, f));
    match s {
        Shape::Comparison(op, a, b) => {
            let comparator = match op {
                CmpOp::Eq => Comparator::Equal,
                CmpOp::Ne => Comparator::NotEqual,
                CmpOp::Lt => Comparator::LessThan,
                CmpOp::Le => Comparator::LessThanEqual,
                CmpOp::Gt => Comparator::GreaterThan,
                CmpOp::Ge => Comparator::GreaterThanEqual,
            };
            Ast::Comparison { offset, comparator, lhs: bx(a, next_offset), rhs: bx(b, next_offset) }
        }
        Shape::Condition(p, t) => Ast::Condition { offset, predicate: bx(p, next_offset), then: bx(t, next_offset) },
        Shape::Identity => Ast::Identity { offset },
        Shape::Expref(a) => Ast::Expref { offset, ast: bx(a, next_offset) },
        Shape::Flatten(a) => Ast::Flatten { offset, node: bx(a, next_offset) },
        Shape::Function(name, args) => Ast::Function { offset, name: name.clone(), args: args.iter().map(|x| unstrip(x, next_offset)).collect() },
        Shape::Field(name) => Ast::Field { offset, name: name.clone() },
        Shape::Index(idx) => Ast::Index { offset, idx: *idx },
        Shape::Literal(v) => Ast::Literal { offset, value: jmespath::Rcvar::new(Variable::from_json(&v.to_json()).unwrap_or(Variable::Null)) },
        Shape::MultiList(es) => Ast::MultiList { offset, elements: es.iter().map(|x| unstrip(x, next_offset)).collect() },
        Shape::MultiHash(kvs) => Ast::MultiHash {
            offset,
            elements: kvs.iter().map(|(k, x)| jmespath::ast::KeyValuePair { key: k.clone(), value: unstrip(x, next_offset) }).collect(),
        },
        Shape::Not(a) => Ast::Not { offset, node: bx(a, next_offset) },
        Shape::Projection(a, b) => Ast::Projection { offset, lhs: bx(a, next_offset), rhs: bx(b, next_offset) },
        Shape::ObjectValues(a) => Ast::ObjectValues { offset, node: bx(a, next_offset) },
        Shape::And(a, b) => Ast::And { offset, lhs: bx(a, next_offset), rhs: bx(b, next_offset) },
        Shape::Or(a, b) => Ast::Or { offset, lhs: bx(a, next_offset), rhs: bx(b, next_offset) },
        Shape::Slice(a, b, c) => Ast::Slice { offset, start: *a, stop: *b, step: *c },
        Shape::Subexpr(a, b) => Ast::Subexpr { offset, lhs: bx(a, next_offset), rhs: bx(b, next_offset) },
    }
}

pub fn strip(a: &Ast) -> Shape {
    match a {
        Ast::Comparison { comparator, lhs, rhs, .. } => {
            let op = match comparator {
                Comparator::Equal => CmpOp::Eq,
                Comparator::NotEqual => CmpOp::Ne,
                Comparator::LessThan => CmpOp::Lt,
                Comparator::LessThanEqual => CmpOp::Le,
                Comparator::GreaterThan => CmpOp::Gt,
                Comparator::GreaterThanEqual => CmpOp::Ge,
            };
            Shape::Comparison(op, bs(strip(lhs)), bs(strip(rhs)))
        }
        Ast::Condition { predicate, then, .. } => Shape::Condition(bs(strip(predicate)), bs(strip(then))),
        Ast::Identity { .. } => Shape::Identity,
        Ast::Expref { ast, .. } => Shape::Expref(bs(strip(ast))),
        Ast::Flatten { node, .. } => Shape::Flatten(bs(strip(node))),
        Ast::Function { name, args, .. } => Shape::Function(name.clone(), args.iter().map(strip).collect()),
        Ast::Field { name, .. } => Shape::Field(name.clone()),
        Ast::Index { idx, .. } => Shape::Index(*idx),
        Ast::Literal { value, .. } => Shape::Literal(var_to_j(value)),
        Ast::MultiList { elements, .. } => Shape::MultiList(elements.iter().map(strip).collect()),
        Ast::MultiHash { elements, .. } => {
            Shape::MultiHash(elements.iter().map(|kv| (kv.key.clone(), strip(&kv.value))).collect())
        }
        Ast::Not { node, .. } => Shape::Not(bs(strip(node))),
        Ast::Projection { lhs, rhs, .. } => Shape::Projection(bs(strip(lhs)), bs(strip(rhs))),
        Ast::ObjectValues { node, .. } => Shape::ObjectValues(bs(strip(node))),
        Ast::And { lhs, rhs, .. } => Shape::And(bs(strip(lhs)), bs(strip(rhs))),
        Ast::Or { lhs, rhs, .. } => Shape::Or(bs(strip(lhs)), bs(strip(rhs))),
        Ast::Slice { start, stop, step, .. } => Shape::Slice(*start, *stop, *step),
        Ast::Subexpr { lhs, rhs, .. } => Shape::Subexpr(bs(strip(lhs)), bs(strip(rhs))),
    }
}

/// Flatten a tree of Subexpr nodes into its sequence of stages.
fn stages<'a>(s: &'a Shape, out: &mut Vec<&'a Shape>) {
    if let Shape::Subexpr(a, b) = s {
        stages(a, out);
        stages(b, out);
    } else {
        out.push(s);
    }
}

/// Equality of shapes modulo associativity of Subexpr: `(a.b).c` and
/// `a.(b.c)` are the same pipeline of stages.
pub fn normal_eq(x: &Shape, y: &Shape) -> bool {
    use Shape::*;
    match (x, y) {
        (Subexpr(..), _) | (_, Subexpr(..)) => {
            let mut a = vec![];
            let mut b = vec![];
            stages(x, &mut a);
            stages(y, &mut b);
            a.len() == b.len() && a.iter().zip(b.iter()).all(|(p, q)| normal_eq(p, q))
        }
        (Comparison(o1, a, b), Comparison(o2, c, d)) => o1 == o2 && normal_eq(a, c) && normal_eq(b, d),
        (Condition(a, b), Condition(c, d)) | (Projection(a, b), Projection(c, d)) | (And(a, b), And(c, d)) | (Or(a, b), Or(c, d)) => {
            normal_eq(a, c) && normal_eq(b, d)
        }
        (Identity, Identity) => true,
        (Expref(a), Expref(b)) | (Flatten(a), Flatten(b)) | (Not(a), Not(b)) | (ObjectValues(a), ObjectValues(b)) => normal_eq(a, b),
        (Function(n1, a), Function(n2, b)) => n1 == n2 && a.len() == b.len() && a.iter().zip(b).all(|(p, q)| normal_eq(p, q)),
        (Field(a), Field(b)) => a == b,
        (Index(a), Index(b)) => a == b,
        (Literal(a), Literal(b)) => a.exact_eq(b),
        (MultiList(a), MultiList(b)) => a.len() == b.len() && a.iter().zip(b).all(|(p, q)| normal_eq(p, q)),
        (MultiHash(a), MultiHash(b)) => {
            a.len() == b.len() && a.iter().zip(b).all(|((k1, p), (k2, q))| k1 == k2 && normal_eq(p, q))
        }
        (Slice(a, b, c), Slice(d, e, f)) => a == d && b == e && c == f,
        _ => false,
    }
}

pub fn shape_text(s: &Shape) -> String {
    format!("{:?}", s)
}
