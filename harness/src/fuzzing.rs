//! Coverage-guided fuzzing support: the semantic oracles of C01..C05/C12 as
//! libFuzzer target bodies (semantic oracle inside the target), and the
//! campaign driver used by the thorough tier.

use std::path::{Path, PathBuf};
use std::process::Command;

use serde_json::{json, Value};

use crate::gen_doc::{gen_doc, DocOpts};
use crate::gen_expr::{gen_expr, ExprOpts};
use crate::gen_typed::{gen_typed, schema_doc};
use crate::print::{render, to_pieces, Spell, Ws};
use crate::props::{c01, c04, c05};
use crate::runner::*;
use crate::src::Src;
use crate::syn::{compare_accept, Verdict, VOCAB};

/// Token table for `syntax_diff`: each input byte selects a lexeme.
fn bytes_to_tokens(data: &[u8]) -> String {
    let mut s = String::new();
    for (i, b) in data.iter().take(120).enumerate() {
        // high bit: glue to the previous lexeme without a space
        let lex = VOCAB[(*b & 0x7f) as usize % VOCAB.len()];
        if i > 0 && (*b & 0x80) == 0 {
            s.push(' ');
        }
        s.push_str(lex);
    }
    s
}

pub fn syntax_diff(data: &[u8]) -> CaseResult {
    let text = bytes_to_tokens(data);
    let mut st = Stats::new();
    match compare_accept("fuzz-syntax_diff", &text)? {
        Verdict::BothAccept => {
            let docs = vec![(String::new(), c05::FIXED_DOCS[1].to_string())];
            c04::check_sentence_pub("fuzz-syntax_diff", &text, &docs, &mut st).map(|_| ())
        }
        Verdict::BothReject => Ok(()),
    }
}

pub fn total(data: &[u8]) -> CaseResult {
    if data.len() > 2048 {
        return Ok(());
    }
    let text = String::from_utf8_lossy(data).to_string();
    // nesting is limited in-process (the stack overflow is a recorded finding)
    let depth = text.chars().filter(|c| matches!(c, '(' | '[' | '{' | '!' | '.' | '|' | '&')).count();
    if depth > 200 {
        return Ok(());
    }
    let mut st = Stats::new();
    c05::total_on("fuzz-total", &text, &[c05::FIXED_DOCS[1], c05::FIXED_DOCS[2], c05::FIXED_DOCS[0]], &mut st)
}

pub fn eval_diff(data: &[u8]) -> CaseResult {
    let mut src = Src::new(data);
    let mut st = Stats::new();
    let typed = src.chance(100);
    let (doc, tree) = if typed {
        let d = schema_doc(&mut src);
        let depth = 1 + src.below(4);
        (d, gen_typed(&mut src, depth))
    } else {
        let d = gen_doc(&mut src, &DocOpts::default());
        let t = gen_expr(&mut src, 0, Some(&d), &ExprOpts::default());
        (d, t)
    };
    let printed = match to_pieces(&tree, &mut Spell::with(&mut src)) {
        Ok(p) => p,
        Err(_) => return Ok(()),
    };
    let keep = if src.flip() { vec![true; printed.parens as usize] } else { crate::print::minimal_keep(&tree, &printed) };
    let (text, _) = render(&printed, &keep, Ws::None, None);
    // the text must denote the tree in the reference grammar, else skip
    match crate::refparse::parse(&text, crate::refparse::Mode::RelaxedExpref) {
        Ok(t) if crate::shape::normal_eq(&crate::refast::lower(&t), &crate::refast::lower(&tree)) => {}
        _ => return Ok(()),
    }
    let dt = doc.to_json();
    c01::compare("fuzz-eval_diff", &tree, &text, &doc, &dt, &mut st, typed).map(|_| ())
}

pub fn target_fn(name: &str) -> Option<fn(&[u8]) -> CaseResult> {
    match name {
        "syntax_diff" => Some(syntax_diff),
        "total" => Some(total),
        "eval_diff" => Some(eval_diff),
        _ => None,
    }
}

/// Signatures of recorded findings that a campaign must tolerate (otherwise
/// it would rediscover one finding forever).  Only `known` entries count.
fn tolerated() -> Vec<String> {
    load_known().into_iter().filter(|k| k.status == "known").map(|k| k.key).collect()
}

/// Body of every libFuzzer target: panic (= crash artifact) on a failure that
/// is not a recorded finding.
pub fn run_target(name: &str, data: &[u8]) {
    static INIT: std::sync::Once = std::sync::Once::new();
    static mut TOLERATED: Vec<String> = Vec::new();
    INIT.call_once(|| {
        install_panic_hook();
        unsafe {
            TOLERATED = tolerated();
        }
    });
    let f = target_fn(name).expect("unknown fuzz target");
    if let Err(fl) = f(data) {
        #[allow(static_mut_refs)]
        let tol = unsafe { &TOLERATED };
        if tol.iter().any(|t| t == &fl.sig) || fl.sig.starts_with("harness-") {
            return;
        }
        // restore the default hook so libFuzzer sees an ordinary abort message
        let _ = std::panic::take_hook();
        eprintln!("FUZZ-FAILURE target={} sig={} :: {}", name, fl.sig, fl.message);
        eprintln!("case={}", fl.case);
        std::process::abort();
    }
}

fn hex(data: &[u8]) -> String {
    data.iter().map(|b| format!("{:02x}", b)).collect()
}

fn unhex(s: &str) -> Vec<u8> {
    (0..s.len() / 2).filter_map(|i| u8::from_str_radix(&s[2 * i..2 * i + 2], 16).ok()).collect()
}

/// Replay of a saved fuzz input (bypasses libFuzzer).
pub fn replay(target: &str, case: &Value, env: &Env) -> CaseResult {
    let data = unhex(case["bytes_hex"].as_str().unwrap_or(""));
    let f = target_fn(target).ok_or_else(|| Failure::new("fuzz", "harness-target", target.to_string(), json!({})))?;
    match f(&data) {
        Err(fl) if !env.is_known(&fl.sig) => Err(Failure { sub: format!("fuzz-{}", target), ..fl }),
        _ => Ok(()),
    }
}

/// Seed corpus: compliance expressions (as raw text for `total`) and random
/// byte strings for the structured targets.
fn write_corpus(dir: &Path, target: &str, seed: u64) {
    let _ = std::fs::create_dir_all(dir);
    match target {
        "total" => {
            for (i, e) in crate::corpus::corpus().expressions().iter().enumerate() {
                let _ = std::fs::write(dir.join(format!("c{}", i)), e.as_bytes());
            }
            for (i, e) in ["a[1::2147483647]", "a[-2147483648]", "sum(`[1e308,1e308]`)", "sort_by(a, &b)", "a[?b > `1`].c[0:2147483647:2147483646]"].iter().enumerate() {
                let _ = std::fs::write(dir.join(format!("x{}", i)), e.as_bytes());
            }
        }
        _ => {
            for i in 0..64u64 {
                let len = if target == "syntax_diff" { 4 + (i as usize % 40) } else { 64 + 16 * (i as usize) };
                let _ = std::fs::write(dir.join(format!("r{}", i)), c01::seeded_bytes(seed, 0xF022 + i, len));
            }
        }
    }
}

fn write_dict(path: &Path) {
    let mut s = String::new();
    for (i, v) in VOCAB.iter().enumerate() {
        let esc: String = v.bytes().map(|b| if b.is_ascii_graphic() && b != b'"' && b != b'\\' { (b as char).to_string() } else { format!("\\x{:02x}", b) }).collect();
        s.push_str(&format!("kw{}=\"{}\"\n", i, esc));
    }
    for (i, v) in ["2147483647", "-2147483647", "2147483646", "-2147483648", "2147483648", "1073741824", "[::", "[?", "&&", "||", "sort_by(", "max_by(", "map(&", "to_number(", "`[1e308,1e308]`"].iter().enumerate() {
        s.push_str(&format!("x{}=\"{}\"\n", i, v.replace('"', "\\x22")));
    }
    let _ = std::fs::write(path, s);
}

/// Run one time-boxed libFuzzer campaign (thorough tier).  The budget running
/// out is inconclusive by construction: only a saved crashing / disagreeing
/// input is a result.
pub fn campaign(target: &str, env: &Env, st: &mut Stats, seconds: u64) -> Vec<Failure> {
    if env.tier != Tier::Thorough {
        return vec![];
    }
    let dir = match std::env::var("JMV_FUZZ_DIR").ok().map(PathBuf::from).filter(|p| p.join("fuzz/Cargo.toml").exists()) {
        Some(d) => d,
        None => {
            st.class("fuzz:project-not-built (inconclusive)");
            return vec![];
        }
    };
    let work = dir.join(format!("work-{}-{}", target, std::process::id()));
    let corpus = work.join("corpus");
    let artifacts = work.join("artifacts");
    let _ = std::fs::create_dir_all(&artifacts);
    write_corpus(&corpus, target, env.seed);
    let dict = work.join("dict.txt");
    write_dict(&dict);
    let seconds = std::env::var("JMV_FUZZ_SECONDS").ok().and_then(|s| s.parse().ok()).unwrap_or(seconds);
    let out = Command::new("cargo")
        .current_dir(&dir)
        .env("VERIF_DIR", verif_dir())
        .args(["+nightly", "fuzz", "run", "--release", target, corpus.to_str().unwrap(), "--"])
        .arg(format!("-artifact_prefix={}/", artifacts.display()))
        .arg(format!("-dict={}", dict.display()))
        .arg(format!("-max_total_time={}", seconds))
        .arg(format!("-seed={}", env.seed.max(1)))
        .args(["-len_control=0", "-max_len=2048", "-fork=8", "-ignore_crashes=0", "-print_final_stats=1", "-rss_limit_mb=4096"])
        .output();
    let mut fails = vec![];
    match out {
        Err(e) => {
            st.class(&format!("fuzz:spawn-failed {}", e));
        }
        Ok(o) => {
            let err = String::from_utf8_lossy(&o.stderr).to_string();
            // executions: last "#<n>" stat line per job is not summed by fork mode; take the reported total
            let mut execs: u64 = 0;
            for l in err.lines() {
                if let Some(rest) = l.strip_prefix("#") {
                    if let Some(n) = rest.split(':').next().and_then(|x| x.trim().parse::<u64>().ok()) {
                        execs = execs.max(n);
                    }
                }
                if let Some(i) = l.find("stat::number_of_executed_units:") {
                    if let Ok(n) = l[i + 31..].trim().parse::<u64>() {
                        execs = execs.max(n);
                    }
                }
            }
            st.evals(execs.max(1));
            st.class_n(&format!("fuzz:{}:executions", target), execs);
            st.class_n(&format!("fuzz:{}:seconds", target), seconds);
            let f = target_fn(target).unwrap();
            if let Ok(rd) = std::fs::read_dir(&artifacts) {
                for ent in rd.filter_map(|e| e.ok()) {
                    let name = ent.file_name().to_string_lossy().to_string();
                    if !(name.starts_with("crash-") || name.starts_with("timeout-") || name.starts_with("oom-")) {
                        continue;
                    }
                    let data = std::fs::read(ent.path()).unwrap_or_default();
                    if name.starts_with("crash-") {
                        let r = catch(std::panic::AssertUnwindSafe(|| f(&data)));
                        match r {
                            Ok(Err(fl)) => {
                                if env.is_known(&fl.sig) {
                                    *st.excluded_known.entry(fl.sig.clone()).or_insert(0) += 1;
                                } else {
                                    let mut fl = fl;
                                    fl.sub = format!("fuzz-{}", target);
                                    fl.case = json!({"bytes_hex": hex(&data), "case": fl.case});
                                    fails.push(fl);
                                }
                            }
                            Err(p) => fails.push(Failure::new(&format!("fuzz-{}", target), "panic", p, json!({"bytes_hex": hex(&data)}))),
                            Ok(Ok(())) => st.class("fuzz:artifact-did-not-reproduce"),
                        }
                    } else {
                        // slow unit / memory: inconclusive, recorded only
                        st.class(&format!("fuzz:{}-artifact (inconclusive)", &name[..name.find('-').unwrap_or(3)]));
                    }
                }
            }
            if !o.status.success() && fails.is_empty() {
                st.class("fuzz:nonzero-exit-without-reproducible-artifact");
            }
            st.nontrivial(&format!("campaign-{}", target));
            st.nontrivial(&format!("campaign-{}-corpus", target));
            st.sample(|| json!({"fuzz_target": target, "executions": execs, "seconds": seconds, "corpus": "compliance expressions / seeded random", "dictionary": "token vocabulary + extreme integers"}));
        }
    }
    let _ = std::fs::remove_dir_all(&work);
    fails
}
