//! The published compliance suite as a corpus: expressions, documents and
//! expected outcomes (used to validate the reference model and as seeds).

use std::path::PathBuf;
use std::sync::OnceLock;

use crate::model::J;
use crate::runner::verif_dir;

#[derive(Clone, Debug)]
pub struct Case {
    pub expression: String,
    pub result: Option<J>,
    pub error: Option<String>,
}

#[derive(Clone, Debug)]
pub struct Suite {
    pub file: String,
    pub given: J,
    pub given_text: String,
    pub cases: Vec<Case>,
}

pub struct Corpus {
    pub suites: Vec<Suite>,
}

impl Corpus {
    pub fn expressions(&self) -> Vec<&str> {
        let mut v: Vec<&str> = self.suites.iter().flat_map(|s| s.cases.iter().map(|c| c.expression.as_str())).collect();
        v.sort();
        v.dedup();
        v
    }
    pub fn valid_expressions(&self) -> Vec<&str> {
        let mut v: Vec<&str> = self
            .suites
            .iter()
            .flat_map(|s| s.cases.iter().filter(|c| c.error.as_deref() != Some("syntax")).map(|c| c.expression.as_str()))
            .collect();
        v.sort();
        v.dedup();
        v
    }
    pub fn documents(&self) -> Vec<(&J, &str)> {
        let mut seen = std::collections::BTreeSet::new();
        let mut out = vec![];
        for s in &self.suites {
            if seen.insert(s.given_text.clone()) {
                out.push((&s.given, s.given_text.as_str()));
            }
        }
        out
    }
}

fn dir() -> PathBuf {
    verif_dir().join("corpus/compliance")
}

pub fn corpus() -> &'static Corpus {
    static C: OnceLock<Corpus> = OnceLock::new();
    C.get_or_init(|| {
        let mut suites = vec![];
        let mut files: Vec<PathBuf> = std::fs::read_dir(dir())
            .expect("corpus directory")
            .filter_map(|e| e.ok())
            .map(|e| e.path())
            .filter(|p| p.extension().map(|x| x == "json").unwrap_or(false))
            .collect();
        files.sort();
        for f in files {
            let txt = std::fs::read_to_string(&f).expect("read corpus file");
            let v: serde_json::Value = serde_json::from_str(&txt).expect("corpus json");
            for s in v.as_array().expect("suite array") {
                let given = J::from_value(&s["given"]);
                let mut cases = vec![];
                for c in s["cases"].as_array().expect("cases") {
                    if c.get("bench").is_some() {
                        continue;
                    }
                    cases.push(Case {
                        expression: c["expression"].as_str().expect("expression").to_string(),
                        result: c.get("result").map(J::from_value),
                        error: c.get("error").and_then(|e| e.as_str()).map(|e| e.to_string()),
                    });
                }
                suites.push(Suite {
                    file: f.file_name().unwrap().to_string_lossy().to_string(),
                    given_text: given.to_json(),
                    given,
                    cases,
                });
            }
        }
        Corpus { suites }
    })
}
