//! Reference evaluator: the JMESPath specification over the harness value
//! model, including the 26 built-in functions, written for obviousness
//! (insertion sort, linear scans) rather than speed.

use std::collections::BTreeMap;
use std::sync::Arc as Rc;

use crate::model::{J, N};
use crate::refast::*;

#[derive(Clone, Debug, PartialEq)]
pub enum EvalErr {
    InvalidSlice,
    UnknownFunction(String),
    NotEnoughArguments,
    TooManyArguments,
    InvalidType(usize),
    InvalidReturnType,
    /// The specification does not say what happens (non-finite aggregate...).
    Unspecified(String),
}

impl EvalErr {
    pub fn class(&self) -> &'static str {
        match self {
            EvalErr::InvalidSlice => "InvalidSlice",
            EvalErr::UnknownFunction(_) => "UnknownFunction",
            EvalErr::NotEnoughArguments => "NotEnoughArguments",
            EvalErr::TooManyArguments => "TooManyArguments",
            EvalErr::InvalidType(_) => "InvalidType",
            EvalErr::InvalidReturnType => "InvalidReturnType",
            EvalErr::Unspecified(_) => "Unspecified",
        }
    }
}

#[derive(Default, Debug)]
pub struct Ctx {
    /// Set when the result may legitimately differ between conforming
    /// implementations (ties in max_by/min_by, float formatting in to_string,
    /// step 0 on a non-array subject, an expref passed where `any` is declared).
    pub ambiguous: Vec<&'static str>,
    /// Built-ins that returned successfully, in order.
    pub calls: Vec<&'static str>,
    /// How many times an expression reference was evaluated.
    pub expref_evals: usize,
    pub steps: usize,
    /// Arrays with more than 20 elements and at least one tie that went through
    /// sort / sort_by.
    pub big_sorts_with_ties: usize,
}

pub const STEP_LIMIT: usize = 2_000_000;

pub type R = Result<J, EvalErr>;

pub fn slice_indices(len: usize, start: Option<i32>, stop: Option<i32>, step: i32) -> Vec<usize> {
    // Python's slice.indices + range, in wide arithmetic.
    let len = len as i128;
    let step = step as i128;
    debug_assert!(step != 0);
    let clamp = |v: Option<i32>, default_pos: i128, default_neg: i128| -> i128 {
        match v {
            None => {
                if step > 0 {
                    default_pos
                } else {
                    default_neg
                }
            }
            Some(x) => {
                let mut x = x as i128;
                if x < 0 {
                    x += len;
                    if x < 0 {
                        x = if step > 0 { 0 } else { -1 };
                    }
                } else if x >= len {
                    x = if step > 0 { len } else { len - 1 };
                }
                x
            }
        }
    };
    let a = clamp(start, 0, len - 1);
    let b2 = clamp(stop, len, -1);
    let mut out = vec![];
    let mut i = a;
    if step > 0 {
        while i < b2 {
            out.push(i as usize);
            i += step;
        }
    } else {
        while i > b2 {
            out.push(i as usize);
            i += step;
        }
    }
    out
}

pub fn index_of(len: usize, n: i32) -> Option<usize> {
    let len = len as i128;
    let i = if n < 0 { len + n as i128 } else { n as i128 };
    if i >= 0 && i < len {
        Some(i as usize)
    } else {
        None
    }
}

pub fn eval(e: &RefExpr, data: &J, cx: &mut Ctx) -> R {
    cx.steps += 1;
    if cx.steps > STEP_LIMIT {
        return Err(EvalErr::Unspecified("step limit".into()));
    }
    use RefExpr as E;
    match e {
        E::Current => Ok(data.clone()),
        E::Field(name) => Ok(match data {
            J::Obj(o) => o.get(name).cloned().unwrap_or(J::Null),
            _ => J::Null,
        }),
        E::Literal(v) => Ok(v.clone()),
        E::Index(subject, n) => {
            let s = match subject {
                None => data.clone(),
                Some(s) => eval(s, data, cx)?,
            };
            Ok(match &s {
                J::Arr(a) => index_of(a.len(), *n).map(|i| a[i].clone()).unwrap_or(J::Null),
                _ => J::Null,
            })
        }
        E::Dot(l, r) | E::Pipe(l, r) => {
            let lv = eval(l, data, cx)?;
            eval(r, &lv, cx)
        }
        E::Or(l, r) => {
            let lv = eval(l, data, cx)?;
            if lv.truthy() {
                Ok(lv)
            } else {
                eval(r, data, cx)
            }
        }
        E::And(l, r) => {
            let lv = eval(l, data, cx)?;
            if !lv.truthy() {
                Ok(lv)
            } else {
                eval(r, data, cx)
            }
        }
        E::Not(x) => {
            let v = eval(x, data, cx)?;
            Ok(J::Bool(!v.truthy()))
        }
        E::Cmp(op, l, r) => {
            let lv = eval(l, data, cx)?;
            let rv = eval(r, data, cx)?;
            Ok(compare_cx(*op, &lv, &rv, cx))
        }
        E::Expref(x) => Ok(J::Expref(Some(Rc::new((**x).clone())))),
        E::MultiList(es) => {
            if data.is_null() {
                return Ok(J::Null);
            }
            let mut out = vec![];
            for x in es {
                out.push(eval(x, data, cx)?);
            }
            Ok(J::Arr(out))
        }
        E::MultiHash(kvs) => {
            if data.is_null() {
                return Ok(J::Null);
            }
            let mut out = BTreeMap::new();
            for (k, x) in kvs {
                let v = eval(x, data, cx)?;
                out.insert(k.clone(), v);
            }
            Ok(J::Obj(out))
        }
        E::Proj { kind, subject, rhs } => {
            let s = match subject {
                None => data.clone(),
                Some(s) => eval(s, data, cx)?,
            };
            let items: Vec<J> = match kind {
                ProjKind::ListWild => match &s {
                    J::Arr(a) => a.clone(),
                    _ => return Ok(J::Null),
                },
                ProjKind::ObjWild => match &s {
                    J::Obj(o) => o.values().cloned().collect(),
                    _ => return Ok(J::Null),
                },
                ProjKind::Flatten => match &s {
                    J::Arr(a) => {
                        let mut out = vec![];
                        for x in a {
                            match x {
                                J::Arr(inner) => out.extend(inner.iter().cloned()),
                                other => out.push(other.clone()),
                            }
                        }
                        out
                    }
                    _ => return Ok(J::Null),
                },
                ProjKind::Slice(a, b2, c) => {
                    let step = c.unwrap_or(1);
                    match &s {
                        J::Arr(arr) => {
                            if step == 0 {
                                return Err(EvalErr::InvalidSlice);
                            }
                            slice_indices(arr.len(), *a, *b2, step).into_iter().map(|i| arr[i].clone()).collect()
                        }
                        _ => {
                            if step == 0 {
                                cx.ambiguous.push("step0-on-non-array");
                                return Err(EvalErr::InvalidSlice);
                            }
                            return Ok(J::Null);
                        }
                    }
                }
                ProjKind::Filter(p) => match &s {
                    J::Arr(a) => {
                        let mut out = vec![];
                        for x in a {
                            if eval(p, x, cx)?.truthy() {
                                out.push(x.clone());
                            }
                        }
                        out
                    }
                    _ => return Ok(J::Null),
                },
            };
            let mut out = vec![];
            for x in &items {
                let v = eval(rhs, x, cx)?;
                if !v.is_null() {
                    out.push(v);
                }
            }
            Ok(J::Arr(out))
        }
        E::Call(name, args) => {
            let mut vals = vec![];
            for a in args {
                vals.push(eval(a, data, cx)?);
            }
            call(name, &vals, cx)
        }
    }
}

/// Do two values contain corresponding numbers that are distinct but closer
/// than the statement's "well separated" (relative 1e-9)?  The outcome of an
/// equality test on such a pair is not asserted.
pub fn has_near_tie(l: &J, r: &J) -> bool {
    match (l, r) {
        (J::Num(a), J::Num(b2)) => {
            if a.same_value(b2) {
                return false;
            }
            let (x, y) = (a.f(), b2.f());
            let d = (x - y).abs();
            x == y || d <= 1e-9 * x.abs().max(y.abs())
        }
        (J::Arr(a), J::Arr(b2)) => a.len() == b2.len() && a.iter().zip(b2.iter()).any(|(x, y)| has_near_tie(x, y)),
        (J::Obj(a), J::Obj(b2)) => a.iter().any(|(k, x)| b2.get(k).map(|y| has_near_tie(x, y)).unwrap_or(false)),
        _ => false,
    }
}

pub fn compare_cx(op: CmpOp, l: &J, r: &J, cx: &mut Ctx) -> J {
    if has_near_tie(l, r) {
        cx.ambiguous.push("near-tie-comparison");
    }
    compare(op, l, r)
}

pub fn compare(op: CmpOp, l: &J, r: &J) -> J {
    match op {
        CmpOp::Eq => J::Bool(l.deep_eq(r)),
        CmpOp::Ne => J::Bool(!l.deep_eq(r)),
        _ => match (l, r) {
            (J::Num(a), J::Num(b2)) => {
                let (x, y) = (a.f(), b2.f());
                let exact_lt = num_lt(a, b2);
                let exact_eq = a.same_value(b2);
                let _ = (x, y);
                J::Bool(match op {
                    CmpOp::Lt => exact_lt,
                    CmpOp::Le => exact_lt || exact_eq,
                    CmpOp::Gt => !exact_lt && !exact_eq,
                    CmpOp::Ge => !exact_lt,
                    _ => unreachable!(),
                })
            }
            _ => J::Null,
        },
    }
}

fn num_lt(a: &N, b2: &N) -> bool {
    match (a, b2) {
        (N::Int(x), N::Int(y)) => x < y,
        _ => a.f() < b2.f(),
    }
}

// ---------------------------------------------------------------------------
// Built-in functions
// ---------------------------------------------------------------------------

#[derive(Clone, Copy, Debug, PartialEq, Eq, Hash, PartialOrd, Ord)]
pub enum Ty {
    Any,
    Number,
    Str,
    Bool,
    Null,
    Array,
    Object,
    Expref,
    ArrayNumber,
    ArrayString,
}

pub struct Sig {
    pub name: &'static str,
    pub params: &'static [&'static [Ty]],
    pub variadic: Option<&'static [Ty]>,
}

use Ty::*;
pub const SIGS: &[Sig] = &[
    Sig { name: "abs", params: &[&[Number]], variadic: None },
    Sig { name: "avg", params: &[&[ArrayNumber]], variadic: None },
    Sig { name: "ceil", params: &[&[Number]], variadic: None },
    Sig { name: "contains", params: &[&[Str, Array], &[Any]], variadic: None },
    Sig { name: "ends_with", params: &[&[Str], &[Str]], variadic: None },
    Sig { name: "floor", params: &[&[Number]], variadic: None },
    Sig { name: "join", params: &[&[Str], &[ArrayString]], variadic: None },
    Sig { name: "keys", params: &[&[Object]], variadic: None },
    Sig { name: "length", params: &[&[Str, Array, Object]], variadic: None },
    Sig { name: "map", params: &[&[Expref], &[Array]], variadic: None },
    Sig { name: "max", params: &[&[ArrayNumber, ArrayString]], variadic: None },
    Sig { name: "max_by", params: &[&[Array], &[Expref]], variadic: None },
    Sig { name: "merge", params: &[&[Object]], variadic: Some(&[Object]) },
    Sig { name: "min", params: &[&[ArrayNumber, ArrayString]], variadic: None },
    Sig { name: "min_by", params: &[&[Array], &[Expref]], variadic: None },
    Sig { name: "not_null", params: &[&[Any]], variadic: Some(&[Any]) },
    Sig { name: "reverse", params: &[&[Str, Array]], variadic: None },
    Sig { name: "sort", params: &[&[ArrayNumber, ArrayString]], variadic: None },
    Sig { name: "sort_by", params: &[&[Array], &[Expref]], variadic: None },
    Sig { name: "starts_with", params: &[&[Str], &[Str]], variadic: None },
    Sig { name: "sum", params: &[&[ArrayNumber]], variadic: None },
    Sig { name: "to_array", params: &[&[Any]], variadic: None },
    Sig { name: "to_number", params: &[&[Any]], variadic: None },
    Sig { name: "to_string", params: &[&[Any]], variadic: None },
    Sig { name: "type", params: &[&[Any]], variadic: None },
    Sig { name: "values", params: &[&[Object]], variadic: None },
];

pub fn sig_of(name: &str) -> Option<&'static Sig> {
    SIGS.iter().find(|s| s.name == name)
}

pub fn ty_accepts(t: Ty, v: &J) -> bool {
    match t {
        Any => true,
        Number => matches!(v, J::Num(_)),
        Str => matches!(v, J::Str(_)),
        Bool => matches!(v, J::Bool(_)),
        Null => matches!(v, J::Null),
        Array => matches!(v, J::Arr(_)),
        Object => matches!(v, J::Obj(_)),
        Expref => matches!(v, J::Expref(_)),
        ArrayNumber => matches!(v, J::Arr(a) if a.iter().all(|x| matches!(x, J::Num(_)))),
        ArrayString => matches!(v, J::Arr(a) if a.iter().all(|x| matches!(x, J::Str(_)))),
    }
}

pub fn validate(sig: &Sig, args: &[J], cx: &mut Ctx) -> Result<(), EvalErr> {
    let n = sig.params.len();
    if args.len() < n {
        return Err(EvalErr::NotEnoughArguments);
    }
    if args.len() > n && sig.variadic.is_none() {
        return Err(EvalErr::TooManyArguments);
    }
    for (i, a) in args.iter().enumerate() {
        let tys: &[Ty] = if i < n { sig.params[i] } else { sig.variadic.unwrap() };
        if !tys.iter().any(|t| ty_accepts(*t, a)) {
            return Err(EvalErr::InvalidType(i));
        }
        if tys == [Any] && matches!(a, J::Expref(_)) {
            cx.ambiguous.push("expref-for-any");
        }
    }
    Ok(())
}

fn num(x: f64) -> R {
    if x.is_finite() {
        Ok(J::Num(N::F(x)))
    } else {
        Err(EvalErr::Unspecified("non-finite number".into()))
    }
}

/// Recognise a JSON number: -?(0|[1-9][0-9]*)(\.[0-9]+)?([eE][+-]?[0-9]+)?
pub fn is_json_number(s: &str) -> bool {
    let b = s.as_bytes();
    let mut i = 0;
    if i < b.len() && b[i] == b'-' {
        i += 1;
    }
    if i >= b.len() {
        return false;
    }
    if b[i] == b'0' {
        i += 1;
    } else if b[i].is_ascii_digit() {
        while i < b.len() && b[i].is_ascii_digit() {
            i += 1;
        }
    } else {
        return false;
    }
    if i < b.len() && b[i] == b'.' {
        i += 1;
        let st = i;
        while i < b.len() && b[i].is_ascii_digit() {
            i += 1;
        }
        if i == st {
            return false;
        }
    }
    if i < b.len() && (b[i] == b'e' || b[i] == b'E') {
        i += 1;
        if i < b.len() && (b[i] == b'+' || b[i] == b'-') {
            i += 1;
        }
        let st = i;
        while i < b.len() && b[i].is_ascii_digit() {
            i += 1;
        }
        if i == st {
            return false;
        }
    }
    i == b.len()
}

fn key_lt(a: &J, b2: &J) -> bool {
    match (a, b2) {
        (J::Num(x), J::Num(y)) => num_lt(x, y),
        (J::Str(x), J::Str(y)) => x < y,
        _ => false,
    }
}

fn key_eq(a: &J, b2: &J) -> bool {
    match (a, b2) {
        (J::Num(x), J::Num(y)) => x.same_value(y),
        (J::Str(x), J::Str(y)) => x == y,
        _ => false,
    }
}

/// Stable insertion sort of (key, value) pairs by key.
fn insertion_sort(items: &mut Vec<(J, J)>) {
    for i in 1..items.len() {
        let mut j = i;
        while j > 0 && key_lt(&items[j].0, &items[j - 1].0) {
            items.swap(j, j - 1);
            j -= 1;
        }
    }
}

fn has_tie(keys: &[J]) -> bool {
    for i in 0..keys.len() {
        for j in (i + 1)..keys.len() {
            if key_eq(&keys[i], &keys[j]) {
                return true;
            }
        }
    }
    false
}

fn float_is_plain(x: f64) -> bool {
    x == 0.0 || (x.abs() >= 1e-5 && x.abs() < 1e15)
}

fn contains_fancy_float(v: &J) -> bool {
    match v {
        // the spelling of a non-integer-spelled number is the formatter's choice
        J::Num(N::F(x)) => {
            let _ = float_is_plain(*x);
            true
        }
        J::Arr(a) => a.iter().any(contains_fancy_float),
        J::Obj(o) => o.values().any(contains_fancy_float),
        _ => false,
    }
}

fn apply_expref(f: &J, item: &J, cx: &mut Ctx) -> R {
    match f {
        J::Expref(Some(e)) => {
            cx.expref_evals += 1;
            eval(e, item, cx)
        }
        _ => Err(EvalErr::Unspecified("opaque expref".into())),
    }
}

fn by_keys(arr: &[J], f: &J, cx: &mut Ctx) -> Result<Vec<J>, EvalErr> {
    let mut keys: Vec<J> = vec![];
    for (i, x) in arr.iter().enumerate() {
        let k = apply_expref(f, x, cx)?;
        let ok = matches!(k, J::Num(_) | J::Str(_));
        if !ok {
            return Err(EvalErr::InvalidReturnType);
        }
        if i > 0 && k.type_name() != keys[0].type_name() {
            return Err(EvalErr::InvalidReturnType);
        }
        keys.push(k);
    }
    Ok(keys)
}

pub fn call(name: &str, args: &[J], cx: &mut Ctx) -> R {
    let sig = match sig_of(name) {
        Some(s) => s,
        None => return Err(EvalErr::UnknownFunction(name.to_string())),
    };
    validate(sig, args, cx)?;
    let r = call_valid(sig.name, args, cx)?;
    cx.calls.push(sig.name);
    Ok(r)
}

fn call_valid(name: &'static str, args: &[J], cx: &mut Ctx) -> R {
    let a0 = &args[0];
    match name {
        "abs" => match a0 {
            J::Num(N::Int(i)) => Ok(J::Num(N::F(i.abs() as f64))),
            J::Num(N::F(f)) => num(f.abs()),
            _ => unreachable!(),
        },
        "avg" => {
            let a = a0.as_arr().unwrap();
            if a.is_empty() {
                return Ok(J::Null);
            }
            let xs: Vec<f64> = a.iter().map(|x| x.as_num().unwrap()).collect();
            let (s, loose) = float_sum(&xs);
            if loose {
                cx.ambiguous.push("sum-rounding");
            }
            num(s / a.len() as f64)
        }
        "ceil" => match a0 {
            J::Num(N::Int(i)) => Ok(J::Num(N::F(*i as f64))),
            J::Num(N::F(f)) => num(f.ceil()),
            _ => unreachable!(),
        },
        "floor" => match a0 {
            J::Num(N::Int(i)) => Ok(J::Num(N::F(*i as f64))),
            J::Num(N::F(f)) => num(f.floor()),
            _ => unreachable!(),
        },
        "contains" => match a0 {
            J::Str(s) => Ok(J::Bool(match &args[1] {
                J::Str(n) => s.contains(n.as_str()),
                _ => false,
            })),
            J::Arr(a) => {
                if a.iter().any(|x| has_near_tie(x, &args[1])) {
                    cx.ambiguous.push("near-tie-comparison");
                }
                Ok(J::Bool(a.iter().any(|x| x.deep_eq(&args[1]))))
            }
            _ => unreachable!(),
        },
        "ends_with" => Ok(J::Bool(a0.as_str().unwrap().ends_with(args[1].as_str().unwrap()))),
        "starts_with" => Ok(J::Bool(a0.as_str().unwrap().starts_with(args[1].as_str().unwrap()))),
        "join" => {
            let glue = a0.as_str().unwrap();
            let mut out = String::new();
            for (i, x) in args[1].as_arr().unwrap().iter().enumerate() {
                if i > 0 {
                    out.push_str(glue);
                }
                out.push_str(x.as_str().unwrap());
            }
            Ok(J::Str(out))
        }
        "keys" => match a0 {
            J::Obj(o) => Ok(J::Arr(o.keys().map(|k| J::Str(k.clone())).collect())),
            _ => unreachable!(),
        },
        "values" => match a0 {
            J::Obj(o) => Ok(J::Arr(o.values().cloned().collect())),
            _ => unreachable!(),
        },
        "length" => Ok(J::int(match a0 {
            J::Str(s) => s.chars().count() as i64,
            J::Arr(a) => a.len() as i64,
            J::Obj(o) => o.len() as i64,
            _ => unreachable!(),
        })),
        "map" => {
            let mut out = vec![];
            for x in args[1].as_arr().unwrap() {
                out.push(apply_expref(a0, x, cx)?);
            }
            Ok(J::Arr(out))
        }
        "max" | "min" => {
            let a = a0.as_arr().unwrap();
            if a.is_empty() {
                return Ok(J::Null);
            }
            let mut best = &a[0];
            for x in &a[1..] {
                let better = if name == "max" { key_lt(best, x) } else { key_lt(x, best) };
                if better {
                    best = x;
                }
            }
            // equal numbers in different spelling (0 and 0.0): either is a valid answer
            if a.iter().any(|x| key_eq(x, best) && !x.exact_eq(best)) {
                cx.ambiguous.push("extreme-tie-spelling");
            }
            Ok(best.clone())
        }
        "max_by" | "min_by" => {
            let a = a0.as_arr().unwrap();
            if a.is_empty() {
                return Ok(J::Null);
            }
            let keys = by_keys(a, &args[1], cx)?;
            let mut bi = 0;
            for i in 1..a.len() {
                let better = if name == "max_by" { key_lt(&keys[bi], &keys[i]) } else { key_lt(&keys[i], &keys[bi]) };
                if better {
                    bi = i;
                }
            }
            // a tie between distinct elements: any of them is a valid answer
            for i in 0..a.len() {
                if i != bi && key_eq(&keys[i], &keys[bi]) && !a[i].exact_eq(&a[bi]) {
                    cx.ambiguous.push("by-tie");
                    break;
                }
            }
            Ok(a[bi].clone())
        }
        "merge" => {
            let mut out = BTreeMap::new();
            for x in args {
                if let J::Obj(o) = x {
                    for (k, v) in o {
                        out.insert(k.clone(), v.clone());
                    }
                }
            }
            Ok(J::Obj(out))
        }
        "not_null" => {
            for x in args {
                if !x.is_null() {
                    return Ok(x.clone());
                }
            }
            Ok(J::Null)
        }
        "reverse" => match a0 {
            J::Str(s) => Ok(J::Str(s.chars().rev().collect())),
            J::Arr(a) => Ok(J::Arr(a.iter().rev().cloned().collect())),
            _ => unreachable!(),
        },
        "sort" => {
            let a = a0.as_arr().unwrap();
            let mut items: Vec<(J, J)> = a.iter().map(|x| (x.clone(), x.clone())).collect();
            if a.len() > 20 && has_tie(a) {
                cx.big_sorts_with_ties += 1;
            }
            insertion_sort(&mut items);
            Ok(J::Arr(items.into_iter().map(|p| p.1).collect()))
        }
        "sort_by" => {
            let a = a0.as_arr().unwrap();
            if a.is_empty() {
                return Ok(J::Arr(vec![]));
            }
            let keys = by_keys(a, &args[1], cx)?;
            if a.len() > 20 && has_tie(&keys) {
                cx.big_sorts_with_ties += 1;
            }
            let mut items: Vec<(J, J)> = keys.into_iter().zip(a.iter().cloned()).collect();
            insertion_sort(&mut items);
            Ok(J::Arr(items.into_iter().map(|p| p.1).collect()))
        }
        "sum" => {
            let xs: Vec<f64> = a0.as_arr().unwrap().iter().map(|x| x.as_num().unwrap()).collect();
            let (s, loose) = float_sum(&xs);
            if loose {
                cx.ambiguous.push("sum-rounding");
            }
            num(s)
        }
        "to_array" => Ok(match a0 {
            J::Arr(_) => a0.clone(),
            other => J::Arr(vec![other.clone()]),
        }),
        "to_number" => Ok(match a0 {
            J::Num(_) => a0.clone(),
            J::Str(s) => {
                if is_json_number(s) {
                    match J::parse(s) {
                        Ok(v @ J::Num(_)) => v,
                        _ => {
                            cx.ambiguous.push("to_number-unrepresentable");
                            J::Null
                        }
                    }
                } else {
                    if s.trim_matches(|c| c == ' ' || c == '\t' || c == '\n' || c == '\r') != s.as_str()
                        && is_json_number(s.trim_matches(|c| c == ' ' || c == '\t' || c == '\n' || c == '\r'))
                    {
                        cx.ambiguous.push("to_number-padded");
                    }
                    J::Null
                }
            }
            _ => J::Null,
        }),
        "to_string" => Ok(match a0 {
            J::Str(_) => a0.clone(),
            other => {
                if contains_fancy_float(other) || other.contains_expref() {
                    cx.ambiguous.push("to_string-format");
                }
                J::Str(other.to_json())
            }
        }),
        "type" => Ok(J::s(a0.type_name())),
        _ => unreachable!(),
    }
}

/// Sum of doubles the way the specification leaves it: "the sum", computed in floating point
/// in some order with some care.  Returns the plain left-to-right sum and a flag that is set
/// when different reasonable summation methods (plain, compensated, pairwise) can differ by
/// more than the comparison tolerance: some rounding happened AND the a-priori error bound
/// n * eps * sum|x| is not negligible against the result (cancellation).  Consumers then
/// accept any result within that bound (`sum_bound`).
pub fn float_sum(xs: &[f64]) -> (f64, bool) {
    let mut plain = 0.0f64;
    // Neumaier: the running compensation is exactly the accumulated rounding error
    let (mut s, mut comp) = (0.0f64, 0.0f64);
    let mut any_rounding = false;
    for &x in xs {
        plain += x;
        let t = s + x;
        let e = if s.abs() >= x.abs() { (s - t) + x } else { (x - t) + s };
        if e != 0.0 {
            any_rounding = true;
        }
        comp += e;
        s = t;
    }
    let best = s + comp;
    if !plain.is_finite() || !best.is_finite() {
        return (plain, false);
    }
    let loose = any_rounding && sum_bound(xs) > 1e-10 * best.abs().max(plain.abs());
    (plain, loose)
}

/// A-priori bound on the error of any floating-point summation of `xs`.
pub fn sum_bound(xs: &[f64]) -> f64 {
    let abs: f64 = xs.iter().map(|x| x.abs()).sum();
    2.0 * (xs.len() as f64 + 1.0) * f64::EPSILON * abs
}
