//! RefExpr -> expression text.
//!
//! The printer emits a piece list with *removable* parentheses around every
//! non-atomic operand ("full" parenthesisation: the grouping is explicit and
//! does not rely on any precedence rule).  Rendering chooses which of them to
//! keep, the whitespace between tokens and the spelling of identifiers and
//! literals.  "Minimal" rendering removes every pair whose removal keeps the
//! reference parse (modulo sub-expression associativity) unchanged.

use crate::model::{json_string, J};
use crate::refast::*;
use crate::refparse;
use crate::shape::normal_eq;
use crate::src::Src;

#[derive(Clone, Debug)]
pub enum Piece {
    /// an indivisible token text
    T(String),
    /// removable parenthesis pair id
    Open(u32),
    Close(u32),
}

#[derive(Debug)]
pub struct Inexpressible(pub String);

/// Spelling decisions.  With `src == None` everything takes its plainest form.
pub struct Spell<'a, 'b> {
    pub src: Option<&'a mut Src<'b>>,
    /// record (kind, piece index) marks for calls and slices
    pub marks: Vec<(Mark, usize)>,
}

#[derive(Clone, Debug, PartialEq)]
pub enum Mark {
    /// index of the piece holding the '(' of a call, with the function name
    CallParen(String),
    /// index of the piece holding the '[' of a slice (bare or after a subject)
    SliceBracket,
}

impl<'a, 'b> Spell<'a, 'b> {
    pub fn plain() -> Spell<'static, 'static> {
        Spell { src: None, marks: vec![] }
    }
    pub fn with(src: &'a mut Src<'b>) -> Spell<'a, 'b> {
        Spell { src: Some(src), marks: vec![] }
    }
    fn chance(&mut self, n: u32) -> bool {
        match &mut self.src {
            Some(s) => s.chance(n),
            None => false,
        }
    }
    fn below(&mut self, n: usize) -> usize {
        match &mut self.src {
            Some(s) => s.below(n),
            None => 0,
        }
    }
}

pub fn is_plain_ident(s: &str) -> bool {
    let mut cs = s.chars();
    match cs.next() {
        Some(c) if c.is_ascii_alphabetic() || c == '_' => {}
        _ => return false,
    }
    cs.all(|c| c.is_ascii_alphanumeric() || c == '_')
}

/// JSON string spelling with randomised escapes (value-preserving).
pub fn spell_json_string(s: &str, sp: &mut Spell) -> String {
    if sp.src.is_none() {
        return json_string(s);
    }
    let mut out = String::from("\"");
    for c in s.chars() {
        let must = c == '"' || c == '\\' || (c as u32) < 0x20;
        let style = sp.below(8); // 0..5 = plain, 6 = \uXXXX, 7 = short escape
        let short = match c {
            '"' => Some("\\\""),
            '\\' => Some("\\\\"),
            '/' => Some("\\/"),
            '\n' => Some("\\n"),
            '\r' => Some("\\r"),
            '\t' => Some("\\t"),
            '\u{08}' => Some("\\b"),
            '\u{0c}' => Some("\\f"),
            _ => None,
        };
        if (must && style != 6) || (style == 7 && short.is_some()) {
            match short {
                Some(e) => out.push_str(e),
                None => push_u_escape(c, &mut out, sp),
            }
        } else if style == 6 {
            push_u_escape(c, &mut out, sp);
        } else {
            out.push(c);
        }
    }
    out.push('"');
    out
}

fn push_u_escape(c: char, out: &mut String, sp: &mut Spell) {
    let upper = sp.chance(128);
    let mut buf = [0u16; 2];
    for u in c.encode_utf16(&mut buf) {
        if upper {
            out.push_str(&format!("\\u{:04X}", u));
        } else {
            out.push_str(&format!("\\u{:04x}", u));
        }
    }
}

/// True when `s` has a raw-string spelling: no odd-length run of backslashes
/// directly before a quote or at the end.
pub fn raw_representable(s: &str) -> bool {
    let cs: Vec<char> = s.chars().collect();
    let mut run = 0usize;
    for c in cs.iter() {
        if *c == '\\' {
            run += 1;
        } else {
            if *c == '\'' && run % 2 == 1 {
                return false;
            }
            run = 0;
        }
    }
    run % 2 == 0
}

pub fn spell_raw(s: &str) -> String {
    format!("'{}'", s.replace('\'', "\\'"))
}

pub fn spell_backtick(json_text: &str) -> String {
    format!("`{}`", json_text.replace('`', "\\`"))
}

/// JSON text of a value with randomised string spellings and whitespace.
pub fn spell_json(v: &J, sp: &mut Spell) -> String {
    let mut out = String::new();
    spell_json_into(v, sp, &mut out);
    out
}

fn jws(sp: &mut Spell, out: &mut String) {
    if sp.chance(24) {
        out.push_str([" ", "\n", "\t", "  "][sp.below(4)]);
    }
}

fn spell_json_into(v: &J, sp: &mut Spell, out: &mut String) {
    match v {
        J::Str(s) => out.push_str(&spell_json_string(s, sp)),
        J::Arr(a) => {
            out.push('[');
            for (i, x) in a.iter().enumerate() {
                if i > 0 {
                    out.push(',');
                }
                jws(sp, out);
                spell_json_into(x, sp, out);
            }
            jws(sp, out);
            out.push(']');
        }
        J::Obj(o) => {
            out.push('{');
            for (i, (k, x)) in o.iter().enumerate() {
                if i > 0 {
                    out.push(',');
                }
                jws(sp, out);
                out.push_str(&spell_json_string(k, sp));
                jws(sp, out);
                out.push(':');
                jws(sp, out);
                spell_json_into(x, sp, out);
            }
            jws(sp, out);
            out.push('}');
        }
        other => other.write_json(out),
    }
}

pub fn spell_literal(v: &J, sp: &mut Spell) -> String {
    if let J::Str(s) = v {
        if raw_representable(s) && !sp.chance(64) {
            return spell_raw(s);
        }
    }
    // half of the time the canonical text (so that equal values have equal spellings)
    let txt = if sp.src.is_some() && sp.chance(128) { v.to_json() } else { spell_json(v, sp) };
    spell_backtick(&txt)
}

pub fn spell_field(name: &str, sp: &mut Spell) -> String {
    if is_plain_ident(name) && !sp.chance(40) {
        name.to_string()
    } else {
        spell_json_string(name, sp)
    }
}

struct Out<'s, 'a, 'b> {
    pieces: Vec<Piece>,
    next_paren: u32,
    sp: &'s mut Spell<'a, 'b>,
}

impl<'s, 'a, 'b> Out<'s, 'a, 'b> {
    fn t(&mut self, s: &str) {
        self.pieces.push(Piece::T(s.to_string()));
    }
}

fn is_atom(e: &RefExpr) -> bool {
    matches!(
        e,
        RefExpr::Current | RefExpr::Field(_) | RefExpr::Literal(_) | RefExpr::MultiList(_) | RefExpr::MultiHash(_) | RefExpr::Call(..)
    )
}

fn operand(e: &RefExpr, o: &mut Out) -> Result<(), Inexpressible> {
    if is_atom(e) {
        expr(e, o)
    } else {
        let id = o.next_paren;
        o.next_paren += 1;
        o.pieces.push(Piece::Open(id));
        expr(e, o)?;
        o.pieces.push(Piece::Close(id));
        Ok(())
    }
}

/// Leading zeros are part of the number token (`007`); a minus sign must be
/// followed by 1-9, so only non-negative numbers have padded spellings.
fn num(n: i32, sp: &mut Spell) -> String {
    if n >= 0 && sp.chance(10) {
        let zeros = match sp.below(4) {
            0 => 1,
            1 => 2 + sp.below(8),
            2 => 9 + sp.below(4),
            _ => 12 + sp.below(30),
        };
        return format!("{}{}", "0".repeat(zeros), n);
    }
    n.to_string()
}

fn slice_text(a: &Option<i32>, b2: &Option<i32>, c: &Option<i32>, o: &mut Out) {
    o.sp.marks.push((Mark::SliceBracket, o.pieces.len()));
    o.t("[");
    if let Some(x) = a {
        { let t = num(*x, o.sp); o.t(&t); }
    }
    o.t(":");
    if let Some(x) = b2 {
        { let t = num(*x, o.sp); o.t(&t); }
    }
    if let Some(x) = c {
        o.t(":");
        { let t = num(*x, o.sp); o.t(&t); }
    } else if o.sp.chance(40) {
        o.t(":");
    }
    o.t("]");
}

/// What follows a dot: identifier / multi-select / call, optionally followed
/// by brackets (which bind tighter than the dot).
fn step(e: &RefExpr, o: &mut Out) -> Result<(), Inexpressible> {
    match e {
        RefExpr::Field(_) | RefExpr::MultiList(_) | RefExpr::MultiHash(_) | RefExpr::Call(..) => expr(e, o),
        RefExpr::Expref(_) => expr(e, o),
        RefExpr::Index(Some(s), n) => {
            step(s, o)?;
            o.t("[");
            { let t = num(*n, o.sp); o.t(&t); }
            o.t("]");
            Ok(())
        }
        RefExpr::Proj { kind: ProjKind::ListWild, subject: Some(s), rhs } => {
            step(s, o)?;
            o.t("[");
            o.t("*");
            o.t("]");
            chain(rhs, o)
        }
        RefExpr::Proj { kind: ProjKind::Slice(a, b2, c), subject: Some(s), rhs } => {
            step(s, o)?;
            slice_text(a, b2, c, o);
            chain(rhs, o)
        }
        other => Err(Inexpressible(format!("{} cannot follow a dot", other.kind_name()))),
    }
}

/// Print `e` in a position that accepts any expression.
fn expr(e: &RefExpr, o: &mut Out) -> Result<(), Inexpressible> {
    use RefExpr as R;
    match e {
        R::Current => o.t("@"),
        R::Field(n) => {
            let s = spell_field(n, o.sp);
            o.t(&s)
        }
        R::Literal(v) => {
            let s = spell_literal(v, o.sp);
            o.t(&s)
        }
        R::Index(None, n) => {
            o.t("[");
            { let t = num(*n, o.sp); o.t(&t); }
            o.t("]");
        }
        R::Index(Some(s), n) => {
            operand(s, o)?;
            o.t("[");
            { let t = num(*n, o.sp); o.t(&t); }
            o.t("]");
        }
        R::Dot(s, st) => {
            operand(s, o)?;
            o.t(".");
            step(st, o)?;
        }
        R::Pipe(l, r) => {
            operand(l, o)?;
            o.t("|");
            operand(r, o)?;
        }
        R::Or(l, r) => {
            operand(l, o)?;
            o.t("||");
            operand(r, o)?;
        }
        R::And(l, r) => {
            operand(l, o)?;
            o.t("&&");
            operand(r, o)?;
        }
        R::Cmp(op, l, r) => {
            operand(l, o)?;
            o.t(op.text());
            operand(r, o)?;
        }
        R::Not(x) => {
            o.t("!");
            operand(x, o)?;
        }
        R::Expref(x) => {
            o.t("&");
            operand(x, o)?;
        }
        R::MultiList(es) => {
            if es.is_empty() {
                return Err(Inexpressible("empty multi-select list".into()));
            }
            o.t("[");
            for (i, x) in es.iter().enumerate() {
                if i > 0 {
                    o.t(",");
                }
                // a leading "*]" or number/colon would be read as a bracket specifier
                if i == 0 && needs_guard_in_list(x, es.len()) {
                    let id = o.next_paren;
                    o.next_paren += 1;
                    o.pieces.push(Piece::Open(id));
                    expr(x, o)?;
                    o.pieces.push(Piece::Close(id));
                } else {
                    expr(x, o)?;
                }
            }
            o.t("]");
        }
        R::MultiHash(kvs) => {
            if kvs.is_empty() {
                return Err(Inexpressible("empty multi-select hash".into()));
            }
            o.t("{");
            for (i, (k, x)) in kvs.iter().enumerate() {
                if i > 0 {
                    o.t(",");
                }
                let ks = spell_field(k, o.sp);
                o.t(&ks);
                o.t(":");
                expr(x, o)?;
            }
            o.t("}");
        }
        R::Call(name, args) => {
            if !is_plain_ident(name) {
                return Err(Inexpressible("function name must be an unquoted identifier".into()));
            }
            o.t(name);
            o.sp.marks.push((Mark::CallParen(name.clone()), o.pieces.len()));
            o.t("(");
            for (i, x) in args.iter().enumerate() {
                if i > 0 {
                    o.t(",");
                }
                expr(x, o)?;
            }
            o.t(")");
        }
        R::Proj { kind, subject, rhs } => {
            match subject {
                None => match kind {
                    ProjKind::ListWild => {
                        o.t("[");
                        o.t("*");
                        o.t("]");
                    }
                    ProjKind::ObjWild => o.t("*"),
                    ProjKind::Flatten => o.t("[]"),
                    ProjKind::Slice(a, b2, c) => slice_text(a, b2, c, o),
                    ProjKind::Filter(p) => {
                        o.t("[?");
                        expr(p, o)?;
                        o.t("]");
                    }
                },
                Some(s) => {
                    operand(s, o)?;
                    match kind {
                        ProjKind::ListWild => {
                            o.t("[");
                            o.t("*");
                            o.t("]");
                        }
                        ProjKind::ObjWild => {
                            o.t(".");
                            o.t("*");
                        }
                        ProjKind::Flatten => o.t("[]"),
                        ProjKind::Slice(a, b2, c) => slice_text(a, b2, c, o),
                        ProjKind::Filter(p) => {
                            o.t("[?");
                            expr(p, o)?;
                            o.t("]");
                        }
                    }
                }
            }
            chain(rhs, o)?;
        }
    }
    Ok(())
}

/// The first element of a multi-select list must not make the bracket look
/// like an index, slice or `[*]`.
fn needs_guard_in_list(first: &RefExpr, n: usize) -> bool {
    // "[*]" with a bare object wildcard without rhs as the only element
    if n == 1 {
        if let RefExpr::Proj { kind: ProjKind::ObjWild, subject: None, rhs } = first {
            if matches!(**rhs, RefExpr::Current) {
                return true;
            }
        }
    }
    false
}

/// Print the right-hand side of a projection: a postfix chain whose leftmost
/// leaf takes the implicit current element.
fn chain(rhs: &RefExpr, o: &mut Out) -> Result<(), Inexpressible> {
    if matches!(rhs, RefExpr::Current) {
        return Ok(());
    }
    spine(rhs, o)
}

fn spine(e: &RefExpr, o: &mut Out) -> Result<(), Inexpressible> {
    use RefExpr as R;
    match e {
        // leaves that may start a chain
        R::Field(_) | R::MultiList(_) | R::MultiHash(_) | R::Call(..) | R::Expref(_) => {
            o.t(".");
            step(e, o)
        }
        R::Index(None, n) => {
            o.t("[");
            { let t = num(*n, o.sp); o.t(&t); }
            o.t("]");
            Ok(())
        }
        R::Proj { kind, subject: None, rhs } => {
            match kind {
                ProjKind::ListWild => {
                    o.t("[");
                    o.t("*");
                    o.t("]");
                }
                ProjKind::ObjWild => {
                    o.t(".");
                    o.t("*");
                }
                ProjKind::Slice(a, b2, c) => slice_text(a, b2, c, o),
                ProjKind::Filter(p) => {
                    o.t("[?");
                    expr(p, o)?;
                    o.t("]");
                }
                ProjKind::Flatten => return Err(Inexpressible("flatten cannot start a projection's right-hand side".into())),
            }
            chain(rhs, o)
        }
        // inner nodes: the subject is the spine
        R::Index(Some(s), n) => {
            spine(s, o)?;
            o.t("[");
            { let t = num(*n, o.sp); o.t(&t); }
            o.t("]");
            Ok(())
        }
        R::Dot(s, st) => {
            spine(s, o)?;
            o.t(".");
            step(st, o)
        }
        R::Proj { kind, subject: Some(s), rhs } => {
            spine(s, o)?;
            match kind {
                ProjKind::ListWild => {
                    o.t("[");
                    o.t("*");
                    o.t("]");
                }
                ProjKind::ObjWild => {
                    o.t(".");
                    o.t("*");
                }
                ProjKind::Slice(a, b2, c) => slice_text(a, b2, c, o),
                ProjKind::Filter(p) => {
                    o.t("[?");
                    expr(p, o)?;
                    o.t("]");
                }
                ProjKind::Flatten => return Err(Inexpressible("flatten ends a projection's right-hand side".into())),
            }
            chain(rhs, o)
        }
        other => Err(Inexpressible(format!("{} cannot continue a projection", other.kind_name()))),
    }
}

pub struct Printed {
    pub pieces: Vec<Piece>,
    pub parens: u32,
    pub marks: Vec<(Mark, usize)>,
}

pub fn to_pieces(e: &RefExpr, sp: &mut Spell) -> Result<Printed, Inexpressible> {
    let mut o = Out { pieces: vec![], next_paren: 0, sp };
    expr(e, &mut o)?;
    let pieces = o.pieces;
    let parens = o.next_paren;
    let marks = std::mem::take(&mut o.sp.marks);
    Ok(Printed { pieces, parens, marks })
}

#[derive(Clone, Copy, PartialEq, Debug)]
pub enum Ws {
    /// no optional whitespace
    None,
    /// a single space around binary operators and after commas
    Pretty,
    /// random whitespace (space, tab, CR, LF) between tokens
    Noisy,
}

/// Render pieces; `keep[id]` says whether a removable pair is printed.
/// Returns the text and, for every piece index, the byte offset where that
/// piece starts (usize::MAX for dropped parentheses).
pub fn render(p: &Printed, keep: &[bool], ws: Ws, src: Option<&mut Src>) -> (String, Vec<usize>) {
    let mut out = String::new();
    let mut offs = vec![usize::MAX; p.pieces.len()];
    let mut prev: Option<String> = None;
    let mut src = src;
    for (i, pc) in p.pieces.iter().enumerate() {
        let text: String = match pc {
            Piece::T(s) => s.clone(),
            Piece::Open(id) => {
                if keep[*id as usize] {
                    "(".to_string()
                } else {
                    continue;
                }
            }
            Piece::Close(id) => {
                if keep[*id as usize] {
                    ")".to_string()
                } else {
                    continue;
                }
            }
        };
        if let Some(pv) = &prev {
            // forced separation where two tokens would fuse
            let fuse = (pv == "&" && (text == "&" || text == "&&"))
                || (pv == "|" && (text == "|" || text == "||"))
                || (pv == "[" && (text == "]" || text.starts_with('?')))
                || (pv == "!" && text == "==")
                || (pv == "<" && text == "==")
                || (pv == ">" && text == "==");
            let mut sep = String::new();
            match ws {
                Ws::None => {}
                Ws::Pretty => {
                    let bin = |t: &str| matches!(t, "|" | "||" | "&&" | "==" | "!=" | "<" | "<=" | ">" | ">=");
                    if bin(&text) || bin(pv) || pv == "," || pv == ":" {
                        sep.push(' ');
                    }
                }
                Ws::Noisy => {
                    if let Some(s) = src.as_deref_mut() {
                        if s.chance(64) {
                            let n = 1 + s.below(2);
                            for _ in 0..n {
                                sep.push([' ', '\n', '\t', '\r'][s.below(4)]);
                            }
                        }
                    }
                }
            }
            if fuse && sep.is_empty() {
                sep.push(' ');
            }
            out.push_str(&sep);
        }
        offs[i] = out.len();
        out.push_str(&text);
        prev = Some(text);
    }
    (out, offs)
}

pub fn full_text(e: &RefExpr) -> Result<String, Inexpressible> {
    let p = to_pieces(e, &mut Spell::plain())?;
    Ok(render(&p, &vec![true; p.parens as usize], Ws::None, None).0)
}

/// Decide a minimal set of parentheses: drop every pair whose removal keeps
/// the reference parse the same (modulo associativity of sub-expressions).
/// `order_src` randomises the order in which removals are attempted.
pub fn minimal_keep(e: &RefExpr, p: &Printed) -> Vec<bool> {
    let n = p.parens as usize;
    let target = lower(e);
    let ok = |keep: &[bool]| -> bool {
        let (txt, _) = render(p, keep, Ws::None, None);
        match refparse::parse(&txt, refparse::Mode::RelaxedExpref) {
            Ok(t) => normal_eq(&lower(&t), &target),
            Err(_) => false,
        }
    };
    let mut keep = vec![false; n];
    if ok(&keep) {
        return keep;
    }
    keep = vec![true; n];
    for i in 0..n {
        keep[i] = false;
        if !ok(&keep) {
            keep[i] = true;
        }
    }
    keep
}

pub fn minimal_text(e: &RefExpr) -> Result<String, Inexpressible> {
    let p = to_pieces(e, &mut Spell::plain())?;
    let keep = minimal_keep(e, &p);
    Ok(render(&p, &keep, Ws::None, None).0)
}
