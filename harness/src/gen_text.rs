//! JSON *text* generators with randomised spelling: the model value is built
//! together with the text that denotes it (construction oracle for C08/C10).

use std::collections::BTreeMap;

use crate::gen_doc::{gen_char, gen_string};
use crate::model::{J, N};
use crate::src::Src;

#[derive(Clone, Copy)]
pub struct TextOpts {
    pub max_depth: usize,
    pub max_width: usize,
    /// integers across and beyond the i64/u64 range
    pub big_ints: bool,
    /// doubles from random bit patterns / many digits / large exponents
    pub wild_floats: bool,
    /// only numerals inside serde_json's exact domain (<= 15 digits, |exp| <= 22)
    pub exact_only: bool,
    pub escapes: bool,
    pub dup_keys: bool,
    pub whitespace: bool,
}

impl TextOpts {
    pub fn c10() -> TextOpts {
        TextOpts { max_depth: 3, max_width: 4, big_ints: false, wild_floats: false, exact_only: true, escapes: true, dup_keys: false, whitespace: true }
    }
    pub fn c08() -> TextOpts {
        TextOpts { max_depth: 5, max_width: 5, big_ints: true, wild_floats: true, exact_only: false, escapes: true, dup_keys: true, whitespace: true }
    }
}

/// The value a JSON numeral denotes in the model: integer spelling within the
/// i64/u64 range -> exact integer; everything else -> the correctly rounded
/// double (std's parser).
pub fn numeral_value(text: &str) -> N {
    let is_int = !text.contains(|c| c == '.' || c == 'e' || c == 'E');
    if is_int {
        if let Ok(i) = text.parse::<i128>() {
            if i >= i64::MIN as i128 && i <= u64::MAX as i128 {
                // serde_json reads "-0" as the float -0.0
                if i == 0 && text.starts_with('-') {
                    return N::F(-0.0);
                }
                return N::Int(i);
            }
        }
    }
    N::F(text.parse::<f64>().unwrap_or(f64::NAN))
}

/// Count significant digits and the effective decimal exponent of a numeral
/// (value = 0.d1d2... x 10^exp10 form is not needed; we need digits written
/// and exponent relative to the last written digit).
pub fn numeral_profile(text: &str) -> (usize, i64) {
    let t = text.trim_start_matches('-');
    let (mant, exp) = match t.find(|c| c == 'e' || c == 'E') {
        Some(i) => (&t[..i], t[i + 1..].trim_start_matches('+').parse::<i64>().unwrap_or(0)),
        None => (t, 0),
    };
    let (ip, fp) = match mant.find('.') {
        Some(i) => (&mant[..i], &mant[i + 1..]),
        None => (mant, ""),
    };
    let digits: String = format!("{}{}", ip, fp);
    let stripped = digits.trim_start_matches('0');
    let sig = stripped.len();
    // value = digits(as integer) * 10^(exp - len(fp))
    (sig, exp - fp.len() as i64)
}

/// Inside serde_json's documented-exact domain?
pub fn numeral_is_exact_domain(text: &str) -> bool {
    let (sig, e) = numeral_profile(text);
    // integer mantissa with <= 15 digits times 10^e with |e| <= 22
    sig <= 15 && (-22..=22).contains(&e)
}

/// Re-spell a decimal numeral without changing the real number it denotes:
/// shift the decimal point against the exponent, add zeros, E/e, explicit +.
pub fn respell_numeral(text: &str, src: &mut Src) -> String {
    let neg = text.starts_with('-');
    let t = text.trim_start_matches('-');
    let (mant, exp) = match t.find(|c| c == 'e' || c == 'E') {
        Some(i) => (&t[..i], t[i + 1..].trim_start_matches('+').parse::<i64>().unwrap_or(0)),
        None => (t, 0),
    };
    let (ip, fp) = match mant.find('.') {
        Some(i) => (mant[..i].to_string(), mant[i + 1..].to_string()),
        None => (mant.to_string(), String::new()),
    };
    // integer digits D and exponent E: value = D * 10^E
    let mut digits = format!("{}{}", ip, fp);
    let mut e = exp - fp.len() as i64;
    // optionally move trailing zeros into the exponent or add some
    match src.below(4) {
        0 => {
            while digits.len() > 1 && digits.ends_with('0') {
                digits.pop();
                e += 1;
            }
        }
        1 => {
            let k = src.below(3);
            for _ in 0..k {
                digits.push('0');
                e -= 1;
            }
        }
        _ => {}
    }
    let digits = {
        let d = digits.trim_start_matches('0');
        if d.is_empty() {
            "0".to_string()
        } else {
            d.to_string()
        }
    };
    // choose where to put the point: k digits before it
    let style = src.below(4);
    let mut out = String::new();
    if neg {
        out.push('-');
    }
    match style {
        0 if e >= 0 && e <= 6 => {
            // plain integer spelling
            out.push_str(&digits);
            for _ in 0..e {
                out.push('0');
            }
        }
        1 if e < 0 && (-e as usize) < digits.len() + 6 => {
            // plain decimal
            let fl = (-e) as usize;
            if fl >= digits.len() {
                out.push_str("0.");
                for _ in 0..(fl - digits.len()) {
                    out.push('0');
                }
                out.push_str(&digits);
            } else {
                out.push_str(&digits[..digits.len() - fl]);
                out.push('.');
                out.push_str(&digits[digits.len() - fl..]);
            }
        }
        _ => {
            // scientific with the point after k digits
            let k = 1 + src.below(digits.len());
            out.push_str(&digits[..k]);
            let frac = &digits[k..];
            if !frac.is_empty() {
                out.push('.');
                out.push_str(frac);
            }
            let ee = e + frac.len() as i64;
            out.push(if src.flip() { 'E' } else { 'e' });
            if ee >= 0 && src.flip() {
                out.push('+');
            }
            out.push_str(&ee.to_string());
        }
    }
    out
}

pub fn gen_numeral(src: &mut Src, o: &TextOpts) -> String {
    let w_big = if o.big_ints { 5 } else { 0 };
    let w_wild = if o.wild_floats { 6 } else { 0 };
    let w_sci = if o.exact_only { 0 } else { 4 };
    match src.weighted(&[6, 5, w_big, w_wild, w_sci, 3]) {
        0 => format!("{}", src.range(-20, 40)),
        1 => {
            // dyadic fraction, exact in binary and short in decimal
            let k = src.range(-400, 400);
            let base = format!("{}", k as f64 / 8.0);
            respell_numeral(&base, src)
        }
        2 => {
            // integers around the 53/63/64-bit boundaries and far beyond
            let anchors: [i128; 10] = [
                1 << 53,
                -(1 << 53),
                i64::MAX as i128,
                i64::MIN as i128,
                u64::MAX as i128,
                1 << 62,
                (1 << 63) + 1,
                1 << 31,
                u32::MAX as i128,
                10_i128.pow(18),
            ];
            match src.below(3) {
                0 => format!("{}", *src.pick(&anchors) + src.range(-3, 3) as i128),
                1 => format!("{}", src.u64() as i128 - if src.flip() { 1i128 << 63 } else { 0 }),
                _ => {
                    // up to 40 digits
                    let n = 18 + src.below(23);
                    let mut s = String::new();
                    if src.flip() {
                        s.push('-');
                    }
                    s.push((b'1' + src.below(9) as u8) as char);
                    for _ in 1..n {
                        s.push((b'0' + src.below(10) as u8) as char);
                    }
                    s
                }
            }
        }
        3 => {
            // random bit pattern printed with 1..25 significant digits
            let f = f64::from_bits(src.u64());
            if !f.is_finite() {
                return "0".to_string();
            }
            let digits = 1 + src.below(25);
            let s = format!("{:.*e}", digits - 1, f);
            if !s.parse::<f64>().map(|x| x.is_finite()).unwrap_or(false) {
                return "1".to_string();
            }
            if src.flip() {
                respell_numeral(&s, src)
            } else {
                s
            }
        }
        4 => {
            let m = 1 + src.below(9999);
            let e = src.range(-330, 308);
            let s = format!("{}e{}", m, e);
            if s.parse::<f64>().map(|x| x.is_finite()).unwrap_or(false) {
                s
            } else {
                "1".to_string()
            }
        }
        _ => {
            let base = format!("{}", src.range(-12, 12));
            respell_numeral(&base, src)
        }
    }
}

pub fn spell_string(s: &str, src: &mut Src, escapes: bool) -> String {
    let mut out = String::from("\"");
    for c in s.chars() {
        let must = c == '"' || c == '\\' || (c as u32) < 0x20;
        let style = if escapes { src.below(8) } else { 0 };
        let short = match c {
            '"' => Some("\\\""),
            '\\' => Some("\\\\"),
            '/' => Some("\\/"),
            '\n' => Some("\\n"),
            '\r' => Some("\\r"),
            '\t' => Some("\\t"),
            '\u{08}' => Some("\\b"),
            '\u{0c}' => Some("\\f"),
            _ => None,
        };
        if style == 6 || (must && short.is_none()) {
            let upper = src.flip();
            let mut buf = [0u16; 2];
            for u in c.encode_utf16(&mut buf) {
                if upper {
                    out.push_str(&format!("\\u{:04X}", u));
                } else {
                    out.push_str(&format!("\\u{:04x}", u));
                }
            }
        } else if must || (style == 7 && short.is_some()) {
            out.push_str(short.unwrap());
        } else {
            out.push(c);
        }
    }
    out.push('"');
    out
}

fn ws(src: &mut Src, o: &TextOpts, out: &mut String) {
    if o.whitespace && src.chance(40) {
        for _ in 0..1 + src.below(2) {
            out.push(*src.pick(&[' ', '\n', '\t', '\r']));
        }
    }
}

pub fn gen_string_value(src: &mut Src) -> String {
    if src.chance(128) {
        gen_string(src)
    } else {
        let n = src.below(10);
        (0..n).map(|_| gen_char(src)).collect()
    }
}

/// Generate a JSON text and the model value it denotes.
pub fn gen_value_text(src: &mut Src, depth: usize, o: &TextOpts, out: &mut String) -> J {
    let cw = if depth >= o.max_depth { 0 } else { 4 };
    match src.weighted(&[2, 2, 8, 5, cw, cw]) {
        0 => {
            out.push_str("null");
            J::Null
        }
        1 => {
            let b = src.flip();
            out.push_str(if b { "true" } else { "false" });
            J::Bool(b)
        }
        2 => {
            let t = gen_numeral(src, o);
            out.push_str(&t);
            J::Num(numeral_value(&t))
        }
        3 => {
            let s = gen_string_value(src);
            out.push_str(&spell_string(&s, src, o.escapes));
            J::Str(s)
        }
        4 => {
            let n = if depth <= 1 && o.max_depth > 3 && src.chance(10) { src.size(200) } else { src.below(o.max_width + 1) };
            let mut items: Vec<J> = vec![];
            out.push('[');
            for i in 0..n {
                if i > 0 {
                    out.push(',');
                }
                ws(src, o, out);
                if i > 0 && src.chance(20) {
                    // an exact or near duplicate of the previous element
                    let prev: J = items[i - 1].clone();
                    let v = if src.flip() { prev } else { crate::gen_doc::near_value_opt(&prev, src, o.wild_floats) };
                    let mut t = String::new();
                    v.write_json(&mut t);
                    match J::parse(&t) {
                        Ok(back) if back.exact_eq(&v) => {
                            out.push_str(&t);
                            items.push(v);
                        }
                        _ => items.push(gen_value_text(src, depth + 1, o, out)),
                    }
                } else {
                    items.push(gen_value_text(src, depth + 1, o, out));
                }
                ws(src, o, out);
            }
            if n == 0 {
                ws(src, o, out);
            }
            out.push(']');
            J::Arr(items)
        }
        _ => {
            // now and then a wide object (tens to hundreds of members, keys in no particular order)
            let wide = depth <= 1 && o.max_depth > 3 && src.chance(10);
            let n = if wide { src.size(200) } else { src.below(o.max_width + 1) };
            let mut m = BTreeMap::new();
            let mut keys: Vec<String> = vec![];
            out.push('{');
            for i in 0..n {
                if i > 0 {
                    out.push(',');
                }
                ws(src, o, out);
                let k = if o.dup_keys && !keys.is_empty() && src.chance(50) {
                    keys[src.below(keys.len())].clone()
                } else if wide && src.chance(200) {
                    format!("{}{}", ["k", "key_", "", "z"][src.below(4)], src.below(2 * n + 1))
                } else if src.chance(190) {
                    crate::gen_doc::gen_key(src, true)
                } else {
                    gen_string_value(src)
                };
                out.push_str(&spell_string(&k, src, o.escapes));
                ws(src, o, out);
                out.push(':');
                ws(src, o, out);
                let v = gen_value_text(src, depth + 1, o, out);
                ws(src, o, out);
                keys.push(k.clone());
                m.insert(k, v); // last duplicate wins
            }
            if n == 0 {
                ws(src, o, out);
            }
            out.push('}');
            J::Obj(m)
        }
    }
}

pub fn gen_text(src: &mut Src, o: &TextOpts) -> (J, String) {
    let mut out = String::new();
    ws(src, o, &mut out);
    let v = gen_value_text(src, 0, o, &mut out);
    ws(src, o, &mut out);
    (v, out)
}
