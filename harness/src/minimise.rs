//! Case-level minimisation of a failing (expression, document) pair: delete
//! lexemes of the expression and parts of the document while the same failure
//! signature keeps reproducing.  Deterministic, no randomness.

use crate::model::J;
use crate::syn::{join_lexemes, lexemes};

/// `check(expr, doc)` returns the failure signature, if the pair still fails.
pub fn minimise_pair(expr: &str, doc: &str, sig: &str, check: &dyn Fn(&str, &str) -> Option<String>) -> (String, String) {
    let mut expr = expr.to_string();
    let mut doc = doc.to_string();
    let mut budget = 6000usize;
    for _round in 0..4 {
        let before = (expr.len(), doc.len());
        // expression: remove runs of lexemes
        if let Some(mut ls) = lexemes(&expr) {
            let mut chunk = (ls.len() / 2).max(1);
            loop {
                let mut i = 0;
                while i < ls.len() && budget > 0 {
                    let end = (i + chunk).min(ls.len());
                    let mut cand = ls.clone();
                    cand.drain(i..end);
                    let text = join_lexemes(&cand);
                    budget -= 1;
                    if !text.trim().is_empty() && check(&text, &doc).as_deref() == Some(sig) {
                        ls = cand;
                    } else {
                        i += 1;
                    }
                }
                if chunk == 1 {
                    break;
                }
                chunk /= 2;
            }
            // drop redundant whitespace
            let compact: Vec<(String, String)> = ls.iter().map(|(_, l)| (String::new(), l.clone())).collect();
            let text = join_lexemes(&compact);
            if check(&text, &doc).as_deref() == Some(sig) {
                expr = text;
            } else {
                expr = join_lexemes(&ls);
            }
        }
        // document: replace sub-values by simpler ones
        if let Ok(j) = J::parse(&doc) {
            let mut cur = j;
            let mut progress = true;
            while progress && budget > 0 {
                progress = false;
                let paths = all_paths(&cur);
                for p in paths {
                    if budget == 0 {
                        break;
                    }
                    for cand in simpler(&cur, &p) {
                        budget = budget.saturating_sub(1);
                        if check(&expr, &cand.to_json()).as_deref() == Some(sig) {
                            cur = cand;
                            progress = true;
                            break;
                        }
                    }
                    if progress {
                        break;
                    }
                }
            }
            doc = cur.to_json();
        }
        if (expr.len(), doc.len()) == before {
            break;
        }
    }
    (expr, doc)
}

#[derive(Clone, Debug)]
enum Step {
    Idx(usize),
    Key(String),
}

fn all_paths(v: &J) -> Vec<Vec<Step>> {
    let mut out = vec![vec![]];
    match v {
        J::Arr(a) => {
            for (i, x) in a.iter().enumerate() {
                for mut p in all_paths(x) {
                    p.insert(0, Step::Idx(i));
                    out.push(p);
                }
            }
        }
        J::Obj(o) => {
            for (k, x) in o {
                for mut p in all_paths(x) {
                    p.insert(0, Step::Key(k.clone()));
                    out.push(p);
                }
            }
        }
        _ => {}
    }
    out
}

fn get<'a>(v: &'a J, p: &[Step]) -> Option<&'a J> {
    match p.first() {
        None => Some(v),
        Some(Step::Idx(i)) => match v {
            J::Arr(a) => a.get(*i).and_then(|x| get(x, &p[1..])),
            _ => None,
        },
        Some(Step::Key(k)) => match v {
            J::Obj(o) => o.get(k).and_then(|x| get(x, &p[1..])),
            _ => None,
        },
    }
}

fn set(v: &J, p: &[Step], new: Option<J>) -> J {
    match p.first() {
        None => new.unwrap_or(J::Null),
        Some(Step::Idx(i)) => match v {
            J::Arr(a) => {
                let mut b = a.clone();
                if p.len() == 1 && new.is_none() {
                    b.remove(*i);
                } else {
                    b[*i] = set(&a[*i], &p[1..], new);
                }
                J::Arr(b)
            }
            other => other.clone(),
        },
        Some(Step::Key(k)) => match v {
            J::Obj(o) => {
                let mut m = o.clone();
                if p.len() == 1 && new.is_none() {
                    m.remove(k);
                } else if let Some(x) = o.get(k) {
                    m.insert(k.clone(), set(x, &p[1..], new));
                }
                J::Obj(m)
            }
            other => other.clone(),
        },
    }
}

/// Candidate simplifications at one path: delete it, or replace it by a
/// simpler value of the same kind.
fn simpler(root: &J, p: &[Step]) -> Vec<J> {
    let mut out = vec![];
    let here = match get(root, p) {
        Some(h) => h,
        None => return out,
    };
    if !p.is_empty() {
        out.push(set(root, p, None));
    }
    match here {
        J::Arr(a) if !a.is_empty() => out.push(set(root, p, Some(J::Arr(vec![])))),
        J::Obj(o) if !o.is_empty() => out.push(set(root, p, Some(J::Obj(Default::default())))),
        J::Str(s) if !s.is_empty() => {
            out.push(set(root, p, Some(J::s(""))));
            out.push(set(root, p, Some(J::s("a"))));
        }
        J::Num(n) if n.f() != 0.0 && n.f() != 1.0 => {
            out.push(set(root, p, Some(J::int(0))));
            out.push(set(root, p, Some(J::int(1))));
        }
        _ => {}
    }
    out
}
