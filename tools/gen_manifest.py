#!/usr/bin/env python3
"""Regenerates /verif/MANIFEST.json from the table below (keeps it valid at all times)."""
import json

CLAIMED = {
 "C01": ("reference-model differential: proptest-driven byte-decoded tree/document generators + enumerated cross product of compliance expressions x documents", "4/C01"),
 "C02": ("reference-model differential per built-in (direct calls over the whole declared domain, typed nested expressions) + validity predicates + recording custom function for per-element evaluation of expression references", "4/C02"),
 "C03": ("differential vs. an independent reference grammar over generated sentences, one-edit mutants, token soup, lexical corner cases", "4/C03"),
 "C04": ("construction oracle (tree -> text -> public Ast), reference-parser differential, parenthesisation metamorphic relation", "4/C04"),
 "C05": ("crash/abort monitor: panic capture (overflow checks on) over all syntax generators, structure-aware index/slice extremes, adversarial built-in arguments; child-process depth ladder", "4/C05"),
 "C06": ("complete enumeration of the (function x arity x argument-class^n) decision table with seeded representatives against the specification table in the reference model", "4/C06"),
 "C07": ("small-scope enumeration + random search against a 128-bit transcription of Python's slice rule", "4/C07"),
 "C08": ("construction oracle: JSON text generated together with the value it denotes (randomised spelling), checked through parse, identity query, print/re-parse and serde_json::Value conversions", "4/C08"),
 "C09": ("round trip by construction (spell a value, evaluate, compare) and per-form reference decoder differential over arbitrary delimiter/backslash/escape juxtapositions", "4/C09"),
 "C10": ("generated value pairs in varied spellings against own deep-equality / numeric-order model and the algebraic laws", "4/C10"),
 "C12": ("planted-fault construction oracle (kind + byte position known to the generator) and independently recomputed error-record invariants over generated failing compiles/searches", "4/C12"),
 "C13": ("stateful/model-based: generated call histories (compile/clone/drop/search through four input routes) against a pure-table model + reference evaluation", "4/C13"),
 "C14": ("differential against serde_json::to_value/from_value over generated values of derive-d types covering the serde data model, incl. cross-type decoding", "4/C14"),
 "C15": ("stateful/model-based: generated register/deregister histories against a map model with recording custom functions", "4/C15"),
 "C16": ("compile-time Send/Sync obligations (reported as a fact) + generated concurrent workloads vs. sequential results, fresh-process first-use races; thorough adds ThreadSanitizer", "4/C16"),
 "C17": ("differential across build configurations: one driver built under four feature sets answers the same generated cases; specialised vs generic conversion inside each build", "4/C17"),
 "C18": ("differential end to end: generated jp process invocations vs. the library called in-process", "4/C18"),
 "C11": ("metamorphic/self-consistency: compound expression vs. its separately evaluated parts, implementation only", "4/C11"),
}
NOT_YET = "check not built yet in this revision (work in progress; DESIGN.md section 4 has the plan)"
NA = {}

LEVEL_TEXT = ("Generated-input search (proptest runners over byte-decoded generators, plus complete enumeration of small finite tables) "
              "against an explicit oracle, with shrinking to a replay file. It shows no counterexample in the explored space, whose size, "
              "non-trivial share and samples the evidence file reports; it does not establish absence.")
NOTE = ("Trusted: rustc/std, proptest, serde/serde_json, the harness's reference model (kept honest by `run.sh selftest`: the published "
        "compliance suite applied to the model, and generator/printer/reference-parser round trips).")

checks = []
for pid, (tech, ref) in sorted(CLAIMED.items()):
    checks.append({
        "property_id": pid,
        "quick_cmd": "./run.sh %s quick" % pid,
        "thorough_cmd": "./run.sh %s thorough" % pid,
        "evidence_file": "/verif/evidence/%s.json" % pid,
        "replay_cmd_template": "./run.sh replay {path}",
        "engine": "jmv",
        "level_claimed": {"category": "exploration", "text": LEVEL_TEXT, "design_ref": "DESIGN.md section " + ref},
        "level_note": NOTE,
        "technique": tech,
    })
na = []
for i in range(1, 19):
    pid = "C%02d" % i
    if pid in CLAIMED:
        continue
    na.append({"property_id": pid, "reason": NA.get(pid, NOT_YET)})
m = {
 "version": 1,
 "setup_cmd": "./run.sh setup",
 "hooks": {
  "guard": "jmespath_rs_verif",
  "enable": "no hooks are needed: every observation point is public API; checks build /repo/jmespath as a path dependency of /verif/harness (cargo rebuilds it whenever the working tree changes)",
  "baseline_off_cmd": "cd /repo/jmespath && cargo test --offline --no-fail-fast",
  "source_commits": [],
  "add_only": True,
 },
 "engines": [{"name": "jmv", "path": "/verif/harness", "serves_properties": sorted(CLAIMED),
              "kind_free_text": "Rust harness crate: proptest runners over byte-decoded generators, independent reference lexer/parser/evaluator, replay, evidence and known-findings plumbing"}],
 "checks": checks,
 "notes": "DESIGN.md explains the approach; known_findings.json lists known and fixed findings; replays/regress holds permanent reproducers.",
}
if na:
    m["not_applicable"] = na
json.dump(m, open("/verif/MANIFEST.json", "w"), indent=1)
print("claimed:", sorted(CLAIMED), "unclaimed:", [x["property_id"] for x in na])
