#!/bin/bash
# usage: confirm_demo.sh <Cxx> <a|b>  -- runs the sub-agent's demonstration with and without its patch
c=$1; v=$2
O=${SEEDROOT:-/tmp/seed}/$c/OUT/$v
W=/tmp/demo/$c$v
rm -rf "$W"; mkdir -p /tmp/demo
git -C /repo worktree prune
git -C /repo worktree add -q --detach "$W" HEAD || exit 3
feat=""; tc=""
case $c in C16) feat="--features sync";; esac
if [ "$c" = "C17" ]; then
  if grep -q "specialized" "$O/notes.md" && [ "$v" = "a" ]; then feat="--features specialized"; tc="+nightly"; else feat="--features sync"; fi
fi
[ -n "$DEMO_FEAT" ] && feat="$DEMO_FEAT"
[ -n "$DEMO_TC" ] && tc="$DEMO_TC"
run_demo() {
  if [ -f "$O/demo.rs" ]; then
    cp "$O/demo.rs" "$W/jmespath/tests/seeded_demo.rs"
    ( cd "$W/jmespath" && cargo $tc test --offline $feat --test seeded_demo 2>&1 | grep -E "^test result|error(\[|:)|panicked" | head -3 | tr '\n' ' ' )
    rm -f "$W/jmespath/tests/seeded_demo.rs"
  elif [ -f "$O/demo/demo.sh" ]; then
    sed "s#${SEEDROOT:-/tmp/seed}/$c#$W#g" "$O/demo/demo.sh" > "$W/demo.sh"
    mkdir -p "$W/OUT/$v"; cp -r "$O/demo" "$W/OUT/$v/demo"; sed -i "s#${SEEDROOT:-/tmp/seed}/$c#$W#g" "$W/OUT/$v/demo/"* 2>/dev/null
    ( cd "$W" && sh "$W/demo.sh" >/dev/null 2>&1; echo "demo.sh exit=$?" )
  else
    echo "no-demo-found"
  fi
}
without=$(run_demo)
git -C "$W" apply "$O/patch.diff" || { echo "DEMO $c$v patch-does-not-apply"; exit 3; }
with=$(run_demo)
echo "DEMO $c$v WITHOUT: $without || WITH: $with"
git -C /repo worktree remove --force "$W"; rm -rf "$W"
