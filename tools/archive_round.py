#!/usr/bin/env python3
"""usage: archive_round.py <round> <seedroot> <batch-log> <demo-log> <kind-text> [variants]

Copies the deliverables of one round of seeded changes (<seedroot>/<Cxx>/OUT/<v>/) to
/verif/seeded/r<round>-<Cxx><v>/ and writes meta.json from the RESULT lines of tools/batch_own.sh
(first run, before any strengthening) and the DEMO lines of tools/confirm_demo.sh.
A later run against strengthened checks is recorded by hand in meta.json (after_strengthening).
"""
import json, os, re, shutil, sys

rnd, root, blog, dlog, kind = sys.argv[1:6]
variants = (sys.argv[6] if len(sys.argv) > 6 else "a").split()
titles = {}
for l in open("/verif/properties.jsonl"):
    d = json.loads(l)
    titles[d["id"]] = d.get("title", "")
base = os.popen("git -C /repo rev-parse --short HEAD").read().strip()
res, viol, demo = {}, {}, {}
last = None
for l in open(blog):
    m = re.match(r"\s+(C\d\d): (.*)", l)
    if m:
        last = (m.group(1), m.group(2).strip())
    m = re.match(r"RESULT (C\d\d\w) (.*)", l)
    if m:
        res[m.group(1)] = m.group(2).strip()
        if last:
            viol[m.group(1)] = "%s: %s" % last
        last = None
for l in open(dlog):
    m = re.match(r"DEMO (C\d\d\w) (.*)", l)
    if m:
        demo[m.group(1)] = m.group(2).strip()
for c in sorted(os.listdir(root)):
    for v in variants:
        o = os.path.join(root, c, "OUT", v)
        if not os.path.isfile(os.path.join(o, "patch.diff")):
            continue
        name = c + v
        dst = "/verif/seeded/r%s-%s" % (rnd, name)
        shutil.rmtree(dst, ignore_errors=True)
        shutil.copytree(o, dst, ignore=shutil.ignore_patterns("target", "*.lock", ".*"))
        r = res.get(name, "")
        tests = re.search(r"tests\[(.*?)\]", r)
        own = re.search(c + r"=(\S+)", r)
        meta = {
            "id": "r%s-%s" % (rnd, name), "round": int(rnd), "breaks_property": c,
            "property_title": titles.get(c, ""), "kind_asked_for": kind,
            "written_by": "independent sub-agent given only the property text and a scratch worktree; nothing from /verif",
            "base_commit": base, "needs_to_manifest": "see notes.md (written by the sub-agent)",
            "confirmed": {"applies_and_compiles": "SUITE-FAILS" not in r and "does-not-apply" not in r,
                          "pinned_suite_with_change": tests.group(1) if tests else r,
                          "demonstration": demo.get(name, "not run")},
            "first_run_detection_before_strengthening": {"own_check": own.group(1) if own else "?"},
            "after_strengthening": {},
            "caught_by": [c] if own and own.group(1) == "CAUGHT" else [],
            "how_run": "tools/try_mutant.sh <patch.diff> <name> <Cxx> [<Cyy>]",
            "first_violation_line": viol.get(name, ""),
        }
        json.dump(meta, open(os.path.join(dst, "meta.json"), "w"), indent=1, ensure_ascii=False)
        print(dst, meta["first_run_detection_before_strengthening"], meta["confirmed"]["demonstration"][:100])
