#!/bin/bash
# usage: batch_own.sh <logfile> <Cxx> ...  -- each mutant against its own property's check (+ extras given in EXTRA)
log=$1; shift
for c in "$@"; do
  for v in ${VARIANTS:-a b}; do
    p=${SEEDROOT:-/tmp/seed}/$c/OUT/$v/patch.diff
    [ -f "$p" ] || { echo "RESULT $c$v no-patch" >> "$log"; continue; }
    /verif/tools/try_mutant.sh "$p" "$c$v" $c ${EXTRA:-} >> "$log" 2>&1
  done
done
echo "BATCH-DONE $*" >> "$log"
