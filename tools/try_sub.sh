#!/bin/bash
# usage: try_sub.sh <patch.diff> <Cxx> <sub-check>  -- one sub-check against a scratch copy with the patch applied
patch=$1; c=$2; sub=$3
W=/tmp/mut/sub-$$
rm -rf "$W"; mkdir -p /tmp/mut
git -C /repo worktree prune
git -C /repo worktree add -q --detach "$W" HEAD || exit 3
git -C "$W" apply "$patch" || { echo "patch-does-not-apply"; git -C /repo worktree remove --force "$W"; exit 3; }
JMV_OUT_DIR="$W/.jmv-out" VERIF_REPO="$W" VERIF_SEED=${VERIF_SEED:-1} JMV_ONLY_SUB="$sub" /verif/run.sh "$c" ${TIER:-quick} 2>&1 | grep -E "^(OK|VIOLATION|INCONCL|  sub=)" | head -4 | cut -c1-300
git -C /repo worktree remove --force "$W"; rm -rf "$W"
