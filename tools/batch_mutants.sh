#!/bin/bash
# usage: batch_mutants.sh <logfile> <Cxx> [Cyy ...]   -- evaluates /tmp/seed/Cxx/OUT/{a,b}/patch.diff
log=$1; shift
ALL="C01 C02 C03 C04 C05 C06 C07 C08 C09 C10 C11 C12 C13 C14 C15"
for c in "$@"; do
  for v in a b; do
    p=${SEEDROOT:-/tmp/seed}/$c/OUT/$v/patch.diff
    [ -f "$p" ] || { echo "RESULT $c$v no-patch" >> "$log"; continue; }
    props="$ALL"
    case $c in C16) props="C16 C13";; C17) props="C17 C14 C08";; C18) props="C18";; esac
    /verif/tools/try_mutant.sh "$p" "$c$v" $props >> "$log" 2>&1
  done
done
echo "BATCH-DONE $*" >> "$log"
