#!/bin/bash
# usage: try_mutant.sh <patch.diff> <name> <Cxx> [Cyy ...]
# Applies the patch to a scratch worktree of /repo HEAD, confirms that the pinned test suite still
# passes, runs the given checks (quick tier) against it and reports which ones raise a VIOLATION.
set -u
patch=$1; name=$2; shift 2
W=/tmp/mut/$name
rm -rf "$W"; mkdir -p /tmp/mut
git -C /repo worktree prune
git -C /repo worktree add -q --detach "$W" HEAD || exit 3
if ! git -C "$W" apply "$patch" 2>/dev/null && ! git -C "$W" apply -3 "$patch"; then echo "RESULT $name patch-does-not-apply"; git -C /repo worktree remove --force "$W"; exit 3; fi
( cd "$W/jmespath" && cargo test --offline --no-fail-fast >"$W/.test.log" 2>&1 )
tests=$(grep -E "^test result" "$W/.test.log" | tr '\n' ' ')
if grep -qE "^test result: FAILED|error\[|error:" "$W/.test.log"; then echo "RESULT $name SUITE-FAILS-OR-DOES-NOT-COMPILE :: $tests"; fi
out="RESULT $name tests[$(echo $tests | grep -o '[0-9]* passed; [0-9]* failed' | tr '\n' ',')]"
for p in "$@"; do
  log="$W/.check-$p.log"
  JMV_OUT_DIR="$W/.jmv-out" VERIF_REPO="$W" VERIF_SEED=${VERIF_SEED:-1} /verif/run.sh "$p" ${TIER:-quick} >"$log" 2>&1
  rc=$?
  first=$(grep -m1 -A1 "^VIOLATION" "$log" | tail -1 | cut -c1-220)
  case $rc in
    0) out="$out $p=missed" ;;
    1) out="$out $p=CAUGHT" ; echo "   $p: $first" ;;
    *) out="$out $p=exit$rc" ; tail -3 "$log" | cut -c1-300 ;;
  esac
done
echo "$out"
git -C /repo worktree remove --force "$W"
rm -rf "$W"
